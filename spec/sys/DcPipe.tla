------------------------------- MODULE DcPipe -------------------------------
(* s2n-quic-dc streams as the two applications see them (C20).  Each stream k is two pipes: 2k (request, client -> server)
   and 2k+1 (response).  For every pipe:
     - the reader obtains exactly the bytes the writer handed over, in order: a read at offset o delivers the bytes o.. of
       the pattern, o is where the previous read ended, and never more than the writer has started to write;
     - end of stream is reported only when the writer has finished (shutdown, or dropped its handle after its last write)
       and then at exactly the number of bytes written;
     - an error is reported only if an application dropped a half of the stream, or the peer host has vanished - and then
       no later than the idle timeout after it vanished (or after the stream was opened, if later);
     - a client whose peer is alive and did not drop the stream gets its whole exchange done (client_done with both
       pipes complete).
   Datagram loss, outages, MTUs and operation orders are the environment (scenario plan), not part of the state. *)
EXTENDS Naturals, FiniteSets, Sequences, TLC
CONSTANTS IdleUs, SlackUs, KnownF14
None == 0 - 1
VARIABLES mode, vanishAt,
          ws, w, finStarted, r, closed,     \* per pipe (functions over the pipes seen so far)
          droppedStreams, openedAt, plans,
          finished                          \* streams whose client side has returned (done, or failed to connect)
pvars == <<mode, vanishAt, ws, w, finStarted, r, closed, droppedStreams, openedAt, plans, finished>>
PInit == mode = "clean" /\ vanishAt = None /\ ws = <<>> /\ w = <<>> /\ finStarted = {} /\ r = <<>> /\ closed = <<>> /\ droppedStreams = {}
         /\ openedAt = <<>> /\ plans = <<>> /\ finished = {}
Reset(m, v) == mode' = m /\ vanishAt' = v /\ ws' = <<>> /\ w' = <<>> /\ finStarted' = {} /\ r' = <<>> /\ closed' = <<>> /\ droppedStreams' = {}
               /\ openedAt' = <<>> /\ plans' = <<>> /\ finished' = {}
Get(f, k) == IF k \in DOMAIN f THEN f[k] ELSE 0
GetS(f, k) == IF k \in DOMAIN f THEN f[k] ELSE "open"
Put(f, k, v) == [x \in DOMAIN f \cup {k} |-> IF x = k THEN v ELSE f[x]]
StreamOf(p) == p \div 2
Open(k, t, clientMode, serverMode) ==
  /\ openedAt' = Put(openedAt, k, t) /\ plans' = Put(plans, k, [c |-> clientMode, s |-> serverMode])
  /\ UNCHANGED <<mode, vanishAt, ws, w, finStarted, r, closed, droppedStreams, finished>>
WriteStart(p, off, len) == off = Get(ws, p) /\ off = Get(w, p) /\ ws' = Put(ws, p, off + len)
                          /\ UNCHANGED <<mode, vanishAt, w, finStarted, r, closed, droppedStreams, openedAt, plans, finished>>
WriteDone(p, off) == off = Get(ws, p) /\ w' = Put(w, p, off)
                     /\ UNCHANGED <<mode, vanishAt, ws, finStarted, r, closed, droppedStreams, openedAt, plans, finished>>
(* a write call that also finishes the stream: the end may be seen by the reader before the call returns *)
WriteStartFin(p, off, len) == off = Get(ws, p) /\ off = Get(w, p) /\ ws' = Put(ws, p, off + len) /\ finStarted' = finStarted \cup {p}
                          /\ UNCHANGED <<mode, vanishAt, w, r, closed, droppedStreams, openedAt, plans, finished>>
(* vanish mode without a planned instant: the network reports when the server host disappeared *)
Vanished(t) == mode = "vanish" /\ vanishAt = None /\ vanishAt' = t
               /\ UNCHANGED <<mode, ws, w, finStarted, r, closed, droppedStreams, openedAt, plans, finished>>
FinStart(p, total) == total = Get(w, p) /\ total = Get(ws, p) /\ finStarted' = finStarted \cup {p}
                      /\ UNCHANGED <<mode, vanishAt, ws, w, r, closed, droppedStreams, openedAt, plans, finished>>
Read(p, off, len, ok) ==
  /\ ok /\ off = Get(r, p) /\ off + len <= Get(ws, p) /\ GetS(closed, p) = "open"
  /\ r' = Put(r, p, off + len)
  /\ UNCHANGED <<mode, vanishAt, ws, w, finStarted, closed, droppedStreams, openedAt, plans, finished>>
Eos(p, total) ==
  /\ total = Get(r, p) /\ total = Get(ws, p) /\ GetS(closed, p) = "open"
  /\ p \in finStarted \/ StreamOf(p) \in droppedStreams
  /\ closed' = Put(closed, p, "eos")
  /\ UNCHANGED <<mode, vanishAt, ws, w, finStarted, r, droppedStreams, openedAt, plans, finished>>
Max2(a, b) == IF a >= b THEN a ELSE b
ErrorJustified(p, t) ==
  \/ StreamOf(p) \in droppedStreams
  \* known finding F14: the writing application finished the stream (its finishing call returned, it read the peer's
  \* direction to the end and dropped its handles) while part of what it wrote was still unacknowledged; the library
  \* then stops repairing lost packets and the reader gets an error instead of the rest of the data
  \/ (KnownF14 /\ p \in finStarted /\ StreamOf(p) \in finished /\ Get(r, p) < Get(ws, p) /\ PrintT(<<"KNOWN-FINDING", "F14">>))
  \/ /\ mode = "vanish" /\ vanishAt # None /\ t >= vanishAt
     /\ t <= Max2(vanishAt, Get(openedAt, StreamOf(p))) + IdleUs + SlackUs
Error(p, t) == ErrorJustified(p, t) /\ closed' = Put(closed, p, "err")
               /\ UNCHANGED <<mode, vanishAt, ws, w, finStarted, r, droppedStreams, openedAt, plans, finished>>
Dropped(p) == droppedStreams' = droppedStreams \cup {StreamOf(p)}
              /\ UNCHANGED <<mode, vanishAt, ws, w, finStarted, r, closed, openedAt, plans, finished>>
\* the client has finished its part of stream k
ClientDone(k) ==
  /\ (mode # "vanish" /\ k \notin droppedStreams /\ k \in DOMAIN plans /\ plans[k].c # "drop_after_write" /\ plans[k].s # "drop") =>
        /\ GetS(closed, 2 * k + 1) = "eos"
        /\ plans[k].s = "echo_len" => GetS(closed, 2 * k) = "eos"
  /\ finished' = finished \cup {k}
  /\ UNCHANGED <<mode, vanishAt, ws, w, finStarted, r, closed, droppedStreams, openedAt, plans>>
GaveUp(k) == finished' = finished \cup {k} /\ UNCHANGED <<mode, vanishAt, ws, w, finStarted, r, closed, droppedStreams, openedAt, plans>>
(* when the run is over no client is left waiting: every stream it opened has returned, with its data or with an error
   ("instead of hanging") *)
RunEnd == DOMAIN openedAt \subseteq finished /\ UNCHANGED pvars
=============================================================================

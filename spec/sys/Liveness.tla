------------------------------- MODULE Liveness -------------------------------
(* C02 on recorded runs (bounded liveness): every application operation ends - with success when the network
   eventually delivers, with a reported connection failure when it never does again - and the failure comes
   no later than the effective idle timeout (the negotiated value, but at least three probe timeouts) after the
   last activity, and not earlier than the negotiated timeout after the last packet received.
   A stalled executor ("stall") or an operation still pending at its deadline ("app_timeout") has no action. *)
EXTENDS Naturals, FiniteSets, Sequences, TLC
Ep == {"c", "s"}
None == 0 - 1
CONSTANT Slack             \* microseconds
VARIABLES mode,            \* "heal" (everything must complete) | "dead" (the network never recovers: both must fail) | "free"
          idleT,           \* negotiated idle timeout (microseconds)
          lastRx, lastTx,  \* [Ep -> time] last packet processed / last ack-eliciting packet sent
          pto,             \* [Ep -> microseconds] current probe timeout incl. backoff, from the published recovery metrics
          closedAt,        \* [Ep -> time or None]
          sendOpen,        \* set of <<ep, id>>: a send call is pending
          mustEos,         \* set of <<receiver ep, id>>: the sender finished, the receiver has not seen the end yet
          mustDone,        \* set of <<sender ep, id>>: finished streams not yet acknowledged to the application
          failed,          \* set of <<ep, id>> streams that ended with an error (reset / stop / connection error)
          hx               \* [heal |-> time from which the network delivers everything, excused |-> an idle timeout fell due before
                           \*  any endpoint had to send again after that time (exponential probe back-off outlasted the outage)]
lvars == <<mode, idleT, lastRx, lastTx, pto, closedAt, sendOpen, mustEos, mustDone, failed, hx>>
Other(e) == IF e = "c" THEN "s" ELSE "c"
Max2(a, b) == IF a >= b THEN a ELSE b
Min2(a, b) == IF a <= b THEN a ELSE b
LFresh(m, idle, heal) == [mode |-> m, hx |-> [heal |-> heal, excused |-> FALSE], idleT |-> idle, lastRx |-> [e \in Ep |-> 0], lastTx |-> [e \in Ep |-> 0], pto |-> [e \in Ep |-> 1000000],
                    closedAt |-> [e \in Ep |-> None], sendOpen |-> {}, mustEos |-> {}, mustDone |-> {}, failed |-> {}]
Set(st) == mode' = st.mode /\ idleT' = st.idleT /\ lastRx' = st.lastRx /\ lastTx' = st.lastTx /\ pto' = st.pto /\ closedAt' = st.closedAt
           /\ sendOpen' = st.sendOpen /\ mustEos' = st.mustEos /\ mustDone' = st.mustDone /\ failed' = st.failed /\ hx' = st.hx
LInit == LET st == LFresh("free", 30000000, 0) IN mode = st.mode /\ idleT = st.idleT /\ lastRx = st.lastRx /\ lastTx = st.lastTx /\ pto = st.pto
         /\ closedAt = st.closedAt /\ sendOpen = st.sendOpen /\ mustEos = st.mustEos /\ mustDone = st.mustDone /\ failed = st.failed /\ hx = st.hx

Rx(e, t) == lastRx' = [lastRx EXCEPT ![e] = t] /\ UNCHANGED <<mode, idleT, lastTx, pto, closedAt, sendOpen, mustEos, mustDone, failed, hx>>
TxEliciting(e, t) == lastTx' = [lastTx EXCEPT ![e] = t] /\ UNCHANGED <<mode, idleT, lastRx, pto, closedAt, sendOpen, mustEos, mustDone, failed, hx>>
Pow2(n) == IF n >= 15 THEN 32768 ELSE 2 ^ n      \* the product below is capped at 600 s anyway
MetricsSeen(e, srtt, rttvar, mad, count) ==
  pto' = [pto EXCEPT ![e] = Min2((srtt + Max2(4 * rttvar, 1000) + mad) * Pow2(count), 600000000)]
  /\ UNCHANGED <<mode, idleT, lastRx, lastTx, closedAt, sendOpen, mustEos, mustDone, failed, hx>>

\* the connection ended at e
Closed(e, kind, t) ==
  /\ kind = "idle" =>
       /\ t + Slack >= lastRx[e] + idleT                                        \* not before the negotiated timeout
       /\ t <= Max2(lastRx[e], lastTx[e]) + Max2(idleT, 3 * pto[e]) + Slack      \* not later than the effective timeout
  /\ closedAt' = [closedAt EXCEPT ![e] = IF @ = None THEN t ELSE @]
  \* "delivered again for long enough": an idle timeout (justified above) that falls due less than one backed-off probe
  \* timeout after the network healed ends the connection before anybody had to send; that is not a liveness failure
  \* the same holds for the handshake deadline (a configured limit, 10 s by default) when the network healed less than one
  \* probe timeout before it
  /\ hx' = [hx EXCEPT !.excused = @ \/ (kind \in {"idle", "handshake_duration"} /\ lastRx[e] <= hx.heal /\ t <= hx.heal + Max2(pto["c"], pto["s"]) + Slack)]
  /\ UNCHANGED <<mode, idleT, lastRx, lastTx, pto, sendOpen, mustEos, mustDone, failed>>

SendCall(e, id) == sendOpen' = sendOpen \cup {<<e, id>>} /\ UNCHANGED <<mode, idleT, lastRx, lastTx, pto, closedAt, mustEos, mustDone, failed, hx>>
SendOk(e, id) == sendOpen' = sendOpen \ {<<e, id>>} /\ UNCHANGED <<mode, idleT, lastRx, lastTx, pto, closedAt, mustEos, mustDone, failed, hx>>
Finished(e, id) == mustEos' = mustEos \cup {<<Other(e), id>>} /\ mustDone' = mustDone \cup {<<e, id>>}
                   /\ UNCHANGED <<mode, idleT, lastRx, lastTx, pto, closedAt, sendOpen, failed, hx>>
SendDone(e, id) == mustDone' = mustDone \ {<<e, id>>} /\ UNCHANGED <<mode, idleT, lastRx, lastTx, pto, closedAt, sendOpen, mustEos, failed, hx>>
Eos(e, id) == mustEos' = mustEos \ {<<e, id>>} /\ UNCHANGED <<mode, idleT, lastRx, lastTx, pto, closedAt, sendOpen, mustDone, failed, hx>>
\* an operation on stream id reported a failure at e: the stream is over for both directions' obligations at e
Failed(e, id) ==
  /\ failed' = failed \cup {<<e, id>>}
  /\ sendOpen' = sendOpen \ {<<e, id>>} /\ mustDone' = mustDone \ {<<e, id>>} /\ mustEos' = mustEos \ {<<e, id>>}
  /\ UNCHANGED <<mode, idleT, lastRx, lastTx, pto, closedAt, hx>>
\* a stream that was reset / stopped by either application is released from the completion obligations
Released(id) ==
  /\ sendOpen' = {x \in sendOpen : x[2] # id} /\ mustDone' = {x \in mustDone : x[2] # id} /\ mustEos' = {x \in mustEos : x[2] # id}
  /\ UNCHANGED <<mode, idleT, lastRx, lastTx, pto, closedAt, failed, hx>>

\* end of the run
End(t) ==
  /\ mode = "heal" => ((sendOpen = {} /\ mustEos = {} /\ mustDone = {} /\ failed = {})      \* everything got through
                       \/ (hx.excused /\ sendOpen = {}))                                    \* or a justified early idle timeout, reported
  /\ mode = "dead" => (sendOpen = {} /\ \A e \in Ep : closedAt[e] # None)                  \* both sides reported the failure
  /\ UNCHANGED lvars
=============================================================================

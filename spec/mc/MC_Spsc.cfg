SPECIFICATION Spec
CONSTANTS
  Cap = 2
  Items = 2
  MaxBatch = 2
  ReceiverMayDrop = TRUE
  WakeAfterStore = TRUE
  RecheckAfterRegister = TRUE
  WakeAfterSwap = TRUE
  OrdOpenLoadS = "acquire"
  OrdHeadLoad = "acquire"
  OrdTailLoad = "acquire"
  OrdOpenLoadR = "acquire"
  OrdHeadStore = "release"
  OrdTailStore = "release"
  OrdOpenSwap = "seqcst"
  OrdDropHeadLoad = "acquire"
  OrdDropTailLoad = "acquire"
INVARIANTS NoError Fifo AllAccounted NoLostWakeup
CHECK_DEADLOCK FALSE

---- MODULE MC_SendFlow ----
EXTENDS SendFlow
====

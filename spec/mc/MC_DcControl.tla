---------------------------- MODULE MC_DcControl ----------------------------
(* Design-level model of the secret-control handlers (path/secret/map/state.rs): look the entry up by credential id,
   authenticate with the entry's key, only then change state.  The environment: the genuine receiver (announces window
   floors, detects replays, loses its state) and an attacker who sees every genuine control packet, may replay them at
   will and may fabricate packets with arbitrary fields but cannot produce a valid tag for content the receiver never
   signed. *)
EXTENDS DcControl, FiniteSets
CONSTANTS MaxId
VARIABLES signed,      \* control packets the genuine receiver has produced: [kind, m]
          drawn,       \* number of key ids the sender has issued
          floorMax     \* largest window floor the receiver has ever announced
mvars == <<dvars, signed, drawn, floorMax>>
MInit == cur = 0 /\ has = TRUE /\ hs = 0 /\ signed = {} /\ drawn = 0 /\ floorMax = 0
Draw == cur < MaxId /\ cur' = cur + 1 /\ drawn' = drawn + 1 /\ UNCHANGED <<has, hs, signed, floorMax>>
\* the receiver can only announce floors below ids it has really seen (they were drawn before)
ReceiverSigns(kind, m) ==
  /\ kind = "stale_key" => m <= cur
  /\ signed' = signed \cup {[kind |-> kind, m |-> m]}
  /\ floorMax' = (IF kind = "stale_key" THEN Max2(floorMax, m) ELSE floorMax)
  /\ UNCHANGED <<dvars, drawn>>
\* delivery of a packet with the given content; it authenticates iff the receiver signed exactly this content
Deliver(kind, m) ==
  LET auth == [kind |-> kind, m |-> m] \in signed IN
  /\ Control(kind, auth, auth, m)
  /\ UNCHANGED <<signed, drawn, floorMax>>
MNext == Draw
         \/ \E k \in {"stale_key", "replay_detected", "unknown_path_secret"}, m \in 0..MaxId : ReceiverSigns(k, m) \/ Deliver(k, m)
MSpec == MInit /\ [][MNext]_mvars
\* no packet, forged or replayed, moves the key id beyond what the sender drew or the genuine receiver announced
KeyIdBounded == cur <= Max2(drawn, floorMax)
\* the entry survives (young entries are never evicted), and handshakes are requested only after genuine packets exist
NoEviction == has
HandshakeOnlyIfSigned == hs > 0 => \E p \in signed : p.kind \in {"replay_detected", "unknown_path_secret"}
HsBound == hs <= 2
KeyIdMonotone == [][cur' >= cur]_mvars
=============================================================================

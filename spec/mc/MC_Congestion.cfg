SPECIFICATION MCSpec
CONSTANTS
  MssSet = {1200, 9000}
  Sizes = {100, 1200}
  MaxPackets = 4
  MaxTime = 3
  TickSet = {1}
INVARIANTS Floor Ledger NoOverflow AllowanceOnlyInRecovery
PROPERTIES LossNeverIncreases OncePerRoundTrip FrozenWhileAppLimited PersistentCollapses
CHECK_DEADLOCK FALSE

SPECIFICATION Spec
CONSTANTS
  Senders = 1
  Batches = 2
  CloneIncrements = FALSE
  SendersDrop = TRUE
  RecheckAfterRegister = TRUE
  WakeAfterSubmit = TRUE
  FinalAcquire = TRUE
  OrdSwap = "acquire"
  OrdFetchAdd = "release"
  OrdSendersLoad = "acquire"
  OrdFetchSub = "release"
INVARIANTS NoError ClosedOnlyWhenDrained NeverMoreThanSubmitted NoLostWakeup
CHECK_DEADLOCK FALSE

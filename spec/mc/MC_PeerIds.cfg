SPECIFICATION PSpec
CONSTANTS
  Rotate = TRUE
  ActiveLimit = 3
  RetiredLimit = 6
  MaxSeq = 4
  MaxPn = 3
  Dishonest = TRUE
INVARIANTS RetireIssuedOk OnceOk BelowRptOk ActiveKnownOk LimitOk
CHECK_DEADLOCK FALSE

SPECIFICATION MSpec
CONSTANTS
  MaxId = 4
INVARIANTS KeyIdBounded NoEviction HandshakeOnlyIfSigned
PROPERTIES KeyIdMonotone
CONSTRAINT HsBound
CHECK_DEADLOCK FALSE

--------------------------- MODULE MC_Reassembler ---------------------------
(* Bounded exhaustive exploration of the Reassembler reference model with ghost state that
   states the property itself: what is handed out is exactly what was written, each byte once,
   in order; nothing that was accepted and not yet consumed is missing. *)
EXTENDS Reassembler, Sequences, TLC

CONSTANTS Offsets, Lens, Marks, Skips

VARIABLES written,   \* ghost: set of offsets accepted by some write
          handed,    \* ghost: sequence of offsets handed to the reader, in order
          skipped    \* ghost: set of offsets skipped

mvars == <<rvars, written, handed, skipped>>

MInit == RInit /\ written = {} /\ handed = <<>> /\ skipped = {}

MWrite == \E o \in Offsets, n \in Lens, fin \in BOOLEAN, res \in {"ok", "oor", "fin"} :
            /\ Write(o, n, fin, res)
            /\ written' = IF res = "ok" THEN written \cup {x \in o..(o+n-1) : n > 0} ELSE written
            /\ UNCHANGED <<handed, skipped>>
MPop == \E w \in Marks, n \in 0..SetMax(Marks) :
            /\ Pop(w, n)
            /\ handed' = handed \o [i \in 1..n |-> start + i - 1]
            /\ UNCHANGED <<written, skipped>>
MSkip == \E n \in Skips, res \in {"ok", "oor", "fin"} :
            /\ Skip(n, res)
            /\ skipped' = IF res = "ok" THEN skipped \cup {x \in start..(start+n-1) : n > 0} ELSE skipped
            /\ UNCHANGED <<written, handed>>
MReset == Reset /\ written' = {} /\ handed' = <<>> /\ skipped' = {}

MNext == MWrite \/ MPop \/ MSkip \/ MReset
MSpec == MInit /\ [][MNext]_mvars

\* ---- the property, stated on the ghost state ----
HandedRange == {handed[i] : i \in 1..Len(handed)}
HandedInOrderOnce == \A i, j \in 1..Len(handed) : i < j => handed[i] < handed[j]
HandedWasWritten  == HandedRange \subseteq written
ConsumedExactly   == HandedRange \cup skipped = 0..(start-1) /\ HandedRange \cap skipped = {}
NothingLost       == \A x \in written : x >= start => IvContains(rcvd, x)
NothingInvented   == IvMembers(rcvd) \subseteq written
ContiguousOnly    == \A x \in start..(ObsTotal-1) : x \in written
FinalStable       == [][final # None => final' = final \/ (final' = None /\ start' = 0)]_mvars
Bounded           == Len(handed) <= 8
=============================================================================

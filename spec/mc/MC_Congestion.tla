---------------------------- MODULE MC_Congestion ----------------------------
EXTENDS Congestion
MCInit == \E m \in MssSet : CInit(m)
MCSpec == MCInit /\ [][CNext]_cvars
=============================================================================

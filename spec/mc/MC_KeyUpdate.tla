---- MODULE MC_KeyUpdate ----
EXTENDS KeyUpdate
MCView == <<phase, rotations, slot, timer, failures, closed, nextPn, net, used, sentGen>>
====

SPECIFICATION Spec
CONSTANTS
  Size = 2
  M = 8
  Start = 6
  Items = 5
  MaxBatch = 2
  OrdConsumerLoad = "acquire"
  OrdProducerAdd = "release"
  OrdProducerLoad = "acquire"
  OrdConsumerAdd = "release"
INVARIANTS NoError Fifo Bounded
CHECK_DEADLOCK FALSE

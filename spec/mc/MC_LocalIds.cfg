SPECIFICATION LSpec
CONSTANTS
  Limit = 2
  Rotate = TRUE
  Lifetime = 4
  Buffer = 2
  Settle = 1
  MaxSeq = 3
  MaxTime = 6
  MaxPn = 3
INVARIANTS LimitOk RptOk SkippedOk RoutableOk InterestOk
CHECK_DEADLOCK FALSE

SPECIFICATION MSpecRecv
CONSTANTS
  W = 3
  MaxId = 9
  Ids = {0,1,2,3,4,5,6,7,8,9}
INVARIANTS RWTypeOK VerdictTotal MinUnseenOk
PROPERTIES AtMostOnce IssuedOnce
CHECK_DEADLOCK FALSE

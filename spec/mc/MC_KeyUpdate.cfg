SPECIFICATION KSpec
CONSTANTS
  ConfLimit = 3
  Window = 1
  IntegrityLimit = 2
  MaxPn = 4
  FixF2 = TRUE
INVARIANTS KTypeOK UsageWithinLimit GenMonotoneInPn IntegrityClose ActiveNeverOlder UpdateBeforeLimit GenuineDecrypts
VIEW MCView
CHECK_DEADLOCK FALSE

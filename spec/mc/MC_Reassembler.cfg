SPECIFICATION MSpec
CONSTANTS
  MaxOffset = 7
  Offsets = {0,1,2,3,4,5}
  Lens = {0,1,2,3}
  Marks = {0,1,2,9}
  Skips = {0,1,2,3}
INVARIANTS RTypeOK HandedInOrderOnce HandedWasWritten ConsumedExactly NothingLost NothingInvented ContiguousOnly
PROPERTY FinalStable
CHECK_DEADLOCK FALSE

--------------------------- MODULE MC_ReplayWindow ---------------------------
(* Exhaustive check of the replay window and the sender counter on a scaled domain, with the
   property stated on the full history (set of all ids ever accepted / issued). *)
EXTENDS ReplayWindow, TLC
CONSTANT Ids
VARIABLES okd,       \* ghost: every id ever accepted
          hi,        \* ghost: highest id ever accepted (None before)
          current, issued
INSTANCE KeyIdSender
mvars == <<rwvars, okd, hi, current, issued>>
MInit == RWInit /\ okd = {} /\ hi = None /\ KInit /\ issued = {}
MReceive == \E id \in Ids, res \in {"ok", "exists", "unknown"} :
   /\ Receive(id, res)
   \* the property's iff, on the full history
   /\ (res = "ok") <=> (id # MaxId /\ id \notin okd /\ (hi = None \/ id > hi \/ hi - id < W))
   /\ okd' = IF res = "ok" THEN okd \cup {id} ELSE okd
   /\ hi' = IF res = "ok" /\ (hi = None \/ id > hi) THEN id ELSE hi
   /\ UNCHANGED <<current, issued>>
MNextId == \E id \in Ids : Next(id) /\ issued' = issued \cup {id} /\ UNCHANGED <<rwvars, okd, hi>>
MStale == \E m \in Ids : StaleKey(m) /\ UNCHANGED <<rwvars, okd, hi, issued>>
MNext == MReceive \/ MNextId \/ MStale
MSpec == MInit /\ [][MNext]_mvars
MSpecRecv == MInit /\ [][MReceive]_mvars
MSpecSend == MInit /\ [][MNextId \/ MStale]_mvars
\* an id accepted twice would make MReceive's iff false and disable the step: detect as "no verdict possible"
VerdictTotal == \A id \in Ids : \E res \in {"ok", "exists", "unknown"} :
   res = Verdict(id) /\ ((res = "ok") <=> (id # MaxId /\ id \notin okd /\ (hi = None \/ id > hi \/ hi - id < W)))
AtMostOnce == [][\A id \in Ids : (id \in okd' /\ id \notin okd) => Verdict(id) = "ok"]_mvars
IssuedOnce == [][\A id \in Ids : Next(id) => id \notin issued]_<<current, issued>>
MinUnseenOk == MinUnseen = (IF hi = None THEN 0 ELSE hi + 1)
=============================================================================

SPECIFICATION FSpec
CONSTANTS
  Streams = {1, 2}
  MaxVal = 4
  PacketCap = 2
  FixF3 = FALSE
INVARIANTS SentWithinStream SentWithinConn ResetWithinStream ResetNotBelowSent CreditLedger
CHECK_DEADLOCK FALSE

-------------------------------- MODULE Big --------------------------------
(* Unsigned 64-bit numbers as 8 big-endian byte limbs (TLC integers are 32 bit, QUIC values reach
   2^62).  Only what the wire specifications need: comparison, conversion from small naturals,
   increments/decrements, and byte-level access. *)
EXTENDS Naturals, Sequences

Byte == 0..255
IsBig(a) == Len(a) = 8 /\ \A i \in 1..8 : a[i] \in Byte

BigZero == <<0, 0, 0, 0, 0, 0, 0, 0>>
\* n < 2^31
BigOfNat(n) == <<0, 0, 0, 0, (n \div 16777216) % 256, (n \div 65536) % 256, (n \div 256) % 256, n % 256>>
\* 2^k for k < 64
Pow2(k) == [i \in 1..8 |-> IF i = 8 - (k \div 8) THEN 2 ^ (k % 8) ELSE 0]

RECURSIVE BigCmpFrom(_, _, _)
BigCmpFrom(a, b, i) == IF i > 8 THEN 0 ELSE IF a[i] < b[i] THEN 0 - 1 ELSE IF a[i] > b[i] THEN 1 ELSE BigCmpFrom(a, b, i + 1)
BigLt(a, b) == BigCmpFrom(a, b, 1) = 0 - 1
BigLe(a, b) == BigCmpFrom(a, b, 1) <= 0
BigEq(a, b) == a = b

\* a + 1 (wraps at 2^64)
RECURSIVE BigIncFrom(_, _)
BigIncFrom(a, i) == IF i = 0 THEN a ELSE IF a[i] < 255 THEN [a EXCEPT ![i] = @ + 1] ELSE BigIncFrom([a EXCEPT ![i] = 0], i - 1)
BigInc(a) == BigIncFrom(a, 8)
\* a - 1 (a > 0)
RECURSIVE BigDecFrom(_, _)
BigDecFrom(a, i) == IF i = 0 THEN a ELSE IF a[i] > 0 THEN [a EXCEPT ![i] = @ - 1] ELSE BigDecFrom([a EXCEPT ![i] = 255], i - 1)
BigDec(a) == BigDecFrom(a, 8)

\* small value back to a natural (only if it fits 2^31)
BigFitsNat(a) == a[1] = 0 /\ a[2] = 0 /\ a[3] = 0 /\ a[4] = 0 /\ a[5] < 128
BigToNat(a) == ((a[5] * 256 + a[6]) * 256 + a[7]) * 256 + a[8]
=============================================================================

-------------------------- MODULE IntervalSets --------------------------
(* Reference model of a set of natural numbers kept as a set of disjoint,
   non-adjacent, non-empty half-open intervals <<lo, hi>> == [lo, hi).
   Used as the independent reference for s2n_quic_core::interval_set::IntervalSet,
   ack::Ranges (capacity bounded), the reassembly buffer and the ACK/processed ledgers. *)
EXTENDS Naturals, FiniteSets, Sequences

SetMin(S) == CHOOSE x \in S : \A y \in S : x <= y
SetMax(S) == CHOOSE x \in S : \A y \in S : x >= y
Max2(a, b) == IF a >= b THEN a ELSE b
Min2(a, b) == IF a <= b THEN a ELSE b

IsIvSet(S) ==
  /\ \A iv \in S : iv[1] < iv[2]
  /\ \A a, b \in S : a # b => (a[2] < b[1] \/ b[2] < a[1])

IvEmpty == {}

IvContains(S, x) == \E iv \in S : iv[1] <= x /\ x < iv[2]

IvCovers(S, lo, hi) == lo >= hi \/ \E iv \in S : iv[1] <= lo /\ hi <= iv[2]

\* intervals that overlap or are adjacent to [lo,hi)
IvTouching(S, lo, hi) == {iv \in S : iv[1] <= hi /\ lo <= iv[2]}
\* intervals that strictly overlap [lo,hi)
IvOverlapping(S, lo, hi) == {iv \in S : iv[1] < hi /\ lo < iv[2]}

IvInsert(S, lo, hi) ==
  IF lo >= hi THEN S
  ELSE LET T == IvTouching(S, lo, hi)
           nlo == SetMin({lo} \cup {iv[1] : iv \in T})
           nhi == SetMax({hi} \cup {iv[2] : iv \in T})
       IN (S \ T) \cup {<<nlo, nhi>>}

IvRemove(S, lo, hi) ==
  IF lo >= hi THEN S
  ELSE LET T == IvOverlapping(S, lo, hi)
           left  == {<<iv[1], lo>> : iv \in {v \in T : v[1] < lo}}
           right == {<<hi, iv[2]>> : iv \in {v \in T : v[2] > hi}}
       IN (S \ T) \cup left \cup right

\* remove everything below x
IvRemoveBelow(S, x) ==
  {iv \in S : iv[1] >= x} \cup {<<x, iv[2]>> : iv \in {v \in S : v[1] < x /\ v[2] > x}}

IvCount(S) == Cardinality(S)
IvIsEmpty(S) == S = {}
IvMinValue(S) == SetMin({iv[1] : iv \in S})
IvMaxValue(S) == SetMax({iv[2] : iv \in S}) - 1   \* largest member
IvMinInterval(S) == CHOOSE iv \in S : \A o \in S : iv[1] <= o[1]
IvMaxInterval(S) == CHOOSE iv \in S : \A o \in S : iv[1] >= o[1]

\* number of members
RECURSIVE IvLenRec(_)
IvLenRec(S) == IF S = {} THEN 0 ELSE LET iv == CHOOSE v \in S : TRUE IN (iv[2] - iv[1]) + IvLenRec(S \ {iv})
IvLen(S) == IvLenRec(S)

\* length of the run starting exactly at x (0 if x is not a member)
IvRunFrom(S, x) == IF \E iv \in S : iv[1] <= x /\ x < iv[2]
                   THEN (CHOOSE iv \in S : iv[1] <= x /\ x < iv[2])[2] - x ELSE 0

\* the explicit member set (small scopes only)
IvMembers(S) == UNION {iv[1]..(iv[2]-1) : iv \in S}
\* build from an explicit set of naturals (small scopes only)
IvFromSet(M) == {<<lo, hi>> \in (M \X {m + 1 : m \in M}) :
                   /\ lo < hi
                   /\ \A x \in lo..(hi-1) : x \in M
                   /\ (lo = 0 \/ (lo - 1) \notin M)
                   /\ hi \notin M}

IvIntersection(A, B) ==
  {<<Max2(a[1], b[1]), Min2(a[2], b[2])>> : <<a, b>> \in {p \in A \X B : Max2(p[1][1], p[2][1]) < Min2(p[1][2], p[2][2])}}

RECURSIVE IvUnionRec(_, _)
IvUnionRec(A, B) == IF B = {} THEN A ELSE LET iv == CHOOSE v \in B : TRUE IN IvUnionRec(IvInsert(A, iv[1], iv[2]), B \ {iv})
IvUnion(A, B) == IvUnionRec(A, B)

RECURSIVE IvDifferenceRec(_, _)
IvDifferenceRec(A, B) == IF B = {} THEN A ELSE LET iv == CHOOSE v \in B : TRUE IN IvDifferenceRec(IvRemove(A, iv[1], iv[2]), B \ {iv})
IvDifference(A, B) == IvDifferenceRec(A, B)

IvSubset(A, B) == \A a \in A : IvCovers(B, a[1], a[2])

\* sorted sequence of the intervals (ascending), for comparison with logged lists
RECURSIVE IvToSeqRec(_)
IvToSeqRec(S) == IF S = {} THEN <<>> ELSE LET iv == IvMinInterval(S) IN <<iv>> \o IvToSeqRec(S \ {iv})
IvToSeq(S) == IvToSeqRec(S)
=============================================================================

-------------------------------- MODULE Wire --------------------------------
(* Independent reference for the RFC 9000 section 16 variable-length integer encoding over byte
   sequences, used by the transport-parameter and frame specifications. *)
EXTENDS Big

VarIntMax == <<63, 255, 255, 255, 255, 255, 255, 255>>     \* 2^62 - 1
\* shortest width (in bytes) that can hold v; 0 if v > 2^62-1
MinWidth(v) == IF BigLt(v, Pow2(6)) THEN 1 ELSE IF BigLt(v, Pow2(14)) THEN 2 ELSE IF BigLt(v, Pow2(30)) THEN 4
               ELSE IF BigLe(v, VarIntMax) THEN 8 ELSE 0
WidthCode(w) == CASE w = 1 -> 0 [] w = 2 -> 64 [] w = 4 -> 128 [] w = 8 -> 192
\* encoding of v in exactly w bytes (w >= MinWidth(v))
VarIntEncodeW(v, w) == [i \in 1..w |-> IF i = 1 THEN v[8 - w + 1] + WidthCode(w) ELSE v[8 - w + i]]
VarIntEncode(v) == VarIntEncodeW(v, MinWidth(v))

\* decoding: [ok, val, len]
VarIntDecode(bytes) ==
  IF Len(bytes) = 0 THEN [ok |-> FALSE, val |-> BigZero, len |-> 0]
  ELSE LET w == 2 ^ (bytes[1] \div 64) IN
       IF Len(bytes) < w THEN [ok |-> FALSE, val |-> BigZero, len |-> 0]
       ELSE [ok |-> TRUE, len |-> w,
             val |-> [i \in 1..8 |-> IF i <= 8 - w THEN 0 ELSE IF i = 8 - w + 1 THEN bytes[1] % 64 ELSE bytes[i - (8 - w)]]]

Drop(s, n) == SubSeq(s, n + 1, Len(s))
Take(s, n) == SubSeq(s, 1, n)
=============================================================================

----------------------------- MODULE TraceLib -----------------------------
(* Access to an ndjson trace recorded from the implementation and the acceptance criterion.
   The file name comes from the environment variable TRACE.  Every trace-validation module
   consumes exactly one line per step (variable l is the position of the next line), so the
   diameter of the explored graph tells how many lines some behaviour of the specification
   explains; acceptance = all of them. *)
EXTENDS Json, IOUtils, TLC, TLCExt, Sequences, Naturals

Rec == ndJsonDeserialize(IOEnv.TRACE)
NRec == Len(Rec)

Has(r, f) == f \in DOMAIN r

\* POSTCONDITION: every line was matched.  On rejection print the first unmatched line.
TraceAccepted ==
  LET d == TLCGet("stats").diameter IN
  IF d - 1 = NRec THEN TRUE
  ELSE /\ PrintT(<<"TRACE-REJECTED", "matched", d - 1, "of", NRec>>)
       /\ PrintT(<<"FIRST-UNMATCHED", d, IF d <= NRec THEN ToJson(Rec[d]) ELSE "none">>)
       /\ FALSE
=============================================================================

----------------------------- MODULE EndpointTx -----------------------------
(* What one endpoint may put on the wire, as RFC 9000 sees it (sections 2.1, 3, 4, 10.2, 19.4,
   19.8).  The specification does not say which frame goes into which packet; it forbids every
   observable violation:
     C03  sent stream data / final sizes / stream numbers stay within the credit RECEIVED so far
          (transport parameters of the peer, MAX_STREAM_DATA, MAX_DATA, MAX_STREAMS processed);
     C12  per stream the bytes sent are the bytes of that offset, nothing at or beyond an announced
          final size, the final size never changes and is never below data already sent, nothing
          after RESET_STREAM; after CONNECTION_CLOSE only copies of the close datagram, and those
          only in response to incoming datagrams.
   Endpoints are "c" (client) and "s" (server); stream ids follow RFC 9000 2.1. *)
EXTENDS Naturals, FiniteSets, Sequences, IntervalSets

CONSTANTS MaxStreamId
Ep == {"c", "s"}
Other(e) == IF e = "c" THEN "s" ELSE "c"
Sids == 0..MaxStreamId
None == 0 - 1

Initiator(sid) == IF sid % 2 = 0 THEN "c" ELSE "s"
IsBidi(sid) == (sid % 4) < 2
Ordinal(sid) == sid \div 4
CanSend(e, sid) == IsBidi(sid) \/ Initiator(sid) = e

VARIABLES
  limSD,      \* [Ep -> [Sids -> Nat]]   largest stream-data limit the endpoint has received per stream
  limD,       \* [Ep -> Nat]             largest connection data limit received
  limStreams, \* [Ep -> [BOOLEAN -> Nat]] largest cumulative stream limit received (TRUE = bidi)
  sent,       \* [Ep -> [Sids -> interval set]] offsets sent so far
  sentEnd,    \* [Ep -> [Sids -> Nat]]   largest end offset sent
  final,      \* [Ep -> [Sids -> Nat \cup {None}]] announced final size
  wasReset,   \* [Ep -> [Sids -> BOOLEAN]] RESET_STREAM sent
  closing,    \* [Ep -> record]          close state: [on, hash, sentCopies, rxAfter]
  opened      \* [Ep -> [BOOLEAN -> Nat]] number of streams opened by the application per type

evars == <<limSD, limD, limStreams, sent, sentEnd, final, wasReset, closing, opened>>

\* initial stream-data limit for data that endpoint e sends on stream sid, from the peer's parameters p
InitialSD(e, sid, p) ==
  IF ~IsBidi(sid) THEN p.sd_uni
  ELSE IF Initiator(sid) = e THEN p.sd_bidi_remote   \* the peer sees a remotely initiated stream
  ELSE p.sd_bidi_local

\* lim[e] are the limits announced by e's PEER in its transport parameters
EState(lim) ==
  [ limSD |-> [e \in Ep |-> [s \in Sids |-> InitialSD(e, s, lim[e])]],
    limD |-> [e \in Ep |-> lim[e].data_window],
    limStreams |-> [e \in Ep |-> [b \in BOOLEAN |-> IF b THEN lim[e].streams_bidi ELSE lim[e].streams_uni]],
    sent |-> [e \in Ep |-> [s \in Sids |-> {}]],
    sentEnd |-> [e \in Ep |-> [s \in Sids |-> 0]],
    final |-> [e \in Ep |-> [s \in Sids |-> None]],
    wasReset |-> [e \in Ep |-> [s \in Sids |-> FALSE]],
    closing |-> [e \in Ep |-> [on |-> FALSE, hash |-> None, copies |-> 0, rxAfter |-> 0, draining |-> FALSE, afterDrain |-> 0]],
    opened |-> [e \in Ep |-> [b \in BOOLEAN |-> 0]] ]
EInit(lim) == LET st == EState(lim) IN
  /\ limSD = st.limSD /\ limD = st.limD /\ limStreams = st.limStreams /\ sent = st.sent /\ sentEnd = st.sentEnd
  /\ final = st.final /\ wasReset = st.wasReset /\ closing = st.closing /\ opened = st.opened
\* a new connection (runs are concatenated in one trace)
EReset(lim) == LET st == EState(lim) IN
  /\ limSD' = st.limSD /\ limD' = st.limD /\ limStreams' = st.limStreams /\ sent' = st.sent /\ sentEnd' = st.sentEnd
  /\ final' = st.final /\ wasReset' = st.wasReset /\ closing' = st.closing /\ opened' = st.opened

\* connection-level usage if stream sid reaches `end`
RECURSIVE SumEnds(_, _)
SumEnds(f, S) == IF S = {} THEN 0 ELSE LET s == CHOOSE x \in S : TRUE IN f[s] + SumEnds(f, S \ {s})
Usage(e, sid, end) == SumEnds([s \in Sids |-> IF s = sid THEN Max2(end, sentEnd[e][s]) ELSE sentEnd[e][s]], {s \in Sids : sentEnd[e][s] > 0 \/ s = sid})

WithinCredit(e, sid, end) ==
  /\ end <= limSD[e][sid]
  /\ Usage(e, sid, end) <= limD[e]
  /\ Initiator(sid) = e => Ordinal(sid) < limStreams[e][IsBidi(sid)]

\* ---- credit received (frames processed by e) ----
RxMaxData(e, v) == limD' = [limD EXCEPT ![e] = Max2(@, v)] /\ UNCHANGED <<limSD, limStreams, sent, sentEnd, final, wasReset, closing, opened>>
RxMaxStreamData(e, sid, v) == limSD' = [limSD EXCEPT ![e][sid] = Max2(@, v)] /\ UNCHANGED <<limD, limStreams, sent, sentEnd, final, wasReset, closing, opened>>
RxMaxStreams(e, bidi, v) == limStreams' = [limStreams EXCEPT ![e][bidi] = Max2(@, v)] /\ UNCHANGED <<limSD, limD, sent, sentEnd, final, wasReset, closing, opened>>

\* ---- frames sent by e ----
TxStream(e, sid, off, len, fin, contentOk) ==
  LET end == off + len IN
  /\ ~closing[e].on
  /\ CanSend(e, sid)
  /\ contentOk                                    \* the bytes are the bytes of these offsets (first transmission or retransmission)
  /\ ~wasReset[e][sid]                            \* nothing after RESET_STREAM
  /\ WithinCredit(e, sid, end)
  /\ final[e][sid] # None => end <= final[e][sid]
  /\ fin => /\ final[e][sid] \in {None, end}      \* the final size never changes ...
            /\ end >= sentEnd[e][sid]             \* ... and is not below data already sent
  /\ sent' = [sent EXCEPT ![e][sid] = IvInsert(@, off, end)]
  /\ sentEnd' = [sentEnd EXCEPT ![e][sid] = Max2(@, end)]
  /\ final' = IF fin THEN [final EXCEPT ![e][sid] = end] ELSE final
  /\ UNCHANGED <<limSD, limD, limStreams, wasReset, closing, opened>>

TxResetStream(e, sid, finalSize) ==
  /\ ~closing[e].on
  /\ CanSend(e, sid)
  /\ finalSize >= sentEnd[e][sid]
  /\ final[e][sid] \in {None, finalSize}
  /\ WithinCredit(e, sid, finalSize)
  /\ wasReset' = [wasReset EXCEPT ![e][sid] = TRUE]
  /\ final' = [final EXCEPT ![e][sid] = finalSize]
  /\ sentEnd' = [sentEnd EXCEPT ![e][sid] = Max2(@, finalSize)]   \* the final size counts against connection credit
  /\ UNCHANGED <<limSD, limD, limStreams, sent, closing, opened>>

TxStreamDataBlocked(e, sid, v) ==
  /\ ~closing[e].on /\ CanSend(e, sid) /\ ~wasReset[e][sid]
  /\ v <= limSD[e][sid]                           \* it reports a limit the sender was blocked at (possibly a stale, retransmitted one)
  /\ UNCHANGED evars

\* any other frame before closing
TxOther(e) == ~closing[e].on /\ UNCHANGED evars

\* ---- closing (RFC 9000 10.2) ----
TxConnectionClose(e) ==       \* the first CONNECTION_CLOSE (further close frames of the same flight allowed)
  /\ closing' = [closing EXCEPT ![e].on = TRUE]
  /\ UNCHANGED <<limSD, limD, limStreams, sent, sentEnd, final, wasReset, opened>>
\* a datagram leaves the closing endpoint
\* RFC 9000 10.2.2: after RECEIVING a CONNECTION_CLOSE an endpoint is draining; it may send one last
\* datagram (a close of its own) and nothing afterwards
RxConnectionClose(e) ==
  /\ closing' = [closing EXCEPT ![e].draining = TRUE]
  /\ UNCHANGED <<limSD, limD, limStreams, sent, sentEnd, final, wasReset, opened>>
TxDatagramWhileDraining(e) ==
  /\ closing[e].draining /\ closing[e].afterDrain < 1
  /\ closing' = [closing EXCEPT ![e].afterDrain = @ + 1]
  /\ UNCHANGED <<limSD, limD, limStreams, sent, sentEnd, final, wasReset, opened>>
TxDatagramWhileClosing(e, hash) ==
  /\ closing[e].on /\ ~closing[e].draining
  /\ \/ closing[e].hash = None /\ closing' = [closing EXCEPT ![e].hash = hash, ![e].copies = 1]
     \/ /\ closing[e].hash = hash                               \* byte-identical copy of the close datagram
        /\ closing[e].copies < 1 + closing[e].rxAfter           \* and only in response to something received
        /\ closing' = [closing EXCEPT ![e].copies = @ + 1]
  /\ UNCHANGED <<limSD, limD, limStreams, sent, sentEnd, final, wasReset, opened>>
RxDatagram(e) ==
  /\ closing' = IF closing[e].on THEN [closing EXCEPT ![e].rxAfter = @ + 1] ELSE closing
  /\ UNCHANGED <<limSD, limD, limStreams, sent, sentEnd, final, wasReset, opened>>

\* ---- application opens a stream: ids of a type increase by one ordinal, never reused ----
AppOpen(e, sid) ==
  /\ Initiator(sid) = e
  /\ Ordinal(sid) = opened[e][IsBidi(sid)]
  /\ opened' = [opened EXCEPT ![e][IsBidi(sid)] = @ + 1]
  /\ UNCHANGED <<limSD, limD, limStreams, sent, sentEnd, final, wasReset, closing>>

ETypeOK == \A e \in Ep, s \in Sids : IsIvSet(sent[e][s]) /\ (final[e][s] # None => sentEnd[e][s] <= final[e][s])
=============================================================================

------------------------------- MODULE Packets -------------------------------
(* RFC 9000 section 17 packet headers (as far as they are readable before header protection is removed) and the
   packet number algorithms of appendix A.2 / A.3, as reference functions over byte sequences / integers.
   ParsePacket(b, n): the first packet of a datagram b, n = length of the connection ids this endpoint issues
   (short headers carry no length).  Result [ok |-> FALSE] or [ok, ty, f (sequence of byte strings), len (bytes the
   packet occupies; what follows is the next coalesced packet)].
   Deliberate readings, named:
     - Initial packets: connection ids longer than 20 bytes are READ (RFC 9000 17.2: servers SHOULD be able to read
       longer connection IDs from other versions to form a Version Negotiation packet); the version-1 limit is applied
       after version negotiation, outside the codec;
     - first byte 0x80..0xbf (long form, fixed bit clear) is accepted only as Version Negotiation (version 0). *)
EXTENDS Frames

U8Prefixed(b, p, max) ==      \* one-byte length, then that many bytes: [ok, off, n, p]
  IF p > Len(b) THEN Bad
  ELSE IF b[p] > max \/ p + b[p] > Len(b) THEN Bad
  ELSE [ok |-> TRUE, off |-> p + 1, n |-> b[p], p |-> p + 1 + b[p]]

VersionNegotiation(b) ==
  LET d == U8Prefixed(b, 6, 20) IN
  IF ~d.ok THEN Bad
  ELSE LET s == U8Prefixed(b, d.p, 20) IN
       IF ~s.ok THEN Bad
       ELSE LET rest == Len(b) - s.p + 1 IN
            IF rest < 4 \/ rest % 4 # 0 THEN Bad
            ELSE [ok |-> TRUE, ty |-> "version_negotiation", f |-> <<Bytes(b, d.off, d.n), Bytes(b, s.off, s.n), <<rest \div 4>>>>, len |-> Len(b)]

LongWithLength(name, b, cidMax, hasToken) ==
  LET d == U8Prefixed(b, 6, cidMax) IN
  IF ~d.ok THEN Bad
  ELSE LET s == U8Prefixed(b, d.p, cidMax) IN
       IF ~s.ok THEN Bad
       ELSE LET t == IF hasToken THEN LenPrefixed(b, s.p) ELSE [ok |-> TRUE, off |-> s.p, n |-> 0, p |-> s.p] IN
            IF ~t.ok THEN Bad
            ELSE LET pl == LenPrefixed(b, t.p) IN        \* Length: packet number + payload, must be present in full
                 IF ~pl.ok THEN Bad
                 ELSE [ok |-> TRUE, ty |-> name,
                       f |-> <<Bytes(b, 2, 4), Bytes(b, d.off, d.n), Bytes(b, s.off, s.n)>> \o (IF hasToken THEN <<Bytes(b, t.off, t.n)>> ELSE <<>>),
                       len |-> pl.p - 1]

Retry(b) ==
  LET d == U8Prefixed(b, 6, 20) IN
  IF ~d.ok THEN Bad
  ELSE LET s == U8Prefixed(b, d.p, 20) IN
       IF ~s.ok THEN Bad
       ELSE LET rest == Len(b) - s.p + 1 IN          \* token (at least one byte) and the 16-byte integrity tag
            IF rest < 17 THEN Bad
            ELSE [ok |-> TRUE, ty |-> "retry", f |-> <<Bytes(b, 2, 4), Bytes(b, d.off, d.n), Bytes(b, s.off, s.n), Bytes(b, s.p, rest - 16), Bytes(b, Len(b) - 15, 16)>>,
                  len |-> Len(b)]

ParsePacket(b, n) ==
  IF Len(b) = 0 THEN Bad ELSE
  LET form == b[1] \div 16 IN
  IF form \in 4..7 THEN            \* short header, fixed bit set
       IF n > 20 \/ Len(b) - 1 < n THEN Bad ELSE [ok |-> TRUE, ty |-> "short", f |-> <<Bytes(b, 2, n)>>, len |-> Len(b)]
  ELSE IF form < 4 THEN Bad        \* short form without the fixed bit
  ELSE IF Len(b) < 5 THEN Bad
  ELSE LET zero == b[2] = 0 /\ b[3] = 0 /\ b[4] = 0 /\ b[5] = 0 IN
       IF zero THEN VersionNegotiation(b)
       ELSE CASE form = 12 -> LongWithLength("initial", b, 255, TRUE)
              [] form = 13 -> LongWithLength("zero_rtt", b, 20, FALSE)
              [] form = 14 -> LongWithLength("handshake", b, 20, FALSE)
              [] form = 15 -> Retry(b)
              [] OTHER -> Bad

\* --- packet numbers (appendix A) ---------------------------------------------------------------------------------
\* A.3 in coordinates shifted by a multiple of the window: `low` says the real coordinates start at 0 (the candidate >= window
\* guard matters), `top` is the image of 2^62 (None: far away)
PnDecodeG(largest, trunc, bits, low, top) ==
  LET expected == largest + 1
      win == 2 ^ bits
      hwin == win \div 2
      cand == expected - (expected % win) + trunc IN
  IF (low => expected >= hwin) /\ cand + hwin <= expected /\ (top = 0 - 1 \/ cand < top - win) THEN cand + win
  ELSE IF cand > expected + hwin /\ (low => cand >= win) THEN cand - win
  ELSE cand
PnDecode(largest, trunc, bits) == PnDecodeG(largest, trunc, bits, TRUE, 0 - 1)
\* A.2: the smallest number of bytes whose range is more than twice the distance to the largest acknowledged packet
PnLen(pn, largestAcked) ==       \* largestAcked = -1: none
  LET unacked == IF largestAcked < 0 THEN pn + 1 ELSE pn - largestAcked IN
  IF 2 * unacked < 256 THEN 1 ELSE IF 2 * unacked < 65536 THEN 2 ELSE IF 2 * unacked < 16777216 THEN 3 ELSE 4
=============================================================================

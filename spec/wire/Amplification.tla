---------------------------- MODULE Amplification ----------------------------
(* RFC 9000 8.1 / 10.3 / 6 / 14.1 at the network boundary of a server and a client:
     - until a server connection has processed a Handshake packet from the client (address validated), it never
       STARTS a datagram once the bytes it has sent reach three times the bytes it has received (all packet
       types: handshake data, retransmissions, probes, CONNECTION_CLOSE);
     - a stateless reset is strictly smaller than a datagram that triggered it, Version Negotiation answers only
       datagrams of at least 1200 bytes and never a Version Negotiation packet;
     - every client datagram that carries an Initial packet is at least 1200 bytes. *)
EXTENDS Naturals, FiniteSets, Sequences, TLC
CONSTANTS KnownF4, KnownF10
None == 0 - 1
VARIABLES
  rcvd, sentB, valid,   \* per server connection id: bytes received / sent, address validated
  triggers,             \* bag (sequence) of [len, vn] : datagrams the server could not route, not yet answered
  pendingKind,          \* FIFO of datagrams the server has handed to its socket and the network has not shown yet:
                        \* [kind |-> "conn" | "sr" | "vn" | "retry", len |-> bytes (connection datagrams) ]
  answered,             \* number of endpoint-level replies sent so far
  clientInitial,        \* the client has written an Initial packet into the datagram being built
  addrRcvd, addrSent,   \* primary server connection, per client address: bytes received from / sent to it
  addrCredit,           \* the implementation's own counter per address: +3n on receipt, -n (not below 0) on transmission
  addrValid,            \* addresses the primary server connection has validated (Handshake packet or PATH_RESPONSE from there)
  lastAddr,             \* source address of the datagram the server received last
  eligible,             \* datagrams the network has accepted towards the server (copies and forged ones included)
  retries               \* Retry datagrams that have left the server
avars == <<rcvd, sentB, valid, triggers, pendingKind, clientInitial, answered, eligible, retries, addrRcvd, addrSent, addrValid, lastAddr, addrCredit>>
pvars == <<addrRcvd, addrSent, addrValid, lastAddr, addrCredit>>
AInit == rcvd = <<>> /\ sentB = <<>> /\ valid = {} /\ triggers = <<>> /\ pendingKind = <<>> /\ clientInitial = FALSE /\ answered = 0 /\ eligible = 0 /\ retries = 0 /\ addrRcvd = <<>> /\ addrSent = <<>> /\ addrValid = {} /\ lastAddr = "none" /\ addrCredit = <<>>
AReset == rcvd' = <<>> /\ sentB' = <<>> /\ valid' = {} /\ triggers' = <<>> /\ pendingKind' = <<>> /\ clientInitial' = FALSE /\ answered' = 0 /\ eligible' = 0 /\ retries' = 0 /\ addrRcvd' = <<>> /\ addrSent' = <<>> /\ addrValid' = {} /\ lastAddr' = "none" /\ addrCredit' = <<>>
Get(f, k) == IF k \in DOMAIN f THEN f[k] ELSE 0
Put(f, k, v) == [x \in DOMAIN f \cup {k} |-> IF x = k THEN v ELSE f[x]]

ServerRx(conn, len) == /\ rcvd' = Put(rcvd, conn, Get(rcvd, conn) + len)
                       /\ addrRcvd' = (IF conn = 0 THEN Put(addrRcvd, lastAddr, Get(addrRcvd, lastAddr) + len) ELSE addrRcvd)
                       /\ addrCredit' = (IF conn = 0 THEN Put(addrCredit, lastAddr, Get(addrCredit, lastAddr) + 3 * len) ELSE addrCredit)
                       /\ UNCHANGED <<sentB, valid, triggers, pendingKind, clientInitial, answered, eligible, retries, addrSent, addrValid, lastAddr>>
ServerValidated(conn) == /\ valid' = valid \cup {conn}
                         /\ addrValid' = (IF conn = 0 THEN addrValid \cup {lastAddr} ELSE addrValid)
                         /\ UNCHANGED <<rcvd, sentB, triggers, pendingKind, clientInitial, answered, eligible, retries, addrRcvd, addrSent, lastAddr, addrCredit>>
\* a PATH_RESPONSE arrived from the address the server received from last: that address is validated (RFC 9000 8.2.3)
PathValidated == addrValid' = addrValid \cup {lastAddr}
                 /\ UNCHANGED <<rcvd, sentB, valid, triggers, pendingKind, clientInitial, answered, eligible, retries, addrRcvd, addrSent, lastAddr, addrCredit>>
ServerSaw(addr) == lastAddr' = addr
                   /\ UNCHANGED <<rcvd, sentB, valid, triggers, pendingKind, clientInitial, answered, eligible, retries, addrRcvd, addrSent, addrValid, addrCredit>>
\* the server starts a datagram of a connection
ServerTx(conn, len) ==
  /\ conn \in valid \/ Get(sentB, conn) < 3 * Get(rcvd, conn)
  /\ sentB' = Put(sentB, conn, Get(sentB, conn) + len)
  /\ pendingKind' = Append(pendingKind, [kind |-> "conn", len |-> len, conn |-> conn])
  /\ UNCHANGED <<rcvd, valid, triggers, clientInitial, answered, eligible, retries, pvars>>

\* a datagram reached the server but belongs to no connection
Unroutable(len, isVn) == triggers' = Append(triggers, [len |-> len, vn |-> isVn]) /\ UNCHANGED <<rcvd, sentB, valid, pendingKind, clientInitial, answered, eligible, retries, pvars>>
Announce(kind) == pendingKind' = Append(pendingKind, [kind |-> kind, len |-> 0, conn |-> 0 - 1]) /\ UNCHANGED <<rcvd, sentB, valid, triggers, clientInitial, answered, eligible, retries, pvars>>
Remove(s, i) == [j \in 1..(Len(s) - 1) |-> IF j < i THEN s[j] ELSE s[j + 1]]
\* the datagram of an endpoint-level reply leaves the server
\* a datagram leaves the server: it is the oldest one handed to the socket
\* RFC 9000 8.1 / 9.3: the same limit holds for EVERY address of the peer - after a migration or an apparent migration the
\* new address is unvalidated until a PATH_RESPONSE (or a Handshake packet) has come from it
AddressBudget(h, dst, len) ==
  IF h.kind = "conn" /\ h.conn = 0
  THEN /\ \/ dst \in addrValid
          \/ Get(addrSent, dst) < 3 * Get(addrRcvd, dst)
          \* known finding F10 (named): the implementation keeps a saturating allowance, so the bytes by which a datagram
          \* overshot it are forgotten and a few bytes received afterwards re-open the address although the total sent
          \* there has long reached three times the total received
          \/ (KnownF10 /\ Get(addrCredit, dst) > 0 /\ PrintT(<<"KNOWN-FINDING", "F10">>))
       /\ addrSent' = Put(addrSent, dst, Get(addrSent, dst) + len)
       /\ addrCredit' = Put(addrCredit, dst, IF Get(addrCredit, dst) > len THEN Get(addrCredit, dst) - len ELSE 0)
  ELSE addrSent' = addrSent /\ addrCredit' = addrCredit
ServerDatagram(len, dst) ==
  /\ Len(pendingKind) > 0
  /\ AddressBudget(Head(pendingKind), dst, len)
  /\ UNCHANGED <<addrRcvd, addrValid, lastAddr>>
  /\ LET h == Head(pendingKind) IN
     IF h.kind = "conn" THEN h.len = len /\ triggers' = triggers /\ retries' = retries
     ELSE IF h.kind = "retry" THEN
          \* RFC 9000 17.2.5.1: at most one Retry per datagram that reached the server.  (The implementation also answers
          \* Initial datagrams below 1200 bytes with a Retry - the 14.1 size check comes after the limiter; the property
          \* bounds what is STARTED, and nothing has been sent to that address before, so this is noted, not rejected.)
          /\ retries < eligible /\ len < 1200
          /\ retries' = retries + 1 /\ triggers' = triggers
     ELSE \* some unroutable datagram received before explains the reply, and there are never more replies than triggers
          \* (the pairing itself is not fixed, which keeps the check deterministic)
          /\ (\E i \in 1..Len(triggers) :
                CASE h.kind = "sr" -> len < triggers[i].len                       \* strictly smaller than its trigger
                  [] h.kind = "vn" -> triggers[i].len >= 1200 /\ ~triggers[i].vn   \* only for full-size datagrams, never for VN
                  [] OTHER -> TRUE) = TRUE
          /\ answered < Len(triggers)
          /\ triggers' = triggers /\ retries' = retries
  /\ pendingKind' = Tail(pendingKind)
  /\ answered' = IF Head(pendingKind).kind \in {"conn", "retry"} THEN answered ELSE answered + 1
  /\ UNCHANGED <<rcvd, sentB, valid, clientInitial, eligible>>

ClientWroteInitial == clientInitial' = TRUE /\ UNCHANGED <<rcvd, sentB, valid, triggers, pendingKind, answered, eligible, retries, pvars>>
\* known finding F4 (named): a client CONNECTION_CLOSE datagram that still carries an Initial packet is not padded
ClientDatagram(len, closing, copies) ==
  /\ clientInitial => (len >= 1200 \/ (KnownF4 /\ closing /\ PrintT(<<"KNOWN-FINDING", "F4">>)))
  /\ clientInitial' = FALSE
  /\ eligible' = eligible + copies
  /\ UNCHANGED <<rcvd, sentB, valid, triggers, pendingKind, answered, retries, pvars>>
=============================================================================

------------------------------- MODULE ConnIds -------------------------------
(* RFC 9000 5.1.1 / 5.1.2 / 19.15 / 19.16 at the wire, per endpoint:
   NEW_CONNECTION_ID frames carry consecutive sequence numbers, pairwise distinct ids and stateless-reset
   tokens, retire_prior_to <= sequence number; the ids issued and not yet retired (by the peer, or requested to
   be retired through retire_prior_to) never exceed the peer's active_connection_id_limit;
   RETIRE_CONNECTION_ID is only sent for sequence numbers the peer issued. *)
EXTENDS Naturals, FiniteSets, Sequences, TLC
Ep == {"c", "s"}
VARIABLES issued,        \* [Ep -> function seq -> [cid, token]]  ids announced with NEW_CONNECTION_ID (seq 0 is the handshake id)
          retiredByPeer, \* [Ep -> set of seq]
          maxRpt,        \* [Ep -> Nat]
          limit,         \* [Ep -> Nat]  active_connection_id_limit of the PEER
          peerIssued     \* [Ep -> set of seq] sequence numbers the endpoint has seen the peer issue
cvars == <<issued, retiredByPeer, maxRpt, limit, peerIssued>>
CFresh == [ issued |-> [e \in Ep |-> <<>>], retiredByPeer |-> [e \in Ep |-> {}], maxRpt |-> [e \in Ep |-> 0],
            limit |-> [e \in Ep |-> 2], peerIssued |-> [e \in Ep |-> {0}] ]
CInit == issued = CFresh.issued /\ retiredByPeer = CFresh.retiredByPeer /\ maxRpt = CFresh.maxRpt /\ limit = CFresh.limit /\ peerIssued = CFresh.peerIssued
CReset == issued' = CFresh.issued /\ retiredByPeer' = CFresh.retiredByPeer /\ maxRpt' = CFresh.maxRpt /\ limit' = CFresh.limit /\ peerIssued' = CFresh.peerIssued
Put(f, k, v) == [x \in DOMAIN f \cup {k} |-> IF x = k THEN v ELSE f[x]]
Max2(a, b) == IF a >= b THEN a ELSE b
SetMax0(S) == IF S = {} THEN 0 ELSE CHOOSE x \in S : \A y \in S : x >= y

PeerLimit(e, n) == limit' = [limit EXCEPT ![e] = n] /\ UNCHANGED <<issued, retiredByPeer, maxRpt, peerIssued>>
ActiveCount(e, iss, rpt) == Cardinality({s \in (DOMAIN iss) \cup {0} : s >= rpt /\ s \notin retiredByPeer[e]})
TxNewConnectionId(e, seq, rpt, cid, token) ==
  /\ rpt <= seq                                                       \* never asks to retire ids beyond the one it issues
  /\ IF seq \in DOMAIN issued[e]
     THEN issued[e][seq] = [cid |-> cid, token |-> token]             \* a retransmission repeats the same id and token
     ELSE /\ seq = SetMax0(DOMAIN issued[e]) + 1                      \* consecutive sequence numbers
          /\ \A s \in DOMAIN issued[e] : issued[e][s].cid # cid /\ issued[e][s].token # token   \* pairwise distinct
  /\ LET iss == Put(issued[e], seq, [cid |-> cid, token |-> token])
         r == Max2(maxRpt[e], rpt) IN
     /\ ActiveCount(e, iss, r) <= limit[e]                            \* never more unretired ids than the peer allows
     /\ issued' = [issued EXCEPT ![e] = iss]
     /\ maxRpt' = [maxRpt EXCEPT ![e] = r]
  /\ UNCHANGED <<retiredByPeer, limit, peerIssued>>
RxRetire(e, seq) == retiredByPeer' = [retiredByPeer EXCEPT ![e] = @ \cup {seq}] /\ UNCHANGED <<issued, maxRpt, limit, peerIssued>>
RxNewConnectionId(e, seq) == peerIssued' = [peerIssued EXCEPT ![e] = @ \cup {seq}] /\ UNCHANGED <<issued, retiredByPeer, maxRpt, limit>>
TxRetire(e, seq) == seq \in peerIssued[e] /\ UNCHANGED cvars          \* only ids the peer actually issued
=============================================================================

------------------------------- MODULE ConnIds -------------------------------
(* RFC 9000 5.1.1 / 5.1.2 / 19.15 / 19.16 at the wire, per endpoint:
   NEW_CONNECTION_ID frames carry consecutive sequence numbers, pairwise distinct ids and stateless-reset
   tokens, retire_prior_to <= sequence number; the ids issued and not yet retired (by the peer, or requested to
   be retired through retire_prior_to) never exceed the peer's active_connection_id_limit;
   RETIRE_CONNECTION_ID is only sent for sequence numbers the peer issued, and never inside a datagram addressed with
   the id being retired; a datagram addressed to an id the endpoint issued and the peer has not retired is routed to
   the connection (never dropped as "unknown destination connection id") while the connection exists. *)
EXTENDS Naturals, FiniteSets, Sequences, TLC
Ep == {"c", "s"}
VARIABLES issued,        \* [Ep -> function seq -> [cid, token]]  ids announced with NEW_CONNECTION_ID (seq 0 is the handshake id)
          retiredByPeer, \* [Ep -> set of seq]
          maxRpt,        \* [Ep -> Nat]
          limit,         \* [Ep -> Nat]  active_connection_id_limit of the PEER
          peerIssued,    \* [Ep -> set of seq] sequence numbers the endpoint has seen the peer issue
          seq0,          \* [Ep -> id or None] the id of sequence number 0 (source connection id of the handshake packets)
          retiring,      \* [Ep -> set of seq] RETIRE frames written since the endpoint's last datagram was closed
          outq,          \* [Ep -> sequence of sets of seq] datagrams handed to the socket and not yet seen on the network
          lastRx,        \* [Ep -> id or None] destination id of the datagram the endpoint received last
          gone           \* [Ep -> BOOLEAN] the connection has ended at this endpoint
cvars == <<issued, retiredByPeer, maxRpt, limit, peerIssued, seq0, retiring, outq, lastRx, gone>>
None == 0 - 1
CFresh == [ issued |-> [e \in Ep |-> <<>>], retiredByPeer |-> [e \in Ep |-> {}], maxRpt |-> [e \in Ep |-> 0],
            limit |-> [e \in Ep |-> 2], peerIssued |-> [e \in Ep |-> {0}],
            seq0 |-> [e \in Ep |-> None], retiring |-> [e \in Ep |-> {}], outq |-> [e \in Ep |-> <<>>], lastRx |-> [e \in Ep |-> None],
            gone |-> [e \in Ep |-> FALSE] ]
CInit == issued = CFresh.issued /\ retiredByPeer = CFresh.retiredByPeer /\ maxRpt = CFresh.maxRpt /\ limit = CFresh.limit /\ peerIssued = CFresh.peerIssued
         /\ seq0 = CFresh.seq0 /\ retiring = CFresh.retiring /\ outq = CFresh.outq /\ lastRx = CFresh.lastRx /\ gone = CFresh.gone
CReset == issued' = CFresh.issued /\ retiredByPeer' = CFresh.retiredByPeer /\ maxRpt' = CFresh.maxRpt /\ limit' = CFresh.limit /\ peerIssued' = CFresh.peerIssued
          /\ seq0' = CFresh.seq0 /\ retiring' = CFresh.retiring /\ outq' = CFresh.outq /\ lastRx' = CFresh.lastRx /\ gone' = CFresh.gone
Put(f, k, v) == [x \in DOMAIN f \cup {k} |-> IF x = k THEN v ELSE f[x]]
Max2(a, b) == IF a >= b THEN a ELSE b
SetMax0(S) == IF S = {} THEN 0 ELSE CHOOSE x \in S : \A y \in S : x >= y

wvars == <<seq0, retiring, outq, lastRx, gone>>
PeerLimit(e, n) == limit' = [limit EXCEPT ![e] = n] /\ UNCHANGED <<issued, retiredByPeer, maxRpt, peerIssued, wvars>>
ActiveCount(e, iss, rpt) == Cardinality({s \in (DOMAIN iss) \cup {0} : s >= rpt /\ s \notin retiredByPeer[e]})
TxNewConnectionId(e, seq, rpt, cid, token) ==
  /\ rpt <= seq                                                       \* never asks to retire ids beyond the one it issues
  /\ IF seq \in DOMAIN issued[e]
     THEN issued[e][seq] = [cid |-> cid, token |-> token]             \* a retransmission repeats the same id and token
     ELSE /\ seq = SetMax0(DOMAIN issued[e]) + 1                      \* consecutive sequence numbers
          /\ \A s \in DOMAIN issued[e] : issued[e][s].cid # cid /\ issued[e][s].token # token   \* pairwise distinct
  /\ LET iss == Put(issued[e], seq, [cid |-> cid, token |-> token])
         r == Max2(maxRpt[e], rpt) IN
     /\ ActiveCount(e, iss, r) <= limit[e]                            \* never more unretired ids than the peer allows
     /\ issued' = [issued EXCEPT ![e] = iss]
     /\ maxRpt' = [maxRpt EXCEPT ![e] = r]
  /\ UNCHANGED <<retiredByPeer, limit, peerIssued, wvars>>
RxRetire(e, seq) == retiredByPeer' = [retiredByPeer EXCEPT ![e] = @ \cup {seq}] /\ UNCHANGED <<issued, maxRpt, limit, peerIssued, wvars>>
RxNewConnectionId(e, seq) == peerIssued' = [peerIssued EXCEPT ![e] = @ \cup {seq}] /\ UNCHANGED <<issued, retiredByPeer, maxRpt, limit, wvars>>
TxRetire(e, seq) == /\ seq \in peerIssued[e]                        \* only ids the peer actually issued
                    /\ retiring' = [retiring EXCEPT ![e] = @ \cup {seq}]
                    /\ UNCHANGED <<issued, retiredByPeer, maxRpt, limit, peerIssued, seq0, outq, lastRx, gone>>
\* --- the wire side ---------------------------------------------------------------------------------------------
Other(e) == IF e = "c" THEN "s" ELSE "c"
\* the id (hash) the endpoint p issued under sequence number s, None if unknown
IdOf(p, s) == IF s = 0 THEN seq0[p] ELSE IF s \in DOMAIN issued[p] THEN issued[p][s].cid ELSE None
\* ids of e the peer may still address: issued, and no RETIRE_CONNECTION_ID for them has been processed by e
Routable(e) == {IdOf(e, s) : s \in {x \in (DOMAIN issued[e]) \cup {0} : x \notin retiredByPeer[e]}} \ {None}
\* the endpoint closes a datagram: the RETIRE frames written since the last one travel in it
DatagramClosed(e) == outq' = [outq EXCEPT ![e] = Append(@, retiring[e])] /\ retiring' = [retiring EXCEPT ![e] = {}]
                     /\ UNCHANGED <<issued, retiredByPeer, maxRpt, limit, peerIssued, seq0, lastRx, gone>>
\* the network shows the oldest datagram of e: it is not addressed with an id it asks the peer to retire
DatagramSeen(e, dcid, scid) ==
  /\ IF Len(outq[e]) = 0 THEN outq' = outq
     ELSE /\ \A s \in Head(outq[e]) : IdOf(Other(e), s) = None \/ IdOf(Other(e), s) # dcid
          /\ outq' = [outq EXCEPT ![e] = Tail(@)]
  /\ seq0' = (IF seq0[e] = None /\ scid # None THEN [seq0 EXCEPT ![e] = scid] ELSE seq0)
  /\ UNCHANGED <<issued, retiredByPeer, maxRpt, limit, peerIssued, retiring, lastRx, gone>>
DatagramReceived(e, dcid) == lastRx' = [lastRx EXCEPT ![e] = dcid]
                            /\ UNCHANGED <<issued, retiredByPeer, maxRpt, limit, peerIssued, seq0, retiring, outq, gone>>
\* the endpoint found no connection for the datagram it received last
UnknownDestination(e) == /\ gone[e] \/ lastRx[e] = None \/ lastRx[e] \notin Routable(e)
                         /\ UNCHANGED cvars
ConnectionGone(e) == gone' = [gone EXCEPT ![e] = TRUE] /\ UNCHANGED <<issued, retiredByPeer, maxRpt, limit, peerIssued, seq0, retiring, outq, lastRx>>
=============================================================================

------------------------------- MODULE Recovery -------------------------------
(* Loss detection and in-flight bookkeeping of one endpoint as RFC 9002 sees it, over the events the
   endpoint publishes (packet_sent, ack_range_received, packet_lost, recovery_metrics,
   key_space_discarded) plus the congestion-controlled flag of each packet (tx interceptor):
     - every sent packet is resolved exactly once: acknowledged, declared lost, or discarded with its space;
     - a packet is declared lost only if a LATER packet of the space was acknowledged and it is at least
       3 packet numbers older than the largest acknowledged, or was sent at least 9/8 * max(srtt, latest_rtt)
       (never less than 1 ms) before the declaration (judged with the RTT published right after);
     - bytes_in_flight published = total size of the unresolved congestion-controlled packets;
     - RTT estimates stay within the samples; the PTO count moves by +1 or resets to 0. *)
EXTENDS Naturals, FiniteSets, Sequences, IntervalSets, TLC
Sp == {"i", "h", "a"}
None == 0 - 1
Granularity == 1000            \* microseconds (kGranularity)

VARIABLES
  sent,        \* [Sp -> function pn -> [t, size, cc]]   unresolved packets
  resolvedMax, \* [Sp -> Int] highest packet number ever sent (for "never resolved twice" of unknown numbers)
  lastCc,      \* [Sp -> function pn -> BOOLEAN] cc flag seen at the tx interceptor, consumed by packet_sent
  largestAcked,\* [Sp -> Int]
  pendingLoss, \* sequence of [sp, pn, tsent, t, la] losses declared since the last metrics event
  bif,         \* ledger of bytes in flight
  ptoCount, minLatest, maxLatest, paths,
  closing,     \* a CONNECTION_CLOSE was sent: close packets are not tracked by loss recovery, bookkeeping ends
  prevRtt,     \* function path id -> max(srtt, latest) of that path's previous metrics event
  preDiscard   \* None, or the ledger value before a space discard: the metrics event of the discard is published BEFORE the
               \* discarded bytes are subtracted (recovery/manager.rs on_packet_number_space_discarded) - an event-order
               \* quirk, named here, not a bookkeeping error
rvars == <<sent, resolvedMax, lastCc, largestAcked, pendingLoss, bif, ptoCount, minLatest, maxLatest, paths, preDiscard, closing, prevRtt>>

RFresh == [ sent |-> [s \in Sp |-> <<>>], resolvedMax |-> [s \in Sp |-> None], lastCc |-> [s \in Sp |-> <<>>],
            largestAcked |-> [s \in Sp |-> None], pendingLoss |-> <<>>, bif |-> 0, ptoCount |-> 0,
            minLatest |-> None, maxLatest |-> None, paths |-> 1, preDiscard |-> None, closing |-> FALSE, prevRtt |-> <<>> ]
RInit == sent = RFresh.sent /\ resolvedMax = RFresh.resolvedMax /\ lastCc = RFresh.lastCc /\ largestAcked = RFresh.largestAcked
         /\ pendingLoss = RFresh.pendingLoss /\ bif = RFresh.bif /\ ptoCount = RFresh.ptoCount /\ minLatest = RFresh.minLatest
         /\ maxLatest = RFresh.maxLatest /\ paths = RFresh.paths /\ preDiscard = RFresh.preDiscard /\ closing = RFresh.closing /\ prevRtt = RFresh.prevRtt

Put(f, k, v) == [x \in DOMAIN f \cup {k} |-> IF x = k THEN v ELSE f[x]]
Del(f, K) == [x \in DOMAIN f \ K |-> f[x]]
RECURSIVE SumSizes(_, _)
SumSizes(f, K) == IF K = {} THEN 0 ELSE LET k == CHOOSE x \in K : TRUE IN (IF f[k].cc THEN f[k].size ELSE 0) + SumSizes(f, K \ {k})

\* tx interceptor: the packet's frames say whether it is congestion controlled
TxSeen(sp, pn, cc) == lastCc' = [lastCc EXCEPT ![sp] = Put(@, pn, cc)]
                      /\ UNCHANGED <<sent, resolvedMax, largestAcked, pendingLoss, bif, ptoCount, minLatest, maxLatest, paths, preDiscard, closing, prevRtt>>
PacketSent(sp, pn, size, t) ==
  /\ pn \in DOMAIN lastCc[sp] /\ pn > resolvedMax[sp]
  /\ sent' = IF closing THEN sent ELSE [sent EXCEPT ![sp] = Put(@, pn, [t |-> t, size |-> size, cc |-> lastCc[sp][pn]])]
  /\ resolvedMax' = [resolvedMax EXCEPT ![sp] = pn]
  /\ lastCc' = [lastCc EXCEPT ![sp] = Del(@, {pn})]
  /\ bif' = IF closing THEN bif ELSE bif + (IF lastCc[sp][pn] THEN size ELSE 0)
  /\ UNCHANGED <<largestAcked, pendingLoss, ptoCount, minLatest, maxLatest, paths, preDiscard, closing, prevRtt>>
\* an acknowledged range: unresolved packets in it are resolved (re-acknowledging is a no-op)
AckRange(sp, lo, hi) ==
  LET K == {pn \in DOMAIN sent[sp] : lo <= pn /\ pn <= hi} IN
  /\ hi <= resolvedMax[sp]                            \* an acknowledgement that is processed names only packets that were sent
  /\ sent' = [sent EXCEPT ![sp] = Del(@, K)]
  /\ bif' = bif - SumSizes(sent[sp], K)
  /\ largestAcked' = [largestAcked EXCEPT ![sp] = IF hi <= resolvedMax[sp] THEN Max2(@, hi) ELSE @]
  /\ UNCHANGED <<resolvedMax, lastCc, pendingLoss, ptoCount, minLatest, maxLatest, paths, preDiscard, closing, prevRtt>>
PacketLost(sp, pn, t, path) ==
  /\ pn \in DOMAIN sent[sp]                         \* sent, and not resolved before (exactly once)
  /\ largestAcked[sp] > pn                          \* a later packet was acknowledged (a PTO alone marks nothing lost)
  /\ pendingLoss' = Append(pendingLoss, [sp |-> sp, pn |-> pn, tsent |-> sent[sp][pn].t, t |-> t, la |-> largestAcked[sp], path |-> path])
  /\ sent' = [sent EXCEPT ![sp] = Del(@, {pn})]
  /\ bif' = bif - (IF sent[sp][pn].cc THEN sent[sp][pn].size ELSE 0)
  /\ UNCHANGED <<resolvedMax, lastCc, largestAcked, ptoCount, minLatest, maxLatest, paths, preDiscard, closing, prevRtt>>
\* the RTT used by the code at the moment of the declaration is not published; it is the estimate of the path the packet
\* was SENT on and lies between the values of that path's metrics events before and after the declaration, so the smaller
\* of the two thresholds is demanded (prev / next = None: no such event)
LossJustified(x, prev, next) ==
  \/ x.la - x.pn >= 3
  \/ prev = None /\ next = None
  \/ LET r == IF prev = None THEN next ELSE IF next = None THEN prev ELSE Min2(prev, next)
         thr == Max2((9 * r) \div 8, Granularity) IN
     \* named tolerance: Timestamp::has_elapsed treats a deadline less than the timer granularity (1 ms) ahead as
     \* elapsed, so a loss may be declared up to kGranularity before the threshold
     (x.t - x.tsent) + Granularity >= thr
PrevOf(path) == IF path \in DOMAIN prevRtt THEN prevRtt[path] ELSE None
\* recovery metrics of one path.  Losses of packets sent on this path are judged now; those of other paths wait for
\* their own path's next metrics event (or the end of the run).  The ledger, PTO-count and sample-range rules are
\* stated for single-path connections (per-path in-flight attribution is not published by the implementation).
Metrics(path, srtt, latest, minrtt, bytesInFlight, pto) ==
  /\ (\A i \in 1..Len(pendingLoss) : pendingLoss[i].path = path => LossJustified(pendingLoss[i], PrevOf(path), Max2(srtt, latest))) = TRUE
  /\ pendingLoss' = SelectSeq(pendingLoss, LAMBDA x : x.path # path)
  /\ prevRtt' = Put(prevRtt, path, Max2(srtt, latest))
  /\ minrtt <= latest + 1 /\ minrtt <= srtt + 1
  /\ IF path = 0 THEN
       /\ paths > 1 \/ closing \/ bytesInFlight = (IF preDiscard # None THEN preDiscard ELSE bif)     \* exact ledger (single path)
       /\ preDiscard' = None
       /\ paths > 1 \/ pto \in {ptoCount, ptoCount + 1, 0}
       /\ LET mn == IF minLatest = None THEN latest ELSE Min2(minLatest, latest)
              mx == IF maxLatest = None THEN latest ELSE Max2(maxLatest, latest) IN
          /\ paths > 1 \/ srtt <= mx + 1
          /\ minLatest' = mn /\ maxLatest' = mx
       /\ ptoCount' = pto /\ paths' = paths
     ELSE
       /\ paths' = Max2(paths, 2) /\ preDiscard' = None
       /\ UNCHANGED <<ptoCount, minLatest, maxLatest>>
  /\ UNCHANGED <<sent, resolvedMax, lastCc, largestAcked, bif, closing>>
\* end of the run: what is still waiting is judged with the last estimate published for its path
EndOfRun ==
  /\ (\A i \in 1..Len(pendingLoss) : LossJustified(pendingLoss[i], PrevOf(pendingLoss[i].path), None)) = TRUE
  /\ pendingLoss' = <<>>
  /\ UNCHANGED <<sent, resolvedMax, lastCc, largestAcked, bif, ptoCount, minLatest, maxLatest, paths, preDiscard, closing, prevRtt>>
SpaceDiscarded(sp) ==
  /\ bif' = bif - SumSizes(sent[sp], DOMAIN sent[sp])
  /\ sent' = [sent EXCEPT ![sp] = <<>>]
  /\ preDiscard' = (IF preDiscard # None THEN preDiscard ELSE bif)
  /\ UNCHANGED <<resolvedMax, lastCc, largestAcked, pendingLoss, ptoCount, minLatest, maxLatest, paths, closing, prevRtt>>
\* RFC 9002 6.4 / RFC 9000 17.2.5.2: a client that accepts a Retry forgets every Initial packet sent so far; their bytes leave
\* the bytes-in-flight figure at once (they can never be acknowledged or declared lost afterwards)
RetryAccepted ==
  /\ bif' = bif - SumSizes(sent["i"], DOMAIN sent["i"])
  /\ sent' = [sent EXCEPT !["i"] = <<>>]
  /\ UNCHANGED <<resolvedMax, lastCc, largestAcked, pendingLoss, ptoCount, minLatest, maxLatest, paths, closing, prevRtt, preDiscard>>
MorePaths == paths' = paths + 1 /\ UNCHANGED <<sent, resolvedMax, lastCc, largestAcked, pendingLoss, bif, ptoCount, minLatest, maxLatest, preDiscard, closing, prevRtt>>
CloseSent == closing' = TRUE /\ UNCHANGED <<sent, resolvedMax, lastCc, largestAcked, pendingLoss, bif, ptoCount, minLatest, maxLatest, paths, preDiscard, prevRtt>>
BifNonNegative == bif >= 0
=============================================================================

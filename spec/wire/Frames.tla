-------------------------------- MODULE Frames --------------------------------
(* RFC 9000 section 19 (and RFC 9221 DATAGRAM, plus the two s2n-quic-dc extension frames) as an executable
   reference parser and encoder over byte sequences, written from the RFC text, independent of the Rust codecs.
   ParseFrame(b) parses ONE frame at the start of b:
     [ok |-> FALSE]   or
     [ok |-> TRUE, ty, big (sequence of 62-bit fields as 8 limbs), nat (small fields / raw bytes), len (bytes consumed)]
   EncodeFrame(f) is the canonical wire image (all integers in shortest form). *)
EXTENDS Wire, TLC
Bad == [ok |-> FALSE]

\* --- 62-bit arithmetic on limbs -------------------------------------------------------------------------------
RECURSIVE BigSubFrom(_, _, _, _)
BigSubFrom(a, b, i, borrow) ==    \* a - b, a >= b
  IF i = 0 THEN a
  ELSE LET d == a[i] - b[i] - borrow IN
       IF d >= 0 THEN BigSubFrom([a EXCEPT ![i] = d], b, i - 1, 0) ELSE BigSubFrom([a EXCEPT ![i] = d + 256], b, i - 1, 1)
BigSub(a, b) == BigSubFrom(a, b, 8, 0)
BigTwo == BigOfNat(2)

\* --- readers: position p is 1-based; every reader returns [ok, v, p] with p the next position -----------------
VarAt(b, p) ==
  IF p > Len(b) THEN Bad
  ELSE LET w == 2 ^ (b[p] \div 64) IN
       IF p + w - 1 > Len(b) THEN Bad
       ELSE [ok |-> TRUE, p |-> p + w,
             v |-> [i \in 1..8 |-> IF i <= 8 - w THEN 0 ELSE IF i = 8 - w + 1 THEN b[p] % 64 ELSE b[p + i - (8 - w) - 1]]]
RECURSIVE VarsAt(_, _, _)
VarsAt(b, p, n) ==      \* n consecutive integers: [ok, vs, p]
  IF n = 0 THEN [ok |-> TRUE, vs |-> <<>>, p |-> p]
  ELSE LET x == VarAt(b, p) IN
       IF ~x.ok THEN Bad
       ELSE LET r == VarsAt(b, x.p, n - 1) IN IF ~r.ok THEN Bad ELSE [ok |-> TRUE, vs |-> <<x.v>> \o r.vs, p |-> r.p]
\* a length-prefixed byte string: [ok, off (position of the first data byte), n, p]
LenPrefixed(b, p) ==
  LET x == VarAt(b, p) IN
  IF ~x.ok THEN Bad
  ELSE IF ~BigFitsNat(x.v) \/ BigToNat(x.v) > Len(b) - x.p + 1 THEN Bad
  ELSE [ok |-> TRUE, off |-> x.p, n |-> BigToNat(x.v), p |-> x.p + BigToNat(x.v)]
Bytes(b, p, n) == [i \in 1..n |-> b[p + i - 1]]

\* --- ACK ranges: (largest, first, then gap/len pairs) -> descending list of <<smallest, largest>> ----------------
RECURSIVE AckRanges(_, _, _, _)
AckRanges(b, p, largest, more) ==    \* reads one range length (and, if more > 0, a gap) : [ok, rs, p]
  LET x == VarAt(b, p) IN
  IF ~x.ok \/ BigLt(largest, x.v) THEN Bad
  ELSE LET smallest == BigSub(largest, x.v) IN
       IF more = 0 THEN [ok |-> TRUE, rs |-> <<smallest, largest>>, p |-> x.p]
       ELSE LET g == VarAt(b, x.p) IN
            IF ~g.ok \/ BigLt(smallest, g.v) THEN Bad
            ELSE LET s2 == BigSub(smallest, g.v) IN
                 IF BigLt(s2, BigTwo) THEN Bad
                 ELSE LET r == AckRanges(b, g.p, BigSub(s2, BigTwo), more - 1) IN
                      IF ~r.ok THEN Bad ELSE [ok |-> TRUE, rs |-> <<smallest, largest>> \o r.rs, p |-> r.p]

Pow60 == Pow2(60)
Simple(name, b, n) ==   \* a frame that is n integers after a one-byte type
  LET r == VarsAt(b, 2, n) IN IF ~r.ok THEN Bad ELSE [ok |-> TRUE, ty |-> name, big |-> r.vs, nat |-> <<>>, len |-> r.p - 1]

RECURSIVE ZeroRun(_, _)
ZeroRun(b, p) == IF p <= Len(b) /\ b[p] = 0 THEN ZeroRun(b, p + 1) ELSE p - 1     \* last index of the run of zeros from 1

DcTokensTag == <<0, 0, 0, 0, 0, 220, 0, 0>>      \* 0xdc0000
MtuDoneTag == <<0, 0, 0, 0, 0, 220, 0, 2>>       \* 0xdc0002

ParseFrame(b) ==
  IF Len(b) = 0 THEN Bad ELSE
  LET t == b[1] IN
  CASE t = 0 -> [ok |-> TRUE, ty |-> "padding", big |-> <<>>, nat |-> <<ZeroRun(b, 1)>>, len |-> ZeroRun(b, 1)]
    [] t = 1 -> [ok |-> TRUE, ty |-> "ping", big |-> <<>>, nat |-> <<>>, len |-> 1]
    [] t \in {2, 3} ->
         LET h == VarsAt(b, 2, 3) IN      \* largest, delay, range count
         IF ~h.ok \/ ~BigFitsNat(h.vs[3]) \/ BigToNat(h.vs[3]) > Len(b) THEN Bad
         ELSE LET rs == AckRanges(b, h.p, h.vs[1], BigToNat(h.vs[3])) IN
              IF ~rs.ok THEN Bad
              ELSE IF t = 2 THEN [ok |-> TRUE, ty |-> "ack", big |-> <<h.vs[2]>> \o rs.rs, nat |-> <<BigToNat(h.vs[3]) + 1, 0>>, len |-> rs.p - 1]
              ELSE LET e == VarsAt(b, rs.p, 3) IN
                   IF ~e.ok THEN Bad
                   ELSE [ok |-> TRUE, ty |-> "ack", big |-> <<h.vs[2]>> \o rs.rs \o e.vs, nat |-> <<BigToNat(h.vs[3]) + 1, 1>>, len |-> e.p - 1]
    [] t = 4 -> Simple("reset_stream", b, 3)
    [] t = 5 -> Simple("stop_sending", b, 2)
    [] t = 6 -> LET o == VarAt(b, 2) IN
                IF ~o.ok THEN Bad
                ELSE LET d == LenPrefixed(b, o.p) IN
                     IF ~d.ok THEN Bad ELSE [ok |-> TRUE, ty |-> "crypto", big |-> <<o.v>>, nat |-> <<d.off, d.n>>, len |-> d.p - 1]
    [] t = 7 -> LET d == LenPrefixed(b, 2) IN
                IF ~d.ok \/ d.n = 0 THEN Bad ELSE [ok |-> TRUE, ty |-> "new_token", big |-> <<>>, nat |-> <<d.off, d.n>>, len |-> d.p - 1]
    [] t \in 8..15 ->
         LET hasOff == (t \div 4) % 2 = 1
             hasLen == (t \div 2) % 2 = 1
             fin == t % 2
             id == VarAt(b, 2) IN
         IF ~id.ok THEN Bad
         ELSE LET o == IF hasOff THEN VarAt(b, id.p) ELSE [ok |-> TRUE, v |-> BigZero, p |-> id.p] IN
              IF ~o.ok THEN Bad
              ELSE IF hasLen THEN
                     LET d == LenPrefixed(b, o.p) IN
                     IF ~d.ok THEN Bad
                     ELSE [ok |-> TRUE, ty |-> "stream", big |-> <<id.v, o.v>>, nat |-> <<fin, 0, d.off, d.n>>, len |-> d.p - 1]
                   ELSE [ok |-> TRUE, ty |-> "stream", big |-> <<id.v, o.v>>, nat |-> <<fin, 1, o.p, Len(b) - o.p + 1>>, len |-> Len(b)]
    [] t = 16 -> Simple("max_data", b, 1)
    [] t = 17 -> Simple("max_stream_data", b, 2)
    [] t \in {18, 19} -> LET r == Simple("max_streams", b, 1) IN
                         IF ~r.ok \/ BigLt(Pow60, r.big[1]) THEN Bad ELSE [r EXCEPT !.nat = <<t - 18>>]
    [] t = 20 -> Simple("data_blocked", b, 1)
    [] t = 21 -> Simple("stream_data_blocked", b, 2)
    [] t \in {22, 23} -> LET r == Simple("streams_blocked", b, 1) IN
                         IF ~r.ok \/ BigLt(Pow60, r.big[1]) THEN Bad ELSE [r EXCEPT !.nat = <<t - 22>>]
    [] t = 24 -> LET h == VarsAt(b, 2, 2) IN
                 IF ~h.ok \/ BigLt(h.vs[1], h.vs[2]) THEN Bad                              \* retire_prior_to <= sequence number
                 ELSE IF h.p > Len(b) \/ b[h.p] < 1 \/ b[h.p] > 20 THEN Bad                \* connection id length 1..20
                 ELSE IF h.p + b[h.p] + 16 > Len(b) THEN Bad
                 ELSE [ok |-> TRUE, ty |-> "new_connection_id", big |-> h.vs, nat |-> <<b[h.p]>> \o Bytes(b, h.p + 1, b[h.p] + 16),
                       len |-> h.p + b[h.p] + 16]
    [] t = 25 -> Simple("retire_connection_id", b, 1)
    [] t \in {26, 27} -> IF Len(b) < 9 THEN Bad
                         ELSE [ok |-> TRUE, ty |-> (IF t = 26 THEN "path_challenge" ELSE "path_response"), big |-> <<>>, nat |-> Bytes(b, 2, 8), len |-> 9]
    [] t \in {28, 29} ->
         LET h == VarsAt(b, 2, IF t = 28 THEN 2 ELSE 1) IN
         IF ~h.ok THEN Bad
         ELSE LET d == LenPrefixed(b, h.p) IN
              IF ~d.ok THEN Bad ELSE [ok |-> TRUE, ty |-> "connection_close", big |-> h.vs, nat |-> <<t - 28, d.off, d.n>>, len |-> d.p - 1]
    [] t = 30 -> [ok |-> TRUE, ty |-> "handshake_done", big |-> <<>>, nat |-> <<>>, len |-> 1]
    [] t = 48 -> [ok |-> TRUE, ty |-> "datagram", big |-> <<>>, nat |-> <<1, 2, Len(b) - 1>>, len |-> Len(b)]
    [] t = 49 -> LET d == LenPrefixed(b, 2) IN
                 IF ~d.ok THEN Bad ELSE [ok |-> TRUE, ty |-> "datagram", big |-> <<>>, nat |-> <<0, d.off, d.n>>, len |-> d.p - 1]
    [] OTHER ->
         \* frame types of 0x40 and above (and any non-minimal encoding of a smaller one) are read as integers; only the
         \* two extension types are known.  RFC 9000 12.4 allows (MAY) rejecting longer-than-necessary type encodings;
         \* for the extension types the longer encoding is accepted.
         IF t < 64 THEN Bad
         ELSE LET ty == VarAt(b, 1) IN
              IF ~ty.ok THEN Bad
              ELSE IF ty.v = DcTokensTag THEN
                     LET c == VarAt(b, ty.p) IN
                     IF ~c.ok \/ ~BigFitsNat(c.v) \/ BigToNat(c.v) = 0 \/ BigToNat(c.v) > 4092 THEN Bad
                     ELSE IF c.p + 16 * BigToNat(c.v) - 1 > Len(b) THEN Bad
                     ELSE [ok |-> TRUE, ty |-> "dc_stateless_reset_tokens", big |-> <<>>, nat |-> <<BigToNat(c.v)>>, len |-> c.p + 16 * BigToNat(c.v) - 1]
              ELSE IF ty.v = MtuDoneTag THEN
                     IF ty.p + 1 > Len(b) THEN Bad
                     ELSE [ok |-> TRUE, ty |-> "mtu_probing_complete", big |-> <<>>, nat |-> <<b[ty.p] * 256 + b[ty.p + 1]>>, len |-> ty.p + 1]
              ELSE Bad

\* --- canonical encoder (the image a conforming sender produces; integers in shortest form) ----------------------
RECURSIVE EncVars(_)
EncVars(vs) == IF Len(vs) = 0 THEN <<>> ELSE VarIntEncode(Head(vs)) \o EncVars(Tail(vs))
\* f: [ty, big, nat, data]   (data: the opaque bytes of the frame, if it has any)
EncodeFrame(f) ==
  CASE f.ty = "ping" -> <<1>>
    [] f.ty = "handshake_done" -> <<30>>
    [] f.ty = "reset_stream" -> <<4>> \o EncVars(f.big)
    [] f.ty = "stop_sending" -> <<5>> \o EncVars(f.big)
    [] f.ty = "crypto" -> <<6>> \o EncVars(f.big) \o VarIntEncode(BigOfNat(Len(f.data))) \o f.data
    [] f.ty = "new_token" -> <<7>> \o VarIntEncode(BigOfNat(Len(f.data))) \o f.data
    [] f.ty = "stream" ->   \* nat = <<fin, last>>
         <<8 + (IF f.big[2] # BigZero THEN 4 ELSE 0) + (IF f.nat[2] = 0 THEN 2 ELSE 0) + f.nat[1]>> \o VarIntEncode(f.big[1])
         \o (IF f.big[2] # BigZero THEN VarIntEncode(f.big[2]) ELSE <<>>)
         \o (IF f.nat[2] = 0 THEN VarIntEncode(BigOfNat(Len(f.data))) ELSE <<>>) \o f.data
    [] f.ty = "max_data" -> <<16>> \o EncVars(f.big)
    [] f.ty = "max_stream_data" -> <<17>> \o EncVars(f.big)
    [] f.ty = "max_streams" -> <<18 + f.nat[1]>> \o EncVars(f.big)
    [] f.ty = "data_blocked" -> <<20>> \o EncVars(f.big)
    [] f.ty = "stream_data_blocked" -> <<21>> \o EncVars(f.big)
    [] f.ty = "streams_blocked" -> <<22 + f.nat[1]>> \o EncVars(f.big)
    [] f.ty = "new_connection_id" -> <<24>> \o EncVars(f.big) \o f.nat      \* nat = <<cid len>> \o cid \o token
    [] f.ty = "retire_connection_id" -> <<25>> \o EncVars(f.big)
    [] f.ty = "path_challenge" -> <<26>> \o f.nat
    [] f.ty = "path_response" -> <<27>> \o f.nat
    [] f.ty = "connection_close" -> <<28 + f.nat[1]>> \o EncVars(f.big) \o VarIntEncode(BigOfNat(Len(f.data))) \o f.data
    [] f.ty = "datagram" -> <<48 + (IF f.nat[1] = 0 THEN 1 ELSE 0)>> \o (IF f.nat[1] = 0 THEN VarIntEncode(BigOfNat(Len(f.data))) ELSE <<>>) \o f.data
    [] f.ty = "ack" ->     \* big = <<delay, s1, l1, s2, l2, ...>> (descending ranges) [++ ect0, ect1, ce]; nat = <<range count, has ecn>>
         LET n == f.nat[1]
             RECURSIVE Rest(_)
             Rest(i) == IF i > n THEN <<>>
                        ELSE VarIntEncode(BigSub(BigSub(f.big[2 * (i - 1)], f.big[2 * i + 1]), BigTwo))      \* gap = prev smallest - largest - 2
                             \o VarIntEncode(BigSub(f.big[2 * i + 1], f.big[2 * i])) \o Rest(i + 1)
         IN <<2 + f.nat[2]>> \o VarIntEncode(f.big[3]) \o VarIntEncode(f.big[1]) \o VarIntEncode(BigOfNat(n - 1))
            \o VarIntEncode(BigSub(f.big[3], f.big[2])) \o Rest(2)
            \o (IF f.nat[2] = 1 THEN EncVars(SubSeq(f.big, 2 * n + 2, 2 * n + 4)) ELSE <<>>)
=============================================================================

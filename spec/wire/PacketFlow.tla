------------------------------ MODULE PacketFlow ------------------------------
(* Per endpoint and packet-number space: which packets reach frame processing, what is acknowledged
   and when (RFC 9000 12.3, 13.2; RFC 9001 5.x abstracted).
     C06  every processed packet was really produced by the peer for this space with exactly this
          cleartext, and is processed at most once;
     C08  packet numbers sent strictly increase; every ACK range names only packets processed;
          an ack-eliciting packet processed in the application space is acknowledged by a packet SENT
          within max_ack_delay + Slack while the endpoint may send.
   Genuine packets come from the peer's tx interceptor (space, pn, hash of the cleartext payload). *)
EXTENDS Naturals, FiniteSets, Sequences, IntervalSets, TLC
CONSTANTS Slack,      \* microseconds of scheduling slack for the acknowledgement deadline
          RangeLimit, \* number of ACK ranges an endpoint keeps (ack_ranges_limit, default 10)
          KnownF8     \* known finding F8 listed: acknowledgements held back by the endpoint's own pacing timer
Ep == {"c", "s"}
Other(e) == IF e = "c" THEN "s" ELSE "c"
Sp == {"i", "h", "a"}
None == 0 - 1

VARIABLES
  genuine,     \* [Ep -> [Sp -> function pn -> hash]]  packets produced BY the endpoint
  processed,   \* [Ep -> [Sp -> interval set]]         packets that reached frame processing AT the endpoint
  lastTx,      \* [Ep -> [Sp -> Int]]                  highest packet number sent
  pending,     \* [Ep -> function pn -> deadline]      ack-eliciting application-space packets not yet acknowledged
  maySend,     \* [Ep -> BOOLEAN]                      FALSE once the endpoint is closing/closed
  mad,         \* [Ep -> Nat]                          the endpoint's own max_ack_delay (microseconds)
  pacedUntil,  \* [Ep -> Nat]                          the endpoint's pacing timer (hook): nothing is sent before
  ackSent,     \* [Ep -> function own pn -> largest acknowledged]  application-space packets that carried an ACK frame
  ackFloor     \* [Ep -> Int]  RFC 9000 13.2.4: once a packet carrying an ACK frame is acknowledged, the receiver can stop
               \*              acknowledging packets <= the Largest Acknowledged of that frame
pvars == <<genuine, processed, lastTx, pending, maySend, mad, pacedUntil, ackSent, ackFloor>>

PState(madc, mads) ==
  [ genuine |-> [e \in Ep |-> [s \in Sp |-> <<>>]],
    processed |-> [e \in Ep |-> [s \in Sp |-> {}]],
    lastTx |-> [e \in Ep |-> [s \in Sp |-> None]],
    pending |-> [e \in Ep |-> <<>>],
    maySend |-> [e \in Ep |-> TRUE],
    mad |-> [e \in Ep |-> IF e = "c" THEN madc ELSE mads],
    pacedUntil |-> [e \in Ep |-> 0],
    ackSent |-> [e \in Ep |-> <<>>],
    ackFloor |-> [e \in Ep |-> None] ]
PInit == LET st == PState(25000, 25000) IN
  genuine = st.genuine /\ processed = st.processed /\ lastTx = st.lastTx /\ pending = st.pending /\ maySend = st.maySend /\ mad = st.mad /\ pacedUntil = st.pacedUntil /\ ackSent = st.ackSent /\ ackFloor = st.ackFloor
PReset(madc, mads) == LET st == PState(madc, mads) IN
  genuine' = st.genuine /\ processed' = st.processed /\ lastTx' = st.lastTx /\ pending' = st.pending /\ maySend' = st.maySend /\ mad' = st.mad /\ pacedUntil' = st.pacedUntil /\ ackSent' = st.ackSent /\ ackFloor' = st.ackFloor

Put(f, k, v) == [x \in DOMAIN f \cup {k} |-> IF x = k THEN v ELSE f[x]]
Del(f, K) == [x \in DOMAIN f \ K |-> f[x]]

\* deadlines: nothing pending may be overdue at time t
Strict(t) == \A e \in Ep : maySend[e] => \A pn \in DOMAIN pending[e] : t <= pending[e][pn] + Slack
\* Known finding F8 (named deviation): s2n-quic applies its pacing timer to every packet, also to packets that
\* carry only an ACK (RFC 9002 7.7: SHOULD NOT be paced), so an acknowledgement can be held back until the pacer
\* releases the connection.  While F8 is listed the deadline of endpoint e is extended to its pacing release time.
Lenient(t) == \A e \in Ep : maySend[e] => \A pn \in DOMAIN pending[e] : t <= Max2(pending[e][pn], pacedUntil[e]) + Slack
NoneOverdue(t) == IF Strict(t) THEN TRUE ELSE (KnownF8 /\ Lenient(t) /\ PrintT(<<"KNOWN-FINDING", "F8">>))

\* endpoint e sends packet pn of space sp
TxPacket(e, sp, pn, hash, t) ==
  /\ pn > lastTx[e][sp]                               \* strictly increasing
  /\ NoneOverdue(t) = TRUE
  /\ lastTx' = [lastTx EXCEPT ![e][sp] = pn]
  /\ genuine' = [genuine EXCEPT ![e][sp] = Put(@, pn, hash)]
  /\ UNCHANGED <<processed, pending, maySend, mad, pacedUntil, ackSent, ackFloor>>

\* an ACK frame in a packet just sent by e: ranges is a sequence of <<lo, hi>> (inclusive)
TxAck(e, sp, ownPn, ranges) ==
  /\ \A i \in 1..Len(ranges) : IvCovers(processed[e][sp], ranges[i][1], ranges[i][2] + 1)   \* only packets really processed
  \* named deviation (capacity-bounded ACK ranges, RFC 9000 13.2.3/13.2.4 allow limiting them): when the frame is at
  \* the range limit, packets below its lowest range have been shed from (or could not enter) the set and will not be
  \* acknowledged; the obligation ends there.
  /\ pending' = IF sp = "a"
                THEN LET lowest == SetMin({ranges[i][1] : i \in 1..Len(ranges)})
                         atCap == Len(ranges) >= RangeLimit IN
                     [pending EXCEPT ![e] = Del(@, {pn \in DOMAIN @ : (\E i \in 1..Len(ranges) : (ranges[i][1] <= pn /\ pn <= ranges[i][2])) \/ (atCap /\ pn < lowest)})]
                ELSE pending
  /\ ackSent' = IF sp = "a" THEN [ackSent EXCEPT ![e] = Put(@, ownPn, SetMax({ranges[i][2] : i \in 1..Len(ranges)}))] ELSE ackSent
  /\ UNCHANGED <<genuine, processed, lastTx, maySend, mad, pacedUntil, ackFloor>>

\* an ACK frame from the peer is processed by e: packets of e that carried ACK frames are now acknowledged
RxAck(e, sp, ranges) ==
  IF sp # "a" THEN UNCHANGED pvars
  ELSE LET covered == {p \in DOMAIN ackSent[e] : \E i \in 1..Len(ranges) : (ranges[i][1] <= p /\ p <= ranges[i][2])}
           fl == IF covered = {} THEN ackFloor[e] ELSE Max2(ackFloor[e], SetMax({ackSent[e][p] : p \in covered})) IN
       /\ ackFloor' = [ackFloor EXCEPT ![e] = fl]
       /\ ackSent' = [ackSent EXCEPT ![e] = Del(@, covered)]
       /\ pending' = [pending EXCEPT ![e] = Del(@, {p \in DOMAIN @ : p <= fl})]
       /\ UNCHANGED <<genuine, processed, lastTx, maySend, mad, pacedUntil>>

\* packet pn of space sp reaches frame processing at e
RxPacket(e, sp, pn, hash, t, eliciting) ==
  /\ pn \in DOMAIN genuine[Other(e)][sp]              \* the peer really sent this packet number in this space ...
  /\ genuine[Other(e)][sp][pn] = hash                 \* ... with exactly this cleartext
  /\ ~IvContains(processed[e][sp], pn)                \* at most once
  /\ NoneOverdue(t) = TRUE
  /\ processed' = [processed EXCEPT ![e][sp] = IvInsert(@, pn, pn + 1)]
  /\ pending' = IF sp = "a" /\ eliciting /\ maySend[e] /\ pn > ackFloor[e] THEN [pending EXCEPT ![e] = Put(@, pn, t + mad[e])] ELSE pending
  /\ UNCHANGED <<genuine, lastTx, maySend, mad, pacedUntil, ackSent, ackFloor>>

\* the endpoint stops being obliged (and allowed) to acknowledge
StopSending(e) == maySend' = [maySend EXCEPT ![e] = FALSE] /\ UNCHANGED <<genuine, processed, lastTx, pending, mad, pacedUntil, ackSent, ackFloor>>
\* hook: the connection armed its pacing timer until `until`
Paced(e, until) == pacedUntil' = [pacedUntil EXCEPT ![e] = until] /\ UNCHANGED <<genuine, processed, lastTx, pending, maySend, mad, ackSent, ackFloor>>
\* time passes without packets (end of run)
Tick(t) == NoneOverdue(t) = TRUE /\ UNCHANGED pvars
=============================================================================

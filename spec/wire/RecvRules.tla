------------------------------ MODULE RecvRules ------------------------------
(* The receiving side of an endpoint as RFC 9000 sees it (sections 3, 4.1, 4.5, 4.6, 12.4, 19): which frames of a
   peer are violations, which error codes the endpoint may then close with, and how much credit it may advertise.
   The verdict is computed from the endpoint's OWN observable history: limits it advertised (configuration and
   MAX_* frames it sent), bytes it received per stream, final sizes it learned, streams its application opened and
   bytes its application consumed. *)
EXTENDS Naturals, FiniteSets, Sequences, TLC
CONSTANTS MaxStreamId, KnownF5, KnownF16
Ep == {"c", "s"}
Sids == 0..MaxStreamId
None == 0 - 1
Initiator(sid) == IF sid % 2 = 0 THEN "c" ELSE "s"
IsBidi(sid) == (sid % 4) < 2
Ordinal(sid) == sid \div 4
Max2(a, b) == IF a >= b THEN a ELSE b
\* transport error codes
FLOW_CONTROL_ERROR == 3
STREAM_LIMIT_ERROR == 4
STREAM_STATE_ERROR == 5
FINAL_SIZE_ERROR == 6
FRAME_ENCODING_ERROR == 7
PROTOCOL_VIOLATION == 10

VARIABLES cfg,        \* [Ep -> limits record of the endpoint's own configuration]
          advSD,      \* [Ep -> [Sids -> Nat]] stream-data limit advertised for data the endpoint RECEIVES on sid
          advD,       \* [Ep -> Nat]
          advStreams, \* [Ep -> [BOOLEAN -> Nat]] cumulative streams the peer may open
          recvEnd,    \* [Ep -> [Sids -> Nat]] highest end offset received
          finalSz,    \* [Ep -> [Sids -> Int]]
          done,       \* [Ep -> set of sid] receive side in a terminal state (reset received, stopped by the application, end read)
          opened,     \* [Ep -> [BOOLEAN -> Nat]] streams opened by the local application
          consumed,   \* [Ep -> [Sids -> Nat]] bytes the application obtained
          mustClose   \* [Ep -> set of admissible codes, or {} ] a violation was processed: the endpoint must close with one of them
rrvars == <<cfg, advSD, advD, advStreams, recvEnd, finalSz, done, opened, consumed, mustClose>>

\* limit for data RECEIVED by e on stream sid, from e's own configuration c
InitialRecvSD(e, sid, c) ==
  IF ~IsBidi(sid) THEN c.sd_uni ELSE IF Initiator(sid) = e THEN c.sd_bidi_local ELSE c.sd_bidi_remote
RRState(cc, cs) == LET c == [e \in Ep |-> IF e = "c" THEN cc ELSE cs] IN
  [ cfg |-> c,
    advSD |-> [e \in Ep |-> [s \in Sids |-> InitialRecvSD(e, s, c[e])]],
    advD |-> [e \in Ep |-> c[e].data_window],
    advStreams |-> [e \in Ep |-> [b \in BOOLEAN |-> IF b THEN c[e].streams_bidi ELSE c[e].streams_uni]],
    recvEnd |-> [e \in Ep |-> [s \in Sids |-> 0]], finalSz |-> [e \in Ep |-> [s \in Sids |-> None]],
    done |-> [e \in Ep |-> {}], opened |-> [e \in Ep |-> [b \in BOOLEAN |-> 0]],
    consumed |-> [e \in Ep |-> [s \in Sids |-> 0]], mustClose |-> [e \in Ep |-> {}] ]

RECURSIVE SumF(_, _)
SumF(f, S) == IF S = {} THEN 0 ELSE LET x == CHOOSE y \in S : TRUE IN f[x] + SumF(f, S \ {x})
ConnReceived(e, sid, end) == SumF([s \in Sids |-> IF s = sid THEN Max2(end, recvEnd[e][s]) ELSE recvEnd[e][s]], {s \in Sids : recvEnd[e][s] > 0 \/ s = sid})

\* The limit a violation is judged against: what e has ADVERTISED, or - if larger - what it is entitled to advertise at this
\* moment (bytes its application consumed + configured window): the endpoint enforces its own up-to-date credit, a MAX_DATA /
\* MAX_STREAM_DATA frame announcing it may still be waiting for a transmission opportunity.  Data between the two values
\* cannot come from an honest peer; accepting it stays within the buffering bound of the property.
ConnConsumed(e) == SumF(consumed[e], {s \in Sids : consumed[e][s] > 0})
ConnLimit(e) == Max2(advD[e], ConnConsumed(e) + cfg[e].data_window)
StreamLimit(e, sid) == Max2(advSD[e][sid], consumed[e][sid] + InitialRecvSD(e, sid, cfg[e]))

\* may the peer address this stream at all?  {} = yes, otherwise the admissible error codes
DirectionVerdict(e, sid, needsRecvSide, needsSendSide) ==
  IF Initiator(sid) = e
  THEN IF Ordinal(sid) >= opened[e][IsBidi(sid)] THEN {STREAM_STATE_ERROR}          \* locally initiated, not yet opened
       ELSE IF ~IsBidi(sid) /\ needsRecvSide THEN {STREAM_STATE_ERROR}              \* send-only stream
       ELSE {}
  ELSE IF Ordinal(sid) >= advStreams[e][IsBidi(sid)] THEN {STREAM_LIMIT_ERROR}      \* beyond MAX_STREAMS
       ELSE IF ~IsBidi(sid) /\ needsSendSide THEN {STREAM_STATE_ERROR}              \* receive-only stream
       ELSE {}

StreamVerdict(e, sid, off, len, fin) ==
  LET end == off + len
      d == DirectionVerdict(e, sid, TRUE, FALSE) IN
  IF d # {} THEN d
  ELSE (IF end > StreamLimit(e, sid) \/ ConnReceived(e, sid, end) > ConnLimit(e) THEN {FLOW_CONTROL_ERROR} ELSE {})
       \cup (IF (finalSz[e][sid] # None /\ (end > finalSz[e][sid] \/ (fin /\ end # finalSz[e][sid]))) \/ (fin /\ end < recvEnd[e][sid])
             THEN {FINAL_SIZE_ERROR} ELSE {})
ResetVerdict(e, sid, final) ==
  LET d == DirectionVerdict(e, sid, TRUE, FALSE) IN
  IF d # {} THEN d
  \* a final size can break the flow-control limit and contradict what is known of the stream at once: either code is right
  ELSE (IF final > StreamLimit(e, sid) \/ ConnReceived(e, sid, final) > ConnLimit(e) THEN {FLOW_CONTROL_ERROR} ELSE {})
       \cup (IF final < recvEnd[e][sid] \/ (finalSz[e][sid] # None /\ final # finalSz[e][sid]) THEN {FINAL_SIZE_ERROR} ELSE {})
\* MAX_STREAM_DATA / STOP_SENDING address the SENDING side of the stream at e
SendSideVerdict(e, sid) == DirectionVerdict(e, sid, FALSE, TRUE)

\* every set of admissible codes also admits the generic PROTOCOL_VIOLATION (RFC 9000 section 11 / 20.1)
Admissible(codes) == codes \cup {PROTOCOL_VIOLATION}
=============================================================================

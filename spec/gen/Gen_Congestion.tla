---------------------------- MODULE Gen_Congestion ----------------------------
(* Behaviours of the Congestion machine with the machine's state after every step.  The harness runs each one on
   the real CubicCongestionController (and the event sequence alone on the BBR controller), under several time
   scales, compares what the machine determines and records what the controllers report for Trace_Congestion. *)
EXTENDS Congestion, Json
CONSTANT Depth
VARIABLE h
St == [cwnd |-> cwnd', bif |-> bif', st |-> st', req |-> reqTx', under |-> under', mss |-> mss']
GInit == (\E m \in MssSet : CInit(m)) /\ h = <<[op |-> "init", mss |-> mss, m |-> [cwnd |-> cwnd, bif |-> 0, st |-> "ss", req |-> FALSE, under |-> TRUE, mss |-> mss]]>>
Ids(S) == LET RECURSIVE F(_) F(T) == IF T = {} THEN <<>> ELSE LET x == CHOOSE y \in T : \A z \in T : y <= z IN <<x>> \o F(T \ {x}) IN F(S)
GNext ==
  /\ Len(h) < Depth
  /\ \/ \E s \in Sizes, a \in {"yes", "no", "none"} : Send(s, a) /\ h' = Append(h, [op |-> "send", size |-> s, app |-> a, m |-> St])
     \/ \E S \in AckSets, g \in {"up", "same", "down"} : Ack(S, g) /\ h' = Append(h, [op |-> "ack", ids |-> Ids(S), det |-> under, m |-> St])
     \/ \E x \in DOMAIN out, p \in BOOLEAN : Lost(x, p) /\ h' = Append(h, [op |-> "lost", id |-> x, persistent |-> p, m |-> St])
     \/ Ecn /\ h' = Append(h, [op |-> "ecn", m |-> St])
     \/ \E mm \in MssSet : Mtu(mm) /\ h' = Append(h, [op |-> "mtu", mss |-> mm, m |-> St])
     \/ \E x \in DOMAIN out : Discard(x) /\ h' = Append(h, [op |-> "discard", id |-> x, m |-> St])
     \/ \E d \in TickSet : Tick(d) /\ h' = Append(h, [op |-> "tick", d |-> d, m |-> St])
GSpec == GInit /\ [][GNext]_<<cvars, h>>
Emit == Len(h) = Depth => PrintT(ToJson(h))
=============================================================================

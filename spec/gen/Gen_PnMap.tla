----------------------------- MODULE Gen_PnMap -----------------------------
EXTENDS PnMap, TLC, Json
CONSTANTS Pns, Depth
VARIABLE h
Obs == [entries |-> Entries(m', DOMAIN m'), empty |-> (DOMAIN m' = {})]
GInit == MInit /\ h = <<>>
NextVal == 10 * (Len(h) + 1)
GInsert == \E pn \in Pns : Insert(pn, NextVal) /\ h' = Append(h, [op |-> "insert", pn |-> pn, v |-> NextVal, obs |-> Obs])
GInsertOrUpdate == \E pn \in Pns : InsertOrUpdate(pn, NextVal, 1) /\ h' = Append(h, [op |-> "upsert", pn |-> pn, v |-> NextVal, obs |-> Obs])
GRemove == \E pn \in Pns : Remove(pn) /\ h' = Append(h, [op |-> "remove", pn |-> pn, res |-> RemoveResult(pn), obs |-> Obs])
GRemoveRange == \E lo \in Pns, hi \in Pns : lo <= hi /\ RemoveRange(lo, hi) /\ h' = Append(h, [op |-> "rrange", lo |-> lo, hi |-> hi, res |-> RemoveRangeResult(lo, hi), obs |-> Obs])
GClear == Clear /\ h' = Append(h, [op |-> "clear", obs |-> Obs])
GNext == Len(h) < Depth /\ (GInsert \/ GInsertOrUpdate \/ GRemove \/ GRemoveRange \/ GClear)
GSpec == GInit /\ [][GNext]_<<m, h>>
\* behaviours that end early (no operation enabled is impossible: remove is always enabled)
Emit == Len(h) = Depth => PrintT(ToJson(h))
=============================================================================

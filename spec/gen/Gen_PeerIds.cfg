SPECIFICATION GSpec
CONSTANTS
  Rotate = TRUE
  ActiveLimit = 3
  RetiredLimit = 6
  MaxSeq = 9
  MaxPn = 12
  Dishonest = FALSE
  Depth = 30
INVARIANTS Emit
CHECK_DEADLOCK FALSE

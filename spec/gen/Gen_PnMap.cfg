SPECIFICATION GSpec
CONSTANTS
  Pns = {0, 1, 2, 7, 8, 9, 17}
  Depth = 4
INVARIANT Emit
CHECK_DEADLOCK FALSE

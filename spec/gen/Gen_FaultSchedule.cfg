SPECIFICATION GSpec
CONSTANTS
  N = 8
  MaxFaults = 1
INVARIANT Emit
CHECK_DEADLOCK FALSE

SPECIFICATION GSpec
CONSTANTS
  W = 896
  MaxId = 3000
  Ids = {0, 1, 2, 894, 895, 896, 897, 898, 1791, 1792, 1793, 2999, 3000}
  Depth = 4
INVARIANTS Emit RWTypeOK
CHECK_DEADLOCK FALSE

SPECIFICATION GSpec
CONSTANTS
  W = 896
  MaxId = 3000
  Ids = {0, 1, 2, 895, 896, 897, 1792, 1793, 3000, 10000, 10001, 10895, 10896, 10897, 12000}
  Depth = 4
INVARIANTS Emit RWTypeOK
CHECK_DEADLOCK FALSE

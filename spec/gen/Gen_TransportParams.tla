------------------------- MODULE Gen_TransportParams -------------------------
(* Enumerates transport-parameter blocks as BYTES: every single candidate entry, every ordered pair
   of candidates, selected triples (permutations, a duplicate anywhere), truncations.  For each
   block and each sender role it prints the bytes, the verdict and the effective limits of the
   specification.  Candidates put every parameter at, just inside and just outside each bound. *)
EXTENDS TransportParams, Json

B(n) == BigOfNat(n)
V(v) == VarIntEncode(v)
Rep(x, n) == [i \in 1..n |-> x]

IntCands(id, vals) == {[id |-> id, body |-> V(v)] : v \in vals}
Generic == {BigZero, B(63), B(64), B(16383), B(16384), B(1073741823), B(1073741824), VarIntMax}

Candidates ==
  UNION {IntCands(id, Generic) : id \in {1, 4, 5, 6, 7, 32}}
  \cup IntCands(3, {B(0), B(1199), B(1200), B(1500), B(65527), B(65528), VarIntMax})
  \cup IntCands(8, {BigZero, B(100), BigDec(Pow2(60)), Pow2(60), BigInc(Pow2(60)), VarIntMax})
  \cup IntCands(9, {BigZero, B(100), Pow2(60), BigInc(Pow2(60))})
  \cup IntCands(10, {BigZero, B(3), B(20), B(21), B(63), B(64), B(255), B(256)})
  \cup IntCands(11, {BigZero, B(25), B(16383), B(16384), B(16385), VarIntMax})
  \cup IntCands(14, {BigZero, B(1), B(2), B(3), B(8), VarIntMax})
  \* non-minimal but legal integer encodings (RFC 9000 section 16 allows any width)
  \cup {[id |-> 10, body |-> VarIntEncodeW(B(20), 2)], [id |-> 11, body |-> VarIntEncodeW(B(25), 8)],
        [id |-> 4, body |-> VarIntEncodeW(B(5), 4)], [id |-> 14, body |-> VarIntEncodeW(B(2), 2)]}
  \* integer bodies that do not fill / overfill the declared length
  \cup {[id |-> 4, body |-> <<>>], [id |-> 4, body |-> <<5, 0>>], [id |-> 11, body |-> <<64>>], [id |-> 1, body |-> <<128, 0, 1>>]}
  \* flag
  \cup {[id |-> 12, body |-> <<>>], [id |-> 12, body |-> <<0>>]}
  \* connection ids and token
  \cup {[id |-> i, body |-> Rep(7, n)] : i \in {0, 15, 16}, n \in {0, 8, 20, 21}}
  \cup {[id |-> 2, body |-> Rep(9, n)] : n \in {0, 15, 16, 17}}
  \* preferred address: v4 127.0.0.1:443, v6 zero, cid 8 bytes, token
  \cup {[id |-> 13, body |-> <<127, 0, 0, 1, 1, 187>> \o Rep(0, 18) \o <<8>> \o Rep(3, 8) \o Rep(4, 16)],
        [id |-> 13, body |-> Rep(0, 24) \o <<8>> \o Rep(3, 8) \o Rep(4, 16)],
        [id |-> 13, body |-> <<127, 0, 0, 1, 1, 187>> \o Rep(0, 18) \o <<0>> \o Rep(4, 16)],
        [id |-> 13, body |-> <<127, 0, 0, 1, 1, 187>> \o Rep(0, 18) \o <<8>> \o Rep(3, 8) \o Rep(4, 15)],
        [id |-> 13, body |-> <<127, 0, 0, 1, 1, 187>> \o Rep(0, 18) \o <<21>> \o Rep(3, 21) \o Rep(4, 16)],
        [id |-> 13, body |-> <<1, 2, 3>>]}
  \* unknown ids (incl. reserved 31*N+27) with lengths 0, 1, 63, 64
  \cup {[id |-> i, body |-> Rep(170, n)] : i \in {27, 58, 33, 16447, 999999}, n \in {0, 1, 63, 64}}

Enc(e) == EncodeEntry(e.id, e.body)

\* selected triples: three distinct integer parameters in every order, and a duplicate at any position
TripleBase == <<[id |-> 4, body |-> V(B(1000))], [id |-> 11, body |-> V(B(30))], [id |-> 14, body |-> V(B(4))]>>
Perms3 == {<<1,2,3>>, <<1,3,2>>, <<2,1,3>>, <<2,3,1>>, <<3,1,2>>, <<3,2,1>>}
Triples == {Enc(TripleBase[p[1]]) \o Enc(TripleBase[p[2]]) \o Enc(TripleBase[p[3]]) : p \in Perms3}
           \cup {Enc(TripleBase[a]) \o Enc(TripleBase[b]) \o Enc(TripleBase[c]) : a, b, c \in 1..3}
Full == Enc(TripleBase[1]) \o Enc(TripleBase[2]) \o Enc(TripleBase[3])
Truncated == {Take(Full, n) : n \in 0..Len(Full)}

Blocks(mode) ==
  CASE mode = "single" -> {Enc(e) : e \in Candidates} \cup Triples \cup Truncated \cup {<<>>}
    [] mode = "pairs" -> {Enc(a) \o Enc(b) : a \in Candidates, b \in Candidates}

CONSTANT Mode
VARIABLES blk, role
Out == [bytes |-> blk, role |-> role, verdict |-> Verdict(role, blk), f6 |-> HasNonMinimalAckDelayExponent(blk),
        eff |-> IF Verdict(role, blk) = "accept" THEN Effective(blk) ELSE [none |-> TRUE]]
GInit == blk \in Blocks(Mode) /\ role \in {"client", "server"}
GNext == UNCHANGED <<blk, role>>
GSpec == GInit /\ [][GNext]_<<blk, role>>
Emit == PrintT(ToJson(Out))
=============================================================================

-------------------------- MODULE Gen_ReplayWindow --------------------------
(* every sequence of Depth key ids over the window-edge alphabet, with the verdicts and the
   minimum-unseen id the model predicts (real W = 896; ids are relative to a base the harness adds) *)
EXTENDS ReplayWindow, Sequences, TLC, Json
CONSTANTS Ids, Depth
VARIABLE h
GInit == RWInit /\ h = <<>>
GNext == Len(h) < Depth /\ \E id \in Ids : LET r == Verdict(id) IN
            Receive(id, r) /\ h' = Append(h, [id |-> id, res |-> r, minunseen |-> MinUnseen'])
GSpec == GInit /\ [][GNext]_<<rwvars, h>>
Emit == Len(h) = Depth => PrintT(ToJson(h))
=============================================================================

SPECIFICATION GSpec
CONSTANTS
  ConfLimit = 3
  Window = 1
  IntegrityLimit = 3
  MaxPn = 5
  FixF2 = TRUE
  Depth = 6
INVARIANTS Emit UsageWithinLimit GenMonotoneInPn ActiveNeverOlder
CHECK_DEADLOCK FALSE

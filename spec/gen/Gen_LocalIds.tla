---------------------------- MODULE Gen_LocalIds ----------------------------
(* Behaviours of the LocalIds machine (call sequences of the connection ID registry with the machine's view after every
   call).  The harness performs each call on the real LocalIdRegistry (one tick = 15 s, so Buffer = 2 ticks is the
   30 s EXPIRATION_BUFFER and Settle = 1 tick is 3 * RTT with RTT = 5 s) and records what the registry does for
   Trace_LocalIds; agreement with the machine's frames is reported, the rules are decided by the trace specification. *)
EXTENDS LocalIds, Json
CONSTANT Depth
VARIABLE h
SetToSeq(S) == LET RECURSIVE F(_) F(T) == IF T = {} THEN <<>> ELSE LET x == CHOOSE y \in T : \A z \in T : y <= z IN <<x>> \o F(T \ {x}) IN F(S)
M == [next |-> next', rpt |-> rpt', live |-> SetToSeq(DOMAIN ids'), now |-> now']
GInit == LInit /\ h = <<[op |-> "init", limit |-> Limit, rotate |-> Rotate, lifetime |-> Lifetime]>>
GNext ==
  /\ Len(h) < Depth
  /\ \/ Register /\ h' = Append(h, [op |-> "register", m |-> M])
     \/ \E k \in 1..3, lo \in BOOLEAN : Transmit(k, lo) /\ h' = Append(h, [op |-> "transmit", k |-> k, lostonly |-> lo, wrote |-> SetToSeq(Written(k, lo)), m |-> M])
     \/ \E p \in 1..MaxPn : Ack(p) /\ h' = Append(h, [op |-> "ack", pn |-> p, m |-> M])
     \/ \E p \in 1..MaxPn : Lose(p) /\ h' = Append(h, [op |-> "lose", pn |-> p, m |-> M])
     \/ \E s, d \in 0..MaxSeq : PeerRetire(s, d) /\ h' = Append(h, [op |-> "retire", seq |-> s, dcid |-> d, m |-> M])
     \/ HandshakeConfirmed /\ h' = Append(h, [op |-> "confirm", m |-> M])
     \/ Tick /\ h' = Append(h, [op |-> "tick", m |-> M])
     \/ Timeout /\ h' = Append(h, [op |-> "timeout", m |-> M])
GSpec == GInit /\ [][GNext]_<<lvars, h>>
Emit == Len(h) = Depth => PrintT(ToJson(h))
=============================================================================

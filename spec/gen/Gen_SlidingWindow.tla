------------------------- MODULE Gen_SlidingWindow -------------------------
EXTENDS SlidingWindow, Sequences, TLC, Json
CONSTANTS Pns, Depth
VARIABLE h
GInit == WInit /\ h = <<>>
RECURSIVE SetToSeq(_)
SetToSeq(S) == IF S = {} THEN <<>> ELSE LET x == SetMin(S) IN <<x>> \o SetToSeq(S \ {x})
GInsert == \E pn \in Pns : LET r == Verdict(pn) IN
   Insert(pn, r) /\ h' = Append(h, [op |-> "insert", pn |-> pn, res |-> r, evicted |-> SetToSeq(IF r = "ok" THEN Evicted(pn) ELSE {}),
                                   probes |-> [q \in Pns |-> IF edge' = None THEN "ok" ELSE IF q > edge' THEN "ok" ELSE IF q = edge' THEN "dup" ELSE IF edge' - q >= W THEN "old" ELSE IF q \in seen' THEN "dup" ELSE "ok"]])
GNext == Len(h) < Depth /\ GInsert
GSpec == GInit /\ [][GNext]_<<edge, seen, h>>
Emit == Len(h) = Depth => PrintT(ToJson(h))
=============================================================================

------------------------------ MODULE Gen_Frames ------------------------------
(* Enumerates frames of every type with every integer field at the edges of the four integer widths (and 2^60 for the
   stream-count frames), with empty / short / 64-byte opaque parts, as [f, bytes] where bytes is the canonical image
   of the reference encoder.  The harness decodes the bytes with the real decoder (must yield f), re-encodes with the
   real encoder (must yield the same bytes, and the announced size), and checks the reference parser on the way. *)
EXTENDS Frames, Json
B(n) == BigOfNat(n)
Rep(x, n) == [i \in 1..n |-> (x + i) % 256]
Edge == {BigZero, B(63), B(64), B(16383), B(16384), B(1073741823), B(1073741824), VarIntMax}
Few == {BigZero, B(64), VarIntMax}
Datas == {<<>>, <<7>>, Rep(0, 63), Rep(9, 64)}
F(ty, big, nat, data) == [ty |-> ty, big |-> big, nat |-> nat, data |-> data]
\* ACK frames: descending ranges given as offsets from a largest value; all must stay >= 0
AckCases ==
  {F("ack", <<d, BigSub(l, B(a)), l>>, <<1, e>>, <<>>) : d \in Few, l \in {B(5), B(16384), VarIntMax}, a \in {0, 1, 5}, e \in {0}}
  \cup {F("ack", <<d, BigSub(l, B(1)), l, BigSub(l, B(4 + g)), BigSub(l, B(3 + g))>>, <<2, 0>>, <<>>) : d \in {BigZero}, l \in {B(80), B(1073741824), VarIntMax}, g \in {0, 1, 62, 63}}
  \cup {F("ack", <<B(9), BigSub(l, B(1)), l, BigSub(l, B(9)), BigSub(l, B(4)), BigSub(l, B(70)), BigSub(l, B(11)), x, y, z>>, <<3, 1>>, <<>>) :
          l \in {B(70), VarIntMax}, x \in {BigZero, VarIntMax}, y \in {B(64)}, z \in {BigZero, B(16384)}}
Cases(group) ==
  CASE group = 1 ->
         {F("ping", <<>>, <<>>, <<>>), F("handshake_done", <<>>, <<>>, <<>>)}
         \cup {F("reset_stream", <<a, b, c>>, <<>>, <<>>) : a \in Edge, b \in Few, c \in Few}
         \cup {F("reset_stream", <<a, b, c>>, <<>>, <<>>) : a \in Few, b \in Edge, c \in Edge}
         \cup {F("stop_sending", <<a, b>>, <<>>, <<>>) : a \in Edge, b \in Edge}
         \cup {F(t, <<a>>, <<>>, <<>>) : t \in {"max_data", "data_blocked", "retire_connection_id"}, a \in Edge}
         \cup {F(t, <<a, b>>, <<>>, <<>>) : t \in {"max_stream_data", "stream_data_blocked"}, a \in Edge, b \in Edge}
         \cup {F(t, <<a>>, <<k>>, <<>>) : t \in {"max_streams", "streams_blocked"}, k \in {0, 1}, a \in (Edge \ {VarIntMax}) \cup {BigDec(Pow60), Pow60}}
    [] group = 2 ->
         {F("crypto", <<a>>, <<>>, d) : a \in Edge, d \in Datas}
         \cup {F("new_token", <<>>, <<>>, d) : d \in Datas \ {<<>>}}
         \cup {F("stream", <<a, o>>, <<fin, last>>, d) : a \in Edge, o \in Few \cup {B(1)}, fin \in {0, 1}, last \in {0, 1}, d \in Datas}
         \cup {F("datagram", <<>>, <<last>>, d) : last \in {0, 1}, d \in Datas}
         \cup {F("connection_close", <<c, t>>, <<0>>, d) : c \in Edge, t \in Few, d \in Datas}
         \cup {F("connection_close", <<c>>, <<1>>, d) : c \in Edge, d \in Datas}
    [] group = 3 ->
         {F("new_connection_id", <<s, IF z = 0 THEN BigZero ELSE s>>, <<n>> \o Rep(3, n) \o Rep(100, 16), <<>>) : s \in Edge, z \in {0, 1}, n \in {1, 8, 20}}
         \cup {F(t, <<>>, Rep(x, 8), <<>>) : t \in {"path_challenge", "path_response"}, x \in {0, 250}}
         \cup AckCases
CONSTANT Group
VARIABLE c
GInit == c \in Cases(Group)
GSpec == GInit /\ [][UNCHANGED c]_c
Emit == PrintT(ToJson([f |-> c, bytes |-> EncodeFrame(c), back |-> ParseFrame(EncodeFrame(c))]))
=============================================================================

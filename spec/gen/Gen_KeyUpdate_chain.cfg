SPECIFICATION GSpecChain
CONSTANTS
  ConfLimit = 4
  Window = 2
  IntegrityLimit = 6
  MaxPn = 40
  FixF2 = TRUE
  Depth = 70
INVARIANTS Emit
CHECK_DEADLOCK FALSE

---------------------------- MODULE Gen_RangeSet ----------------------------
(* All operation sequences of length Depth over values 0..MaxV on IntervalSet (Limit = 0) or on the
   capacity-bounded ACK range set (Limit > 0, operations ackinsert/remove/popmin). *)
EXTENDS RangeSet, Sequences, TLC, Json
CONSTANTS MaxV, Depth, Others
VARIABLE h
OthersDef == << {<<0,2>>}, {<<1,3>>, <<4,6>>}, {<<0,1>>, <<2,3>>, <<5,6>>}, {<<3,4>>} >>
Obs == [ivs |-> InclSeq(set'), count |-> IvLen(set'), n |-> IvCount(set')]
GInit == SInit /\ h = <<>>
Pairs == {p \in (0..MaxV) \X (0..MaxV) : p[1] <= p[2]}
GInsert == NoLimit /\ \E p \in Pairs : LET r == InsertVerdict(p[1], p[2]) IN
              Insert(p[1], p[2], r) /\ h' = Append(h, [op |-> "insert", lo |-> p[1], hi |-> p[2], res |-> r, obs |-> Obs])
GAckInsert == ~NoLimit /\ \E p \in Pairs : LET r == AckInsertVerdict(p[1], p[2]) IN
              AckInsert(p[1], p[2], r) /\ h' = Append(h, [op |-> "ackinsert", lo |-> p[1], hi |-> p[2], res |-> r, obs |-> Obs])
GRemove == \E p \in Pairs : LET r == RemoveVerdict(p[1], p[2]) IN
              Remove(p[1], p[2], r) /\ h' = Append(h, [op |-> "remove", lo |-> p[1], hi |-> p[2], res |-> r, obs |-> Obs])
GPopMin == PopMin /\ h' = Append(h, [op |-> "popmin", popped |-> PopMinResult, obs |-> Obs])
GClear == NoLimit /\ Clear /\ h' = Append(h, [op |-> "clear", obs |-> Obs])
GSetOp == NoLimit /\ \E i \in 1..Len(Others) :
            \/ UnionWith(Others[i]) /\ h' = Append(h, [op |-> "union", other |-> InclSeq(Others[i]), obs |-> Obs])
            \/ DifferenceWith(Others[i]) /\ h' = Append(h, [op |-> "difference", other |-> InclSeq(Others[i]), obs |-> Obs])
            \/ IntersectionWith(Others[i]) /\ h' = Append(h, [op |-> "intersection", other |-> InclSeq(Others[i]), obs |-> Obs])
GNext == Len(h) < Depth /\ (GInsert \/ GAckInsert \/ GRemove \/ GPopMin \/ GClear \/ GSetOp)
GSpec == GInit /\ [][GNext]_<<set, h>>
Emit == Len(h) = Depth => PrintT(ToJson(h))
TypeInv == STypeOK
=============================================================================

---------------------------- MODULE Gen_KeyUpdate ----------------------------
(* Behaviours of KeyUpdate (all of them up to Depth, or sampled long ones with -simulate) with the
   outcome of every step and the observable key-set state of both endpoints after it.  The
   harness replays each on two real KeySet<K> objects joined by a generation-tagging key. *)
EXTENDS KeyUpdate, TLC, Json
CONSTANT Depth
VARIABLE h
St == [e \in Ep |-> [phase |-> phase'[e], timer |-> timer'[e], agen |-> slot'[e][phase'[e]].gen,
                    aenc |-> slot'[e][phase'[e]].enc, rot |-> rotations'[e], closed |-> closed'[e]]]
GInit == KInit /\ h = <<>>
GNext == Len(h) < Depth /\ KNext /\ h' = Append(h, [step |-> last', st |-> St])
GSpec == GInit /\ [][GNext]_<<kvars, h>>
\* one-directional flow a -> b (many consecutive updates, old packets delivered late)
ChainNext == Encrypt("a") \/ (\E p \in net : Deliver("b", p)) \/ TimerFire("b") \/ TimerFire("a") \/ Encrypt("b") \/ (\E p \in net : Deliver("a", p) /\ p.pn = nextPn["b"] - 1)
GSpecChain == GInit /\ [][Len(h) < Depth /\ ChainNext /\ h' = Append(h, [step |-> last', st |-> St])]_<<kvars, h>>
Emit == (Len(h) = Depth \/ (Len(h) > 0 /\ \A e \in Ep : closed[e])) => PrintT(ToJson(h))
\* in simulation mode behaviours end when no packets may be sent any more; emit at the bound
=============================================================================

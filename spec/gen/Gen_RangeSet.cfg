SPECIFICATION GSpec
CONSTANTS
  Limit = 0
  MaxV = 5
  Depth = 3
  Others <- OthersDef
INVARIANTS Emit TypeInv
CHECK_DEADLOCK FALSE

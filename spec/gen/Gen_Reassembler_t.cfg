SPECIFICATION GSpec
CONSTANTS
  MaxOffset = 7
  Offsets = {0,1,2,3,4,5}
  Lens = {0,1,2,3}
  Marks = {0,1,2,9}
  Skips = {0,1,2,3}
  Depth = 4
INVARIANT Emit
CHECK_DEADLOCK FALSE

SPECIFICATION GSpec
CONSTANTS
  MssSet = {1200, 1500, 9000}
  Sizes = {90, 1200}
  MaxPackets = 60
  MaxTime = 1000
  TickSet = {1, 3}
  Depth = 60
INVARIANTS Emit
CHECK_DEADLOCK FALSE

--------------------------- MODULE Gen_Reassembler ---------------------------
(* Behaviour generator: every operation sequence of length Depth over a small unit alphabet,
   each step annotated with the verdict and all observers the reference model predicts.
   One JSON line per behaviour; the harness replays each under several affine embeddings. *)
EXTENDS Reassembler, Sequences, TLC, Json

CONSTANTS Offsets, Lens, Marks, Skips, Depth
VARIABLE h
gvars == <<rvars, h>>

Obs == [len |-> ObsLen', consumed |-> ObsConsumed', total |-> ObsTotal', final |-> ObsFinal',
        wc |-> ObsWritingComplete', rc |-> ObsReadingComplete', empty |-> ObsIsEmpty']

GInit == RInit /\ h = <<>>
GWrite == \E o \in Offsets, n \in Lens, fin \in BOOLEAN :
            LET res == WriteVerdict(o, n, fin) IN
            /\ Write(o, n, fin, res)
            /\ h' = Append(h, [op |-> "write", o |-> o, n |-> n, fin |-> fin, res |-> res, obs |-> Obs])
\* drain(w): pop with watermark until w bytes were obtained or nothing is available
GDrain == \E w \in Marks :
            LET n == Min2(w, Contiguous) IN
            /\ start' = start + n /\ rcvd' = IvRemoveBelow(rcvd, start + n) /\ UNCHANGED <<maxRecv, final>>
            /\ h' = Append(h, [op |-> "drain", w |-> w, n |-> n, obs |-> Obs])
GSkip == \E n \in Skips :
            LET res == SkipVerdict(n) IN
            /\ Skip(n, res)
            /\ h' = Append(h, [op |-> "skip", n |-> n, res |-> res, obs |-> Obs])
GReset == Reset /\ h' = Append(h, [op |-> "reset", obs |-> Obs])
GNext == Len(h) < Depth /\ (GWrite \/ GDrain \/ GSkip \/ GReset)
GSpec == GInit /\ [][GNext]_gvars
Emit == Len(h) = Depth => PrintT(ToJson(h))
=============================================================================

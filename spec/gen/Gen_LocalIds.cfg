SPECIFICATION GSpec
CONSTANTS
  Limit = 3
  Rotate = TRUE
  Lifetime = 5
  Buffer = 2
  Settle = 1
  MaxSeq = 12
  MaxTime = 40
  MaxPn = 20
  Depth = 40
INVARIANTS Emit
CHECK_DEADLOCK FALSE

SPECIFICATION GSpec
CONSTANTS
  Group = 1
INVARIANT Emit
CHECK_DEADLOCK FALSE

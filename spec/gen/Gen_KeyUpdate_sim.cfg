SPECIFICATION GSpec
CONSTANTS
  ConfLimit = 4
  Window = 2
  IntegrityLimit = 6
  MaxPn = 30
  FixF2 = TRUE
  Depth = 45
INVARIANTS Emit
CHECK_DEADLOCK FALSE

SPECIFICATION GSpec
CONSTANTS
  W = 129
  Pns = {0, 1, 2, 127, 128, 129, 130, 131, 257, 258, 259, 400}
  Depth = 4
INVARIANTS Emit WTypeOK
CHECK_DEADLOCK FALSE

SPECIFICATION GSpec
CONSTANTS
  MssSet = {1200, 9000}
  Sizes = {1200}
  MaxPackets = 3
  MaxTime = 2
  TickSet = {1}
  Depth = 6
INVARIANTS Emit
CHECK_DEADLOCK FALSE

---------------------------- MODULE Gen_PeerIds ----------------------------
(* Behaviours of the PeerIds machine: call sequences for the real PeerIdRegistry (NEW_CONNECTION_ID frames of an honest and
   of a misbehaving issuer in any order, ids taken for paths, transmission opportunities, acknowledgements and losses of
   the packets that carried RETIRE_CONNECTION_ID), with the machine's verdict and usable ids after every call. *)
EXTENDS PeerIds, Json
CONSTANT Depth
VARIABLE h
SetToSeq(S) == LET RECURSIVE F(_) F(T) == IF T = {} THEN <<>> ELSE LET x == CHOOSE y \in T : \A z \in T : y <= z IN <<x>> \o F(T \ {x}) IN F(S)
M == [failed |-> failed', active |-> SetToSeq({s \in DOMAIN ids' : ids'[s].st \in {"N", "U", "UP"}}), rpt |-> rpt']
GInit == PInit /\ h = <<[op |-> "init", rotate |-> Rotate]>>
GNext ==
  /\ Len(h) < Depth
  /\ \/ \E f \in HonestFrames : f[2] <= f[1] /\ NewCid(f[1], f[2], f[3], f[4]) /\ h' = Append(h, [op |-> "newcid", seq |-> f[1], rpt |-> f[2], cid |-> f[3], tok |-> f[4], m |-> M])
     \/ (Dishonest /\ \E s \in 1..MaxSeq, r \in 0..MaxSeq, c \in 0..MaxSeq, t \in 1..MaxSeq : r <= s /\ NewCid(s, r, c, t) /\ h' = Append(h, [op |-> "newcid", seq |-> s, rpt |-> r, cid |-> c, tok |-> t, m |-> M]))
     \/ Consume /\ h' = Append(h, [op |-> "consume", m |-> M])
     \/ \E k \in 1..2, lo \in BOOLEAN : Transmit(k, lo) /\ h' = Append(h, [op |-> "transmit", k |-> k, lostonly |-> lo, wrote |-> SetToSeq(TransmitSet(k, lo)), m |-> M])
     \/ \E p \in 1..MaxPn : Ack(p) /\ h' = Append(h, [op |-> "ack", pn |-> p, m |-> M])
     \/ \E p \in 1..MaxPn : Lose(p) /\ h' = Append(h, [op |-> "lose", pn |-> p, m |-> M])
GSpec == GInit /\ [][GNext]_<<pvars, h>>
Emit == (Len(h) = Depth \/ failed # "no") => PrintT(ToJson(h))
=============================================================================

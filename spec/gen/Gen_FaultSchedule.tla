--------------------------- MODULE Gen_FaultSchedule ---------------------------
(* Network fault schedules for the first datagrams of a connection, enumerated by TLC: every way of choosing at most
   MaxFaults of the first N datagrams of each direction and giving each a fault (drop / duplicate / delay past its
   successors).  The harness runs the real client and server under each schedule (h-quic `sched`), the traces are
   validated by the same trace specifications as the sampled runs.  Exhaustive in the positions and kinds of the
   faults; sizes, timing and everything after the first N datagrams are fixed by the base scenario. *)
EXTENDS Naturals, FiniteSets, Sequences, TLC, Json
CONSTANTS N, MaxFaults
Slots == {"c2s", "s2c"} \X (0..(N - 1))
Acts == {"drop", "dup", "hold"}
VARIABLE sched
\* a schedule: a function from the chosen slots to actions
Schedules == UNION {[S -> Acts] : S \in {T \in SUBSET Slots : Cardinality(T) <= MaxFaults}}
GInit == sched \in Schedules
GSpec == GInit /\ [][UNCHANGED sched]_sched
AsList(f) == LET RECURSIVE L(_) L(S) == IF S = {} THEN <<>> ELSE LET s == CHOOSE x \in S : TRUE IN <<[dir |-> s[1], idx |-> s[2], act |-> f[s]]>> \o L(S \ {s}) IN L(DOMAIN f)
Emit == PrintT(ToJson(AsList(sched)))
=============================================================================

SPECIFICATION GSpec
CONSTANTS
  Mode = "single"
INVARIANT Emit
CHECK_DEADLOCK FALSE

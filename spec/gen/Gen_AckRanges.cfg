SPECIFICATION GSpec
CONSTANTS
  Limit = 2
  MaxV = 6
  Depth = 4
  Others <- OthersDef
INVARIANTS Emit TypeInv
CHECK_DEADLOCK FALSE

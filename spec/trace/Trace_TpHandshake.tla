-------------------------- MODULE Trace_TpHandshake --------------------------
(* C14 on live handshakes.  One endpoint (the victim) receives a transport-parameter block that was rewritten on its way
   into the handshake; what it must do is decided here from the bytes and from the connection ids seen on the wire:
     - the decision procedure of TransportParams (RFC 9000 7.4 / 18.2) says accept / reject / either for the block;
     - RFC 9000 7.3: initial_source_connection_id must be present and equal the Source Connection ID of the sender's
       first Initial; a client additionally requires original_destination_connection_id (= the Destination Connection ID
       of its own first Initial) and retry_source_connection_id exactly when it accepted a Retry (= the Retry's Source
       Connection ID);
     - reject or a connection-id mismatch: the victim ends the connection itself with TRANSPORT_PARAMETER_ERROR or
       PROTOCOL_VIOLATION and its handshake never completes; accept with matching ids: its handshake completes. *)
EXTENDS TransportParams, TraceLib
VARIABLES l, odcid, cIscid, sIscid, rScid, blk, victim, hsDone, closedBy
hvars == <<l, odcid, cIscid, sIscid, rScid, blk, victim, hsDone, closedBy>>
NoneS == <<256>>        \* "not seen" (not a byte string)
IsEvent(e) == l <= NRec /\ Rec[l].ev = e /\ l' = l + 1
TInit == l = 1 /\ odcid = NoneS /\ cIscid = NoneS /\ sIscid = NoneS /\ rScid = NoneS /\ blk = NoneS /\ victim = "none" /\ hsDone = {} /\ closedBy = <<>>
T_Reset == IsEvent("reset") /\ odcid' = NoneS /\ cIscid' = NoneS /\ sIscid' = NoneS /\ rScid' = NoneS /\ blk' = NoneS /\ victim' = "none" /\ hsDone' = {} /\ closedBy' = <<>>
IsLong(r) == r.first >= 128
IsRetry(r) == r.first >= 240
T_Dg == IsEvent("dg") /\ LET r == Rec[l] IN
  /\ odcid' = (IF odcid = NoneS /\ r.dir = "c2s" /\ IsLong(r) THEN r.dcid_raw ELSE odcid)
  /\ cIscid' = (IF cIscid = NoneS /\ r.dir = "c2s" /\ IsLong(r) THEN r.scid_raw ELSE cIscid)
  /\ rScid' = (IF rScid = NoneS /\ r.dir = "s2c" /\ IsRetry(r) /\ r.act = "pass" THEN r.scid_raw ELSE rScid)
  /\ sIscid' = (IF sIscid = NoneS /\ r.dir = "s2c" /\ IsLong(r) /\ ~IsRetry(r) THEN r.scid_raw ELSE sIscid)
  /\ UNCHANGED <<blk, victim, hsDone, closedBy>>
\* the block of the primary connection (a server creates a session per connection attempt: the last one before the handshake
\* completes is the one the victim processes)
T_Tampered == IsEvent("tp_tampered") /\ blk' = Rec[l].blk /\ victim' = Rec[l].victim /\ UNCHANGED <<odcid, cIscid, sIscid, rScid, hsDone, closedBy>>
T_Hs == IsEvent("handshake") /\ LET r == Rec[l] IN
  hsDone' = (IF r.conn = 0 /\ r.status \in {"Complete", "Confirmed"} THEN hsDone \cup {r.ep} ELSE hsDone)
  /\ UNCHANGED <<odcid, cIscid, sIscid, rScid, blk, victim, closedBy>>
T_Closed == IsEvent("conn_closed") /\ LET r == Rec[l] IN
  closedBy' = (IF r.conn = 0 /\ r.ep \notin DOMAIN closedBy THEN [e \in DOMAIN closedBy \cup {r.ep} |-> IF e = r.ep THEN r.error ELSE closedBy[e]] ELSE closedBy)
  /\ UNCHANGED <<odcid, cIscid, sIscid, rScid, blk, victim, hsDone>>

Entry(es, n) == IF \E i \in 1..Len(es) : es[i].id = Id(n) THEN es[CHOOSE i \in 1..Len(es) : es[i].id = Id(n)].body ELSE NoneS
CidsOk ==
  LET es == Parse(blk).entries IN
  IF victim = "c"
  THEN /\ Entry(es, 0) = odcid /\ Entry(es, 15) = sIscid
       /\ (IF rScid = NoneS THEN Entry(es, 16) = NoneS ELSE Entry(es, 16) = rScid)
  ELSE Entry(es, 15) = cIscid
Decision == Verdict(IF victim = "c" THEN "server" ELSE "client", blk)
T_End == IsEvent("sim_end") /\
  (victim # "none" =>
     LET bad == Decision = "reject" \/ (Parse(blk).ok /\ ~CidsOk)
         good == Decision = "accept" /\ CidsOk IN
     /\ bad => /\ victim \notin hsDone
               /\ victim \in DOMAIN closedBy /\ closedBy[victim].kind = "transport" /\ closedBy[victim].local /\ closedBy[victim].code \in {8, 10}
     /\ good => victim \in hsDone)
  /\ UNCHANGED <<odcid, cIscid, sIscid, rScid, blk, victim, hsDone, closedBy>>
TNext == T_Reset \/ T_Dg \/ T_Tampered \/ T_Hs \/ T_Closed \/ T_End
TSpec == TInit /\ [][TNext]_hvars
=============================================================================

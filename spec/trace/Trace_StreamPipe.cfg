SPECIFICATION TSpec
CONSTANT MaxStreamId = 63
INVARIANT PrefixInv
POSTCONDITION TraceAccepted
CHECK_DEADLOCK FALSE

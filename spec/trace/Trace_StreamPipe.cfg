SPECIFICATION TSpec
CONSTANT MaxStreamId = 255
INVARIANT PrefixInv
POSTCONDITION TraceAccepted
CHECK_DEADLOCK FALSE

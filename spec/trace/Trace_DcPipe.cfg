SPECIFICATION TSpec
CONSTANTS
  KnownF14 = TRUE
  IdleUs = 30000000
  SlackUs = 1000000
POSTCONDITION TraceAccepted
CHECK_DEADLOCK FALSE

SPECIFICATION TSpec
CONSTANT
  KnownF17 = TRUE
POSTCONDITION TraceAccepted
CHECK_DEADLOCK FALSE

SPECIFICATION TSpec
POSTCONDITION TraceAccepted
CHECK_DEADLOCK FALSE

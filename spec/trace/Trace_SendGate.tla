---------------------------- MODULE Trace_SendGate ----------------------------
(* C10 on live connections, one endpoint at a time: a congestion-controlled packet leaves in normal transmission
   mode only while the bytes in flight are below the congestion window.  RFC 9002 allowances, by name:
     - probe packets on PTO expiry (mode "probe"), MTU probes and path validation packets (not gated by the window);
     - one packet when a congestion event has just started a recovery period (fast retransmission).
   The window / in-flight pair is the one the endpoint published last for the path (recovery_metrics), advanced by the
   endpoint's own sends since.  Multi-path phases are skipped (per-path attribution of sends is not published). *)
EXTENDS Naturals, Sequences, TLC, TraceLib
VARIABLES l, cw, inflight, allowance, paths, ccflag, known, sentAt, lostSince, lastRed, mtuChanged, cubic, maxMtu,
          ackedAfter   \* a packet sent after the last shrink has been acknowledged since (the recovery period is over)
gvars == <<l, cw, inflight, allowance, paths, ccflag, known, sentAt, lostSince, lastRed, mtuChanged, cubic, maxMtu, ackedAfter>>
rvars == <<sentAt, lostSince, lastRed, mtuChanged, cubic, maxMtu, ackedAfter>>
None == 0 - 1
IsEvent(e) == l <= NRec /\ Rec[l].ev = e /\ l' = l + 1
TInit == l = 1 /\ cw = 0 /\ inflight = 0 /\ allowance = FALSE /\ paths = 1 /\ ccflag = <<>> /\ known = FALSE /\ sentAt = <<>> /\ lostSince = {} /\ lastRed = None /\ mtuChanged = FALSE /\ cubic = TRUE /\ maxMtu = 1500 /\ ackedAfter = FALSE
\* one endpoint per view: its congestion controller and largest datagram size come from the scenario
EpOf == IF NRec >= 2 /\ "ep" \in DOMAIN Rec[2] THEN Rec[2].ep ELSE "c"
T_Reset == IsEvent("reset") /\ cw' = 0 /\ inflight' = 0 /\ allowance' = FALSE /\ paths' = 1 /\ ccflag' = <<>> /\ known' = FALSE
           /\ sentAt' = <<>> /\ lostSince' = {} /\ lastRed' = None /\ mtuChanged' = FALSE /\ ackedAfter' = FALSE
           /\ LET sc == Rec[l].sc IN cubic' = (sc.c.cc = "cubic" /\ sc.s.cc = "cubic") /\ maxMtu' = (IF sc.c.max_mtu >= sc.s.max_mtu THEN sc.c.max_mtu ELSE sc.s.max_mtu)
Key(r) == <<r.sp, r.pn>>
T_TxP == IsEvent("txp") /\ LET r == Rec[l] IN
           ccflag' = [k \in DOMAIN ccflag \cup {Key(r)} |-> IF k = Key(r) THEN r.cc ELSE ccflag[k]]
           /\ UNCHANGED <<cw, inflight, allowance, paths, known, rvars>>
T_Metrics == IsEvent("metrics") /\ LET r == Rec[l] IN
           IF r.path = 0 THEN
             /\ cw' = r.cwnd /\ inflight' = r.bif /\ known' = TRUE /\ UNCHANGED <<allowance, paths, ccflag, sentAt, cubic, maxMtu>>
             /\ ackedAfter' = (IF known /\ r.cwnd < cw /\ ~mtuChanged /\ lostSince # {} THEN FALSE ELSE ackedAfter)
             \* CUBIC shrinks its window at most once per round trip: a shrink needs the loss of a packet that was sent AFTER the
             \* previous shrink (RFC 9002 7.3.1 / B.6: losses of packets sent before the recovery period began do not start a new
             \* one).  Not judged: multi-path phases, MTU changes (the window is rescaled), the collapse to the minimum window
             \* (persistent congestion), ECN.
             /\ (cubic /\ known /\ paths = 1 /\ ~mtuChanged /\ r.cwnd < cw /\ r.cwnd > 2 * maxMtu /\ lastRed # None /\ lostSince # {}) =>
                   \/ (\E pn \in lostSince : pn \notin DOMAIN sentAt \/ sentAt[pn] > lastRed)
                   \* ... or a whole round trip has passed since that shrink: a packet sent after it has been acknowledged.
                   \* (The controller then has left its Recovery state and reacts to the loss of ANY packet, also one sent
                   \* before the shrink - stricter RFC 9002 7.3.1 would not start a new recovery period for those - but the
                   \* two shrinks are more than a round trip apart, which is what the property demands.)
                   \/ ackedAfter
             /\ lastRed' = (IF known /\ r.cwnd < cw /\ ~mtuChanged /\ lostSince # {} THEN r.t ELSE lastRed)   \* only shrinks caused by a loss open a recovery period
             /\ lostSince' = {} /\ mtuChanged' = FALSE
           ELSE paths' = 2 /\ UNCHANGED <<cw, inflight, allowance, ccflag, known, rvars>>
T_Path == IsEvent("active_path") /\ paths' = 2 /\ UNCHANGED <<cw, inflight, allowance, ccflag, known, rvars>>
T_Lost == IsEvent("packet_lost") /\ allowance' = TRUE /\ lostSince' = (IF Rec[l].sp = "a" THEN lostSince \cup {Rec[l].pn} ELSE lostSince)
          /\ UNCHANGED <<cw, inflight, paths, ccflag, known, sentAt, lastRed, mtuChanged, cubic, maxMtu, ackedAfter>>
T_Ack == IsEvent("ack_range") /\ LET r == Rec[l] IN
           ackedAfter' = (ackedAfter \/ (r.sp = "a" /\ lastRed # None /\ \E pn \in DOMAIN sentAt : pn >= r.lo /\ pn <= r.hi /\ sentAt[pn] > lastRed))
           /\ UNCHANGED <<cw, inflight, allowance, paths, ccflag, known, sentAt, lostSince, lastRed, mtuChanged, cubic, maxMtu>>
T_Mtu == IsEvent("mtu_updated") /\ mtuChanged' = TRUE /\ UNCHANGED <<cw, inflight, allowance, paths, ccflag, known, sentAt, lostSince, lastRed, cubic, maxMtu, ackedAfter>>
T_Cong == IsEvent("congestion") /\ allowance' = TRUE /\ UNCHANGED <<cw, inflight, paths, ccflag, known, rvars>>
T_Sent == IsEvent("packet_sent") /\ LET r == Rec[l]
                                       cc == IF Key(r) \in DOMAIN ccflag THEN ccflag[Key(r)] ELSE FALSE IN
           /\ (cc /\ r.mode = "normal" /\ paths = 1 /\ known) => (inflight < cw \/ allowance)
           /\ inflight' = (IF cc THEN inflight + r.len ELSE inflight)
           /\ allowance' = (IF cc THEN FALSE ELSE allowance)
           /\ ccflag' = [k \in DOMAIN ccflag \ {Key(r)} |-> ccflag[k]]
           /\ sentAt' = (IF r.sp = "a" THEN [k \in DOMAIN sentAt \cup {r.pn} |-> IF k = r.pn THEN r.t ELSE sentAt[k]] ELSE sentAt)
           /\ UNCHANGED <<cw, paths, known, lostSince, lastRed, mtuChanged, cubic, maxMtu, ackedAfter>>
TNext == T_Mtu \/ T_Reset \/ T_TxP \/ T_Metrics \/ T_Path \/ T_Lost \/ T_Cong \/ T_Sent \/ T_Ack
TSpec == TInit /\ [][TNext]_gvars
=============================================================================

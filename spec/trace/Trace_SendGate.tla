---------------------------- MODULE Trace_SendGate ----------------------------
(* C10 on live connections, one endpoint at a time: a congestion-controlled packet leaves in normal transmission
   mode only while the bytes in flight are below the congestion window.  RFC 9002 allowances, by name:
     - probe packets on PTO expiry (mode "probe"), MTU probes and path validation packets (not gated by the window);
     - one packet when a congestion event has just started a recovery period (fast retransmission).
   The window / in-flight pair is the one the endpoint published last for the path (recovery_metrics), advanced by the
   endpoint's own sends since.  Multi-path phases are skipped (per-path attribution of sends is not published). *)
EXTENDS Naturals, Sequences, TLC, TraceLib
VARIABLES l, cw, inflight, allowance, paths, ccflag, known
gvars == <<l, cw, inflight, allowance, paths, ccflag, known>>
IsEvent(e) == l <= NRec /\ Rec[l].ev = e /\ l' = l + 1
TInit == l = 1 /\ cw = 0 /\ inflight = 0 /\ allowance = FALSE /\ paths = 1 /\ ccflag = <<>> /\ known = FALSE
T_Reset == IsEvent("reset") /\ cw' = 0 /\ inflight' = 0 /\ allowance' = FALSE /\ paths' = 1 /\ ccflag' = <<>> /\ known' = FALSE
Key(r) == <<r.sp, r.pn>>
T_TxP == IsEvent("txp") /\ LET r == Rec[l] IN
           ccflag' = [k \in DOMAIN ccflag \cup {Key(r)} |-> IF k = Key(r) THEN r.cc ELSE ccflag[k]]
           /\ UNCHANGED <<cw, inflight, allowance, paths, known>>
T_Metrics == IsEvent("metrics") /\ LET r == Rec[l] IN
           IF r.path = 0 THEN cw' = r.cwnd /\ inflight' = r.bif /\ known' = TRUE /\ UNCHANGED <<allowance, paths, ccflag>>
           ELSE paths' = 2 /\ UNCHANGED <<cw, inflight, allowance, ccflag, known>>
T_Path == IsEvent("active_path") /\ paths' = 2 /\ UNCHANGED <<cw, inflight, allowance, ccflag, known>>
T_Lost == IsEvent("packet_lost") /\ allowance' = TRUE /\ UNCHANGED <<cw, inflight, paths, ccflag, known>>
T_Cong == IsEvent("congestion") /\ allowance' = TRUE /\ UNCHANGED <<cw, inflight, paths, ccflag, known>>
T_Sent == IsEvent("packet_sent") /\ LET r == Rec[l]
                                       cc == IF Key(r) \in DOMAIN ccflag THEN ccflag[Key(r)] ELSE FALSE IN
           /\ (cc /\ r.mode = "normal" /\ paths = 1 /\ known) => (inflight < cw \/ allowance)
           /\ inflight' = (IF cc THEN inflight + r.len ELSE inflight)
           /\ allowance' = (IF cc THEN FALSE ELSE allowance)
           /\ ccflag' = [k \in DOMAIN ccflag \ {Key(r)} |-> ccflag[k]]
           /\ UNCHANGED <<cw, paths, known>>
TNext == T_Reset \/ T_TxP \/ T_Metrics \/ T_Path \/ T_Lost \/ T_Cong \/ T_Sent
TSpec == TInit /\ [][TNext]_gvars
=============================================================================

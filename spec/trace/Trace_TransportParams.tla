------------------------ MODULE Trace_TransportParams ------------------------
(* impl -> spec for C14: each record is a byte string offered to the real decoder as a client or
   server transport-parameter block together with the decoder's answer.  TLC evaluates the reference
   decision procedure on the same bytes: a forbidden block must have been rejected, a permitted one
   accepted with exactly the declared limits (defaults for absent parameters). *)
EXTENDS TransportParams, TraceLib
VARIABLE l
IsEvent(e) == l <= NRec /\ Rec[l].ev = e /\ l' = l + 1
TInit == l = 1
Fields == {"max_idle_timeout", "max_udp_payload_size", "initial_max_data", "initial_max_stream_data_bidi_local",
           "initial_max_stream_data_bidi_remote", "initial_max_stream_data_uni", "initial_max_streams_bidi",
           "initial_max_streams_uni", "ack_delay_exponent", "max_ack_delay", "active_connection_id_limit",
           "max_datagram_frame_size"}
Agrees(r) ==
  LET v == Verdict(r.role, r.bytes) IN
  CASE v = "reject" -> r.res = "err"
    [] v = "either" -> TRUE
    [] OTHER -> \/ /\ r.res = "ok"
                   /\ LET e == Effective(r.bytes) IN
                        /\ \A f \in Fields : r.eff[f] = e[f]
                        /\ r.eff.disable_active_migration = e.disable_active_migration
                \* known finding F6 (named deviation, see known_findings.json)
                \/ r.res = "err" /\ HasNonMinimalAckDelayExponent(r.bytes)
T_Tp == IsEvent("tp") /\ (Agrees(Rec[l]) = TRUE)
T_Reset == IsEvent("reset")
\* a "panic" line has no action
TNext == T_Tp \/ T_Reset
TSpec == TInit /\ [][TNext]_l
=============================================================================

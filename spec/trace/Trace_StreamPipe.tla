-------------------------- MODULE Trace_StreamPipe --------------------------
(* C01 on real connections: what the receiving application reads is, at every call, exactly the
   next bytes of what the sending application wrote; a clean end of stream only after everything
   the sender wrote before finishing was read.  The specification keeps its OWN reassembly buffer
   per stream (ReasmOps), fed with the STREAM frames that reached frame processing (rx interceptor),
   and predicts from it what the application may obtain.  Frames must be genuine: their bytes are
   the bytes of those offsets (decoded by the harness from the position-determined payload) and
   lie within what the peer's application has written. *)
EXTENDS ReasmOps, TraceLib
CONSTANT MaxStreamId
VARIABLES l, wr, fin, rb, rd, eos
Ep == {"c", "s"}
Other(e) == IF e = "c" THEN "s" ELSE "c"
Sids == 0..MaxStreamId
Initiator(sid) == IF sid % 2 = 0 THEN "c" ELSE "s"
IsBidi(sid) == (sid % 4) < 2
CanSend(e, sid) == IsBidi(sid) \/ Initiator(sid) = e
svars == <<wr, fin, rb, rd, eos>>
tvars == <<svars, l>>
IsEvent(e) == l <= NRec /\ Rec[l].ev = e /\ l' = l + 1

Fresh == [ wr |-> [e \in Ep |-> [s \in Sids |-> 0]], fin |-> [e \in Ep |-> [s \in Sids |-> FALSE]],
           rb |-> [e \in Ep |-> [s \in Sids |-> REmpty]], rd |-> [e \in Ep |-> [s \in Sids |-> 0]],
           eos |-> [e \in Ep |-> [s \in Sids |-> FALSE]] ]
TInit == wr = Fresh.wr /\ fin = Fresh.fin /\ rb = Fresh.rb /\ rd = Fresh.rd /\ eos = Fresh.eos /\ l = 1
T_Reset == IsEvent("reset") /\ wr' = Fresh.wr /\ fin' = Fresh.fin /\ rb' = Fresh.rb /\ rd' = Fresh.rd /\ eos' = Fresh.eos

\* the sending application hands bytes [off, off+len) to the stream (the call may still be pending)
T_SendCall == IsEvent("app_send_call") /\ LET r == Rec[l] IN
  /\ r.off = wr[r.ep][r.id] /\ ~fin[r.ep][r.id]
  /\ wr' = [wr EXCEPT ![r.ep][r.id] = @ + r.len]
  /\ UNCHANGED <<fin, rb, rd, eos>>
T_Finish == IsEvent("app_finish") /\ LET r == Rec[l] IN
  /\ r.total = wr[r.ep][r.id]
  /\ fin' = [fin EXCEPT ![r.ep][r.id] = TRUE]
  /\ UNCHANGED <<wr, rb, rd, eos>>

\* a STREAM frame reaches frame processing at endpoint e
T_RxF == IsEvent("rxf") /\ LET r == Rec[l] IN
  IF r.ty # "stream" THEN UNCHANGED svars
  ELSE LET e == r.ep
           p == Other(e)
           end == r.off + r.len IN
       /\ CanSend(p, r.id)
       /\ r.ok                                      \* unaltered: the bytes of these offsets
       /\ end <= wr[p][r.id]                        \* not invented: within what the peer application wrote
       /\ r.fin => (fin[p][r.id] /\ end = wr[p][r.id])
       /\ RWriteVerdict(rb[e][r.id], r.off, r.len, r.fin, 2000000000) = "ok"
       /\ rb' = [rb EXCEPT ![e][r.id] = RWrite(@, r.off, r.len, r.fin)]
       /\ UNCHANGED <<wr, fin, rd, eos>>

\* the receiving application obtained len bytes
T_Recv == IsEvent("app_recv") /\ LET r == Rec[l] IN
  /\ r.ok                                           \* they are the bytes of offsets [off, off+len) of the peer's stream
  /\ r.off = rd[r.ep][r.id]                         \* exactly the next ones: nothing lost, duplicated or displaced
  /\ r.len >= 1
  /\ r.len <= IvRunFrom(rb[r.ep][r.id].rcvd, rd[r.ep][r.id])   \* and they had arrived
  /\ ~eos[r.ep][r.id]
  /\ rd' = [rd EXCEPT ![r.ep][r.id] = @ + r.len]
  /\ UNCHANGED <<wr, fin, rb, eos>>
T_Eos == IsEvent("app_eos") /\ LET r == Rec[l]
                                    p == Other(r.ep) IN
  /\ fin[p][r.id] /\ r.total = wr[p][r.id]          \* the sender finished and this is all it wrote
  /\ rd[r.ep][r.id] = r.total                       \* all of it was read
  /\ rb[r.ep][r.id].final = r.total
  /\ eos' = [eos EXCEPT ![r.ep][r.id] = TRUE]
  /\ UNCHANGED <<wr, fin, rb, rd>>
\* "panic" / "stall" lines have no action
TNext == T_Reset \/ T_SendCall \/ T_Finish \/ T_RxF \/ T_Recv \/ T_Eos
TSpec == TInit /\ [][TNext]_tvars
PrefixInv == \A e \in Ep, s \in Sids : rd[e][s] <= wr[Other(e)][s]
=============================================================================

SPECIFICATION TSpec
CONSTANT KnownF4 = TRUE
POSTCONDITION TraceAccepted
CHECK_DEADLOCK FALSE

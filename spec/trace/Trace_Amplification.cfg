SPECIFICATION TSpec
CONSTANTS
  KnownF4 = TRUE
  KnownF10 = TRUE
POSTCONDITION TraceAccepted
CHECK_DEADLOCK FALSE

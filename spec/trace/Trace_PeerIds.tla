---------------------------- MODULE Trace_PeerIds ----------------------------
(* Trace validation of the real PeerIdRegistry (harness peerreg-run) against the C13 rules for the receiving side (module
   PeerIds): which NEW_CONNECTION_ID frames may be refused and with which error, which ids are usable afterwards, which
   ids RETIRE_CONNECTION_ID frames name and when they must be written.  Only the wire view and the registry's public
   answers (verdict, is_active per id, ids handed out for paths) are used. *)
EXTENDS TraceLib, FiniteSets, Integers
VARIABLES l, rotate, acc, rptMax, retW, lostP, ackP, active, consumed, failed,
          gone   \* ids the registry has forgotten (their RETIRE_CONNECTION_ID was acknowledged) and not been given again since
P == INSTANCE PeerIds WITH Rotate <- FALSE, ActiveLimit <- 3, RetiredLimit <- 6, MaxSeq <- 0, MaxPn <- 0, Dishonest <- FALSE,
                           ids <- <<>>, rpt <- 0, pn <- 0, accepted <- <<>>, retires <- {}, lost <- {}, acked <- {}
tvars == <<rotate, acc, rptMax, retW, lostP, ackP, active, consumed, failed, gone>>
IsEvent(e) == l <= NRec /\ Rec[l].ev = e /\ l' = l + 1
ToSet(q) == {q[i] : i \in 1..Len(q)}
Max(a, b) == IF a >= b THEN a ELSE b
Unresolved == {f \in retW : f[2] \notin lostP /\ f[2] \notin ackP}      \* RETIRE frames in flight

TInit == l = 1 /\ rotate = FALSE /\ acc = <<>> /\ rptMax = 0 /\ retW = {} /\ lostP = {} /\ ackP = {} /\ active = {} /\ consumed = {} /\ failed = FALSE /\ gone = {}
T_Reset == IsEvent("reset") /\ LET r == Rec[l] IN
  /\ rotate' = r.rotate /\ acc' = (0 :> [cid |-> 0, tok |-> 0 - 1]) /\ rptMax' = 0 /\ retW' = {} /\ lostP' = {} /\ ackP' = {}
  /\ active' = ToSet(r.active) /\ ToSet(r.active) = {0} /\ consumed' = {0} /\ failed' = FALSE /\ gone' = {}

T_NewCid == IsEvent("newcid") /\ ~failed /\ LET r == Rec[l]
      rp == Max(rptMax, r.rpt)
      conflict == P!Conflicts(acc, r.seq, r.cid, r.tok)
      fresh == IF r.seq \in DOMAIN acc /\ r.seq \notin gone THEN {} ELSE {r.seq}   \* a repeated frame adds nothing
      usableMax == {k \in active \cup fresh : k >= rp}                 \* everything that could still be usable
      usableMin == {k \in (active \ {0}) \cup fresh : k >= rp}         \* the handshake id may be given up for the new one
      known == (DOMAIN acc \ gone) \cup {r.seq}
      A == ToSet(r.active) IN
  /\ r.result = "invalid" => conflict                                   \* an honest frame is never refused as inconsistent
  /\ r.result = "active_limit" => Cardinality(usableMax) > 3            \* CONNECTION_ID_LIMIT_ERROR only when justified ...
  /\ (~conflict /\ r.seq \notin DOMAIN acc /\ Cardinality(usableMin) > 3) => r.result # "ok"   \* ... and then it is due
  /\ r.result = "retired_limit" => Cardinality(known) - Cardinality(usableMin) > 6
  /\ IF r.result = "ok"
       THEN /\ (r.seq \in DOMAIN acc /\ r.seq \notin gone) => (acc[r.seq].cid = r.cid /\ acc[r.seq].tok = r.tok)   \* a repeated frame
            /\ acc' = [k \in DOMAIN acc \cup {r.seq} |-> IF k = r.seq THEN [cid |-> r.cid, tok |-> r.tok] ELSE acc[k]]
            /\ rptMax' = rp
            /\ A \subseteq usableMax /\ Cardinality(A) <= 3
            /\ P!NoUseBelowRpt(A, rp)
            /\ active' = A /\ gone' = gone \ {r.seq} /\ UNCHANGED failed
       ELSE failed' = TRUE /\ UNCHANGED <<acc, rptMax, active, gone>>
  /\ UNCHANGED <<rotate, retW, lostP, ackP, consumed>>

T_Consume == IsEvent("consume") /\ ~failed /\ LET r == Rec[l] IN
  /\ r.got >= 0 => (r.got \in active /\ r.got \notin consumed /\ r.got >= rptMax)
  /\ consumed' = IF r.got >= 0 THEN consumed \cup {r.got} ELSE consumed
  /\ ToSet(r.active) = active
  /\ UNCHANGED <<rotate, acc, rptMax, retW, lostP, ackP, active, failed, gone>>

T_Transmit == IsEvent("transmit") /\ ~failed /\ LET r == Rec[l]
      new == {<<r.frames[i], r.pn>> : i \in 1..Len(r.frames)}
      due == {k \in DOMAIN acc : k < rptMax /\ k \notin gone /\ k \notin {f[1] : f \in Unresolved}} IN
  /\ retW' = retW \cup new
  /\ P!RetiresOnlyIssued(new, acc)                                      \* only ids the peer issued
  /\ \A f \in new : f[1] \notin active                                  \* an id whose retirement is announced is not usable
  /\ P!OncePerLoss(retW', lostP, ackP)
  /\ (r.k >= 100 /\ ~r.lostonly) => due \subseteq {f[1] : f \in new}    \* with room in the packet everything below retire_prior_to is retired
  /\ Len(r.frames) <= r.k
  /\ ToSet(r.active) = active
  /\ UNCHANGED <<rotate, acc, rptMax, lostP, ackP, active, consumed, failed, gone>>

T_Ack == IsEvent("ack") /\ ackP' = ackP \cup {Rec[l].pn} /\ ToSet(Rec[l].active) = active
         /\ gone' = gone \cup {f[1] : f \in {g \in Unresolved : g[2] = Rec[l].pn}}
         /\ UNCHANGED <<rotate, acc, rptMax, retW, lostP, active, consumed, failed>>
T_Lose == IsEvent("lose") /\ lostP' = lostP \cup {Rec[l].pn} /\ ToSet(Rec[l].active) = active
          /\ UNCHANGED <<rotate, acc, rptMax, retW, ackP, active, consumed, failed, gone>>
TNext == T_Reset \/ T_NewCid \/ T_Consume \/ T_Transmit \/ T_Ack \/ T_Lose
TSpec == TInit /\ [][TNext]_<<tvars, l>>
=============================================================================

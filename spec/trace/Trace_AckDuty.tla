---------------------------- MODULE Trace_AckDuty ----------------------------
EXTENDS AckDuty, TraceLib
VARIABLE l
IsEvent(e) == l <= NRec /\ Rec[l].ev = e /\ l' = l + 1
TInit == AInit /\ l = 1
T_Reset == IsEvent("reset") /\ AReset(Rec[l].mad)
T_Process == IsEvent("process") /\ LET r == Rec[l] IN Process(r.pn, r.el, r.t, r.armed, r.deadline, r.interest)
T_Transmit == IsEvent("transmit") /\ LET r == Rec[l] IN
                Transmit(r.wrote, {<<r.ranges[i][1], r.ranges[i][2]>> : i \in 1..Len(r.ranges)}, r.armed, r.deadline, r.interest)
T_OurAcked == IsEvent("our_acked") /\ LET r == Rec[l] IN OurAckAcked(r.largest, r.armed, r.deadline, r.interest)
T_Other == (IsEvent("timeout") \/ IsEvent("tick") \/ IsEvent("our_lost"))
           /\ LET r == Rec[l] IN Other(r.armed, r.deadline, r.interest)
TNext == T_Reset \/ T_Process \/ T_Transmit \/ T_OurAcked \/ T_Other
TSpec == TInit /\ [][TNext]_<<advars, l>>
=============================================================================

SPECIFICATION TSpec
CONSTANT Slack = 1000
POSTCONDITION TraceAccepted
CHECK_DEADLOCK FALSE

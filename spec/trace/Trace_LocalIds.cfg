SPECIFICATION TSpec
CONSTANT
  KnownF12 = TRUE
POSTCONDITION TraceAccepted
CHECK_DEADLOCK FALSE

---------------------------- MODULE Trace_LocalIds ----------------------------
(* Trace validation of the real LocalIdRegistry + ConnectionIdMapper (harness cidreg-run) against the C13 rules of
   module LocalIds.  The trace specification keeps the wire view only - frames transmitted, ids the peer retired, the
   lifetimes announced - and evaluates the rules of LocalIds (WithinPeerLimit, NeverRetiresBeyondIssued, Consecutive /
   SkippedOnlyRetired, Routable) on it after every call, plus the per-frame and per-RETIRE rules below.  The registry's
   internal statuses are not logged; nothing is inferred about them. *)
EXTENDS TraceLib, FiniteSets
CONSTANT KnownF12
VARIABLES l, limit, frames, peerRetired, exps, next, now
\* LocalIds is instantiated for its rule operators only (its variables are not used here)
L == INSTANCE LocalIds WITH Limit <- 0, Rotate <- FALSE, Lifetime <- 0, Buffer <- 0, Settle <- 0, MaxSeq <- 0, MaxTime <- 0, MaxPn <- 0,
                            ids <- <<>>, rpt <- 0, pn <- 0, confirmed <- FALSE
tvars == <<limit, frames, peerRetired, exps, next, now>>
IsEvent(e) == l <= NRec /\ Rec[l].ev = e /\ l' = l + 1
ToSet(q) == {q[i] : i \in 1..Len(q)}
IssuedOf(fr) == {0} \cup {f[1] : f \in fr}

(* rules evaluated on the state after the call: fr, ret, ex, nx are the new values *)
WireRules(fr, ret, lim) ==
  /\ L!WithinPeerLimit(fr, ret, lim)
  /\ L!NeverRetiresBeyondIssued(fr)
  /\ \/ L!Consecutive(fr)
     \/ (KnownF12 /\ L!SkippedOnlyRetired(fr) /\ PrintT(<<"KNOWN-FINDING", "F12">>))
Routing(r, fr, ret, ex) ==
  /\ r.stray = <<>>                                              \* none of this connection's ids routes elsewhere, no foreign id routes here
  /\ L!Routable(IssuedOf(fr), ret, ToSet(r.routes), ex, r.t)
  /\ r.interest <= limit

TInit == l = 1 /\ limit = 0 /\ frames = {} /\ peerRetired = {} /\ exps = <<>> /\ next = 0 /\ now = 0

T_Reset == IsEvent("reset") /\ LET r == Rec[l] IN
  /\ limit' = r.limit /\ frames' = {} /\ peerRetired' = {} /\ exps' = (0 :> r.lifetime) /\ next' = 1 /\ now' = r.t
  /\ r.stray = <<>> /\ ToSet(r.routes) = {0}

(* the connection registers an id only while the registry asks for one; it gets the next sequence number *)
T_Register == IsEvent("register") /\ LET r == Rec[l] IN
  /\ r.ok /\ r.seq = next
  /\ next' = next + 1 /\ exps' = exps @@ (r.seq :> r.exp) /\ now' = r.t
  /\ Routing(r, frames, peerRetired, exps')
  /\ r.seq \in ToSet(r.routes)
  /\ UNCHANGED <<limit, frames, peerRetired>>

(* every frame written: a NEW_CONNECTION_ID for a registered sequence number, carrying the id and the stateless reset
   token registered under that number (so values and tokens are pairwise distinct), all in the packet being built *)
T_Transmit == IsEvent("transmit") /\ LET r == Rec[l]
                                         new == {<<r.frames[i].seq, r.frames[i].rpt>> : i \in 1..Len(r.frames)} IN
  /\ \A i \in 1..Len(r.frames) : LET f == r.frames[i] IN
        f.seq >= 0 /\ f.seq < next /\ f.cid = f.seq /\ f.tok = f.seq /\ f.pn = r.pn
  /\ Len(r.frames) <= r.k
  /\ frames' = frames \cup new /\ now' = r.t
  /\ WireRules(frames', peerRetired, limit)
  /\ Routing(r, frames', peerRetired, exps)
  /\ UNCHANGED <<limit, peerRetired, exps, next>>

(* RETIRE_CONNECTION_ID: accepted from an honest peer (an id it was given, packet addressed to another id); refused for
   a sequence number never handed out and for the id the packet itself is addressed to while that id is in use *)
T_Retire == IsEvent("retire") /\ LET r == Rec[l]
                                     honest == r.seq \in IssuedOf(frames) /\ r.dcid # r.seq IN
  /\ honest => r.ok
  /\ r.seq >= next => ~r.ok
  /\ (r.dcid = r.seq /\ r.seq \in IssuedOf(frames) /\ r.seq \notin peerRetired /\ r.seq \in ToSet(Rec[l - 1].routes)) => ~r.ok
  /\ peerRetired' = IF r.ok /\ r.seq < next THEN peerRetired \cup {r.seq} ELSE peerRetired
  /\ now' = r.t
  /\ Routing(r, frames, peerRetired', exps)
  /\ UNCHANGED <<limit, frames, exps, next>>

T_Other == (IsEvent("ack") \/ IsEvent("lose") \/ IsEvent("confirm") \/ IsEvent("tick") \/ IsEvent("timeout"))
  /\ LET r == Rec[l] IN now' = r.t /\ Routing(r, frames, peerRetired, exps)
  /\ UNCHANGED <<limit, frames, peerRetired, exps, next>>

(* the second connection on the same mapper still owns exactly its two ids *)
T_OtherConn == IsEvent("other") /\ LET r == Rec[l] IN r.stray = <<>> /\ ToSet(r.routes) = {0, 1}
  /\ UNCHANGED tvars

TNext == T_Reset \/ T_Register \/ T_Transmit \/ T_Retire \/ T_Other \/ T_OtherConn
TSpec == TInit /\ [][TNext]_<<tvars, l>>
=============================================================================

SPECIFICATION TSpec
CONSTANT
  KnownF15 = TRUE
POSTCONDITION TraceAccepted
CHECK_DEADLOCK FALSE

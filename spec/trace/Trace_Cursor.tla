----------------------------- MODULE Trace_Cursor -----------------------------
(* Trace validation of the real ring cursors (sync::cursor, the socket message rings) driven by one thread: the sequential
   meaning of the producer / consumer protocol that MC_RingCursor checks under concurrency.
     P, C        entries released by the producer / by the consumer so far (re-based by `ff` so that the 2^32 index wrap
                 is position 0)
     pfree,cfill the lengths the two sides hold cached (what producer_data / consumer_data expose)
   Rules: a side never holds more than is really there (pfree <= size - (P - C), cfill <= P - C: no unwritten or
   unconsumed slot is exposed); an acquire that asks for more than the cached length sees EVERYTHING the other side has
   released (nothing is lost, also when the free-running u32 indexes wrap); released entries come out exactly once, in
   order, with the values written. *)
EXTENDS TraceLib
VARIABLES l, size, P, C, pfree, cfill
cvars == <<size, P, C, pfree, cfill>>
IsEvent(e) == l <= NRec /\ Rec[l].ev = e /\ l' = l + 1
Sound == pfree' <= size' - (P' - C') /\ cfill' <= P' - C' /\ pfree' >= 0 /\ cfill' >= 0
TInit == l = 1 /\ size = 1 /\ P = 0 /\ C = 0 /\ pfree = 0 /\ cfill = 0
T_Reset == IsEvent("reset") /\ LET r == Rec[l] IN
  size' = r.size /\ P' = 0 /\ C' = 0 /\ pfree' = r.plen /\ cfill' = r.clen /\ r.plen = r.size /\ r.clen = 0
(* summary of a fast-forward over an otherwise empty ring: every batch was accepted whole and came out whole, in order *)
T_FF == IsEvent("ff") /\ LET r == Rec[l] IN
  /\ P = C /\ r.ok
  /\ P' = r.pos /\ C' = r.pos /\ pfree' = r.plen /\ cfill' = r.clen /\ UNCHANGED size /\ Sound
T_PAcq == IsEvent("pacq") /\ LET r == Rec[l] IN
  /\ r.ret = IF pfree >= r.wm THEN pfree ELSE size - (P - C)
  /\ pfree' = r.ret /\ r.plen = r.ret /\ r.clen = cfill /\ UNCHANGED <<size, P, C, cfill>>
T_PRel == IsEvent("prel") /\ LET r == Rec[l] IN
  /\ r.n <= pfree /\ P' = P + r.n /\ pfree' = pfree - r.n /\ r.plen = pfree' /\ r.clen = cfill /\ UNCHANGED <<size, C, cfill>>
T_CAcq == IsEvent("cacq") /\ LET r == Rec[l] IN
  /\ r.ret = IF cfill >= r.wm THEN cfill ELSE P - C
  /\ cfill' = r.ret /\ r.clen = r.ret /\ r.plen = pfree /\ UNCHANGED <<size, P, C, pfree>>
T_CRel == IsEvent("crel") /\ LET r == Rec[l] IN
  /\ r.n <= cfill
  /\ r.n > 0 => (r.first = C /\ r.last = C + r.n - 1 /\ r.inorder)
  /\ C' = C + r.n /\ cfill' = cfill - r.n /\ r.clen = cfill' /\ r.plen = pfree /\ UNCHANGED <<size, P, pfree>>
TNext == T_Reset \/ T_FF \/ T_PAcq \/ T_PRel \/ T_CAcq \/ T_CRel
TSpec == TInit /\ [][TNext]_<<cvars, l>>
=============================================================================

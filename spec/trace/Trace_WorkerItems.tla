-------------------------- MODULE Trace_WorkerItems --------------------------
(* C17, sync::worker on real threads: credits acquired never exceed credits whose submit has started; "closed" is
   reported only after EVERY sender handle has begun to drop (a clone is a handle), and at the end of the run everything
   submitted has been acquired. *)
EXTENDS Naturals, FiniteSets, TLC, TraceLib
VARIABLES l, handles, dropping, submitted, acquired, closed
wvars == <<l, handles, dropping, submitted, acquired, closed>>
IsEvent(e) == l <= NRec /\ Rec[l].ev = e /\ l' = l + 1
TInit == l = 1 /\ handles = 1 /\ dropping = {} /\ submitted = 0 /\ acquired = 0 /\ closed = FALSE
T_Reset == IsEvent("reset") /\ handles' = Rec[l].handles /\ dropping' = {} /\ submitted' = 0 /\ acquired' = 0 /\ closed' = FALSE
T_Clone == IsEvent("clone") /\ UNCHANGED <<handles, dropping, submitted, acquired, closed>>
T_Submit == IsEvent("submit_start") /\ ~closed /\ submitted' = submitted + Rec[l].n /\ UNCHANGED <<handles, dropping, acquired, closed>>
T_Drop == IsEvent("drop_handle") /\ dropping' = dropping \cup {Rec[l].h} /\ UNCHANGED <<handles, submitted, acquired, closed>>
T_Dropped == IsEvent("dropped_handle") /\ UNCHANGED <<handles, dropping, submitted, acquired, closed>>
T_Acquired == IsEvent("acquired") /\ acquired + Rec[l].n <= submitted /\ acquired' = acquired + Rec[l].n
              /\ UNCHANGED <<handles, dropping, submitted, closed>>
T_Closed == IsEvent("closed") /\ Cardinality(dropping) = handles /\ acquired = submitted /\ closed' = TRUE
            /\ UNCHANGED <<handles, dropping, submitted, acquired>>
T_End == IsEvent("end") /\ closed /\ acquired = submitted /\ UNCHANGED <<handles, dropping, submitted, acquired, closed>>
TNext == T_Reset \/ T_Clone \/ T_Submit \/ T_Drop \/ T_Dropped \/ T_Acquired \/ T_Closed \/ T_End
TSpec == TInit /\ [][TNext]_wvars
=============================================================================

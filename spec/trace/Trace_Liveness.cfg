SPECIFICATION TSpec
CONSTANT Slack = 100000
POSTCONDITION TraceAccepted
CHECK_DEADLOCK FALSE

---------------------------- MODULE Trace_RecvRules ----------------------------
(* C04 on real connections: frames that reach frame processing at an endpoint (honest ones and the violating
   ones the harness injects into genuine packets at the victim's rx interceptor) are judged by RecvRules; after a
   violation the endpoint must close with an admissible transport error and hand no further data to the
   application.  Independently every MAX_* value the endpoint sends is bounded by consumed + window. *)
EXTENDS RecvRules, TraceLib
VARIABLE l
IsEvent(e) == l <= NRec /\ Rec[l].ev = e /\ l' = l + 1
Zero == [sd_uni |-> 0, sd_bidi_remote |-> 0, sd_bidi_local |-> 0, data_window |-> 0, streams_bidi |-> 0, streams_uni |-> 0]
SetTo(st) == cfg' = st.cfg /\ advSD' = st.advSD /\ advD' = st.advD /\ advStreams' = st.advStreams /\ recvEnd' = st.recvEnd /\ finalSz' = st.finalSz
             /\ done' = st.done /\ opened' = st.opened /\ consumed' = st.consumed /\ mustClose' = st.mustClose
TInit == LET st == RRState(Zero, Zero) IN cfg = st.cfg /\ advSD = st.advSD /\ advD = st.advD /\ advStreams = st.advStreams /\ recvEnd = st.recvEnd
         /\ finalSz = st.finalSz /\ done = st.done /\ opened = st.opened /\ consumed = st.consumed /\ mustClose = st.mustClose /\ l = 1
T_Reset == IsEvent("reset") /\ SetTo(RRState(Rec[l].sc.c, Rec[l].sc.s))

Violation(e, codes) == mustClose' = [mustClose EXCEPT ![e] = IF @ = {} THEN Admissible(codes) ELSE @]
                       /\ UNCHANGED <<cfg, advSD, advD, advStreams, recvEnd, finalSz, done, opened, consumed>>
\* known finding F5: direction violations other than MAX_STREAM_DATA are silently ignored
F5Class(e, r) == /\ r.ty \in {"stream", "reset_stream", "stop_sending", "stream_data_blocked"}
                 /\ \/ (Initiator(r.id) = e /\ ~IsBidi(r.id) /\ Ordinal(r.id) < opened[e][FALSE] /\ r.ty # "stop_sending")
                    \/ (Initiator(r.id) # e /\ ~IsBidi(r.id) /\ r.ty = "stop_sending")
Judge(e, r, codes) ==
  IF codes = {} THEN FALSE
  ELSE IF KnownF5 /\ F5Class(e, r) THEN PrintT(<<"KNOWN-FINDING", "F5">>) /\ UNCHANGED rrvars
  ELSE Violation(e, codes)

\* the deviation is taken only when the endpoint really went on (its next connection end, if any, is not its own transport error)
F16Ahead(i, e) == LET J == {j \in (i + 1)..NRec : Rec[j].ev = "reset" \/ (Rec[j].ev = "conn_closed" /\ Rec[j].ep = e)} IN
                  J = {} \/ LET j == CHOOSE x \in J : \A y \in J : x <= y IN
                             Rec[j].ev = "reset" \/ ~(Rec[j].error.kind = "transport" /\ Rec[j].error.local)
T_RxF == IsEvent("rxf") /\ LET r == Rec[l]
                               e == r.ep IN
  IF mustClose[e] # {} THEN UNCHANGED rrvars          \* frames after the violation in the same packet are not judged
  ELSE IF r.sp # "a"
  THEN IF r.ty \in {"padding", "ping", "ack", "crypto"} \/ (r.ty = "conn_close" /\ ~r.app) THEN UNCHANGED rrvars
       ELSE Violation(e, {PROTOCOL_VIOLATION})      \* RFC 9000 12.4 table 3: frame type not permitted in Initial / Handshake packets
  ELSE CASE r.ty = "stream" ->
              LET v == StreamVerdict(e, r.id, r.off, r.len, r.fin) IN
              IF v # {} /\ r.id \in done[e] /\ v # {STREAM_LIMIT_ERROR} /\ v # {STREAM_STATE_ERROR} THEN UNCHANGED rrvars   \* named: terminal receive state, frames may be ignored
              ELSE IF v # {} THEN Judge(e, r, v)
              ELSE /\ recvEnd' = [recvEnd EXCEPT ![e][r.id] = Max2(@, r.off + r.len)]
                   /\ finalSz' = IF r.fin THEN [finalSz EXCEPT ![e][r.id] = r.off + r.len] ELSE finalSz
                   /\ UNCHANGED <<cfg, advSD, advD, advStreams, done, opened, consumed, mustClose>>
         [] r.ty = "reset_stream" ->
              LET v == ResetVerdict(e, r.id, r.final) IN
              IF v # {} /\ r.id \in done[e] /\ v # {STREAM_LIMIT_ERROR} /\ v # {STREAM_STATE_ERROR} THEN UNCHANGED rrvars
              \* known finding F16: while no final size is known, a RESET_STREAM whose final size lies BELOW data already
              \* received is accepted (receive_stream.rs init_reset compares only with a final size learnt before)
              ELSE IF KnownF16 /\ v = {FINAL_SIZE_ERROR} /\ finalSz[e][r.id] = None /\ r.final < recvEnd[e][r.id] /\ F16Ahead(l, e)
                   THEN /\ PrintT(<<"KNOWN-FINDING", "F16">>)
                        /\ finalSz' = [finalSz EXCEPT ![e][r.id] = r.final]
                        /\ done' = [done EXCEPT ![e] = @ \cup {r.id}]
                        /\ UNCHANGED <<cfg, advSD, advD, advStreams, recvEnd, opened, consumed, mustClose>>
              ELSE IF v # {} THEN Judge(e, r, v)
              ELSE /\ recvEnd' = [recvEnd EXCEPT ![e][r.id] = Max2(@, r.final)]
                   /\ finalSz' = [finalSz EXCEPT ![e][r.id] = r.final]
                   /\ done' = [done EXCEPT ![e] = @ \cup {r.id}]
                   /\ UNCHANGED <<cfg, advSD, advD, advStreams, opened, consumed, mustClose>>
         [] r.ty \in {"max_stream_data", "stop_sending"} ->
              LET v == SendSideVerdict(e, r.id) IN IF v # {} THEN Judge(e, r, v) ELSE UNCHANGED rrvars
         [] r.ty = "stream_data_blocked" ->
              LET v == DirectionVerdict(e, r.id, TRUE, FALSE) IN IF v # {} THEN Judge(e, r, v) ELSE UNCHANGED rrvars
         [] r.ty = "max_streams" -> IF Has(r, "huge") THEN Violation(e, {FRAME_ENCODING_ERROR}) ELSE UNCHANGED rrvars
         [] r.ty = "new_cid" -> IF r.rpt > r.seq THEN Violation(e, {FRAME_ENCODING_ERROR}) ELSE UNCHANGED rrvars
         [] r.ty = "handshake_done" -> IF e = "s" THEN Violation(e, {PROTOCOL_VIOLATION}) ELSE UNCHANGED rrvars
         [] OTHER -> UNCHANGED rrvars

\* credit the endpoint advertises: never more than consumed + configured window
PeerOpened(e, bidi) == Cardinality({s \in Sids : Initiator(s) # e /\ IsBidi(s) = bidi /\ (recvEnd[e][s] > 0 \/ finalSz[e][s] # None)})
ConsumedConn(e) == SumF([s \in Sids |-> IF s \in done[e] THEN Max2(recvEnd[e][s], consumed[e][s]) ELSE consumed[e][s]],
                        {s \in Sids : consumed[e][s] > 0 \/ s \in done[e]})
T_TxF == IsEvent("txf") /\ LET r == Rec[l]
                               e == r.ep IN
  CASE r.ty = "max_stream_data" ->
         /\ r.v <= Max2(consumed[e][r.id], IF r.id \in done[e] THEN recvEnd[e][r.id] ELSE 0) + InitialRecvSD(e, r.id, cfg[e])
         /\ advSD' = [advSD EXCEPT ![e][r.id] = Max2(@, r.v)]
         /\ UNCHANGED <<cfg, advD, advStreams, recvEnd, finalSz, done, opened, consumed, mustClose>>
    [] r.ty = "max_data" ->
         /\ r.v <= ConsumedConn(e) + cfg[e].data_window
         /\ advD' = [advD EXCEPT ![e] = Max2(@, r.v)]
         /\ UNCHANGED <<cfg, advSD, advStreams, recvEnd, finalSz, done, opened, consumed, mustClose>>
    [] r.ty = "max_streams" ->
         /\ r.v <= PeerOpened(e, r.bidi) + (IF r.bidi THEN cfg[e].streams_bidi ELSE cfg[e].streams_uni)
         /\ advStreams' = [advStreams EXCEPT ![e][r.bidi] = Max2(@, r.v)]
         /\ UNCHANGED <<cfg, advSD, advD, recvEnd, finalSz, done, opened, consumed, mustClose>>
    [] r.ty = "stop_sending" -> done' = [done EXCEPT ![e] = @ \cup {r.id}] /\ UNCHANGED <<cfg, advSD, advD, advStreams, recvEnd, finalSz, opened, consumed, mustClose>>
    [] OTHER -> UNCHANGED rrvars
T_AppOpen == IsEvent("app_open") /\ opened' = [opened EXCEPT ![Rec[l].ep][IsBidi(Rec[l].id)] = @ + 1]
             /\ UNCHANGED <<cfg, advSD, advD, advStreams, recvEnd, finalSz, done, consumed, mustClose>>
T_AppRecv == IsEvent("app_recv") /\ LET r == Rec[l] IN
  \* none of the offending data reaches the application: once a violation was seen only bytes that had arrived (and were
  \* acceptable) before it may still be handed out
  /\ (mustClose[r.ep] = {} \/ r.off + r.len <= recvEnd[r.ep][r.id])
  /\ consumed' = [consumed EXCEPT ![r.ep][r.id] = @ + r.len]
  /\ UNCHANGED <<cfg, advSD, advD, advStreams, recvEnd, finalSz, done, opened, mustClose>>
T_AppEos == IsEvent("app_eos") /\ done' = [done EXCEPT ![Rec[l].ep] = @ \cup {Rec[l].id}]
            /\ UNCHANGED <<cfg, advSD, advD, advStreams, recvEnd, finalSz, opened, consumed, mustClose>>
\* the application gave up the receiving side: the unread part counts as consumed from now on
T_AppStop == IsEvent("app_stop") /\ done' = [done EXCEPT ![Rec[l].ep] = @ \cup {Rec[l].id}]
             /\ UNCHANGED <<cfg, advSD, advD, advStreams, recvEnd, finalSz, opened, consumed, mustClose>>
\* the peer's own CONNECTION_CLOSE came in the packet processed last at e: frames behind it in that packet (where the harness
\* appends its violating frame) need not be looked at any more
PeerClosedInLastPacket(e, i) ==
  LET J == {j \in (IF i > 400 THEN i - 400 ELSE 1)..(i - 1) : Rec[j].ev = "rxf" /\ Rec[j].ep = e} IN
  J # {} /\ LET last == CHOOSE j \in J : \A k \in J : k <= j IN
             \E j \in J : Rec[j].pn = Rec[last].pn /\ Rec[j].sp = Rec[last].sp /\ Rec[j].ty = "conn_close"
                             /\ (Rec[j].sp = "a" \/ ~Rec[j].app)    \* a close frame that is itself allowed in that packet
T_Closed == IsEvent("conn_closed") /\ LET r == Rec[l] IN
  /\ mustClose[r.ep] # {} => \/ (r.error.kind = "transport" /\ r.error.local /\ r.error.code \in mustClose[r.ep])
                              \/ (~r.error.local /\ PeerClosedInLastPacket(r.ep, l))
  /\ mustClose' = [mustClose EXCEPT ![r.ep] = {}]
  /\ UNCHANGED <<cfg, advSD, advD, advStreams, recvEnd, finalSz, done, opened, consumed>>
T_End == IsEvent("sim_end") /\ (\A e \in Ep : mustClose[e] = {}) /\ UNCHANGED rrvars
TNext == T_Reset \/ T_RxF \/ T_TxF \/ T_AppOpen \/ T_AppRecv \/ T_AppEos \/ T_AppStop \/ T_Closed \/ T_End
TSpec == TInit /\ [][TNext]_<<rrvars, l>>
=============================================================================

SPECIFICATION TSpec
CONSTANTS
  W = 896
  MaxId = 2000000000
INVARIANT RWTypeOK
POSTCONDITION TraceAccepted
CHECK_DEADLOCK FALSE

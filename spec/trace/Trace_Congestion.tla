--------------------------- MODULE Trace_Congestion ---------------------------
(* C10 on what the real controllers report after every call (harness h-core cc-run): the relations of
   comp/Congestion.tla that do not depend on the hidden growth functions.
     all controllers : window >= K * max_datagram_size (K = 2 CUBIC, 4 BBRv2), no overflow, in-flight = ledger
     CUBIC           : loss / ECN never increase the window; a second shrink needs an acknowledgement of a packet sent
                       after the first (persistent congestion: window = minimum, new epoch); acknowledgements
                       leave it unchanged while the window is under-utilised by an application-limited
                       sender; sending and discarding leave it unchanged; the fast-retransmission allowance ends with
                       the next packet sent or discarded *)
EXTENDS Naturals, Sequences, TLC, TraceLib
None == 0 - 1
VARIABLES l, kind, mss, cwnd, ledger, lastRed, ackedSince, strongUnder
tvars == <<l, kind, mss, cwnd, ledger, lastRed, ackedSince, strongUnder>>
IsEvent(e) == l <= NRec /\ Rec[l].ev = e /\ l' = l + 1
K == IF kind = "bbr" THEN 4 ELSE 2
Cubic == kind = "cubic"
CommonK(r, newLedger, k) ==
  /\ r.cwnd >= (IF k = "bbr" THEN 4 ELSE 2) * r.mss
  /\ r.cwnd < 2147483647
  /\ r.bif = newLedger
  /\ ledger' = newLedger /\ cwnd' = r.cwnd /\ mss' = r.mss
Common(r, newLedger) == CommonK(r, newLedger, kind)
TInit == l = 1 /\ kind = "none" /\ mss = 0 /\ cwnd = 0 /\ ledger = 0 /\ lastRed = None /\ ackedSince = FALSE /\ strongUnder = FALSE
T_Reset == IsEvent("reset") /\ kind' = Rec[l].kind /\ CommonK(Rec[l], 0, Rec[l].kind) /\ lastRed' = None /\ ackedSince' = FALSE /\ strongUnder' = FALSE
Avail(c, b) == IF c >= b THEN c - b ELSE 0
T_Send == IsEvent("send") /\ LET r == Rec[l] IN
  /\ Common(r, ledger + r.size)
  /\ Cubic => (r.cwnd = cwnd /\ ~r.req)
  \* certainly under-utilised whatever the hidden state: application-limited (or no hint), more than three datagrams of
  \* room and less than half the window in flight
  /\ strongUnder' = (r.app # "no" /\ Avail(r.cwnd, r.bif) > 3 * r.mss /\ r.bif < r.cwnd \div 2)
  /\ UNCHANGED <<kind, lastRed, ackedSince>>
T_Ack == IsEvent("ack") /\ LET r == Rec[l] IN
  /\ Common(r, ledger - r.bytes)
  /\ Cubic => (strongUnder => r.cwnd = cwnd)
  /\ ackedSince' = (ackedSince \/ (lastRed # None /\ r.newest > lastRed))
  /\ UNCHANGED <<kind, lastRed, strongUnder>>
Shrink(r, persistent) ==
  /\ Cubic => /\ r.cwnd <= cwnd
              /\ persistent => r.cwnd = 2 * r.mss
              /\ (r.cwnd < cwnd /\ ~persistent) => (lastRed = None \/ ackedSince)
  /\ lastRed' = (IF persistent THEN None ELSE IF r.cwnd < cwnd THEN r.t ELSE lastRed)
  /\ ackedSince' = (IF persistent \/ r.cwnd < cwnd THEN FALSE ELSE ackedSince)
T_Lost == IsEvent("lost") /\ LET r == Rec[l] IN Common(r, ledger - r.bytes) /\ Shrink(r, r.persistent) /\ UNCHANGED <<kind, strongUnder>>
T_Ecn == IsEvent("ecn") /\ LET r == Rec[l] IN Common(r, ledger) /\ Shrink(r, FALSE) /\ UNCHANGED <<kind, strongUnder>>
T_Mtu == IsEvent("mtu") /\ Common(Rec[l], ledger) /\ UNCHANGED <<kind, lastRed, ackedSince, strongUnder>>
T_Discard == IsEvent("discard") /\ LET r == Rec[l] IN Common(r, ledger - r.bytes) /\ (Cubic => (r.cwnd = cwnd /\ ~r.req))
             /\ UNCHANGED <<kind, lastRed, ackedSince, strongUnder>>
T_Tick == IsEvent("tick") /\ LET r == Rec[l] IN Common(r, ledger) /\ (Cubic => r.cwnd = cwnd) /\ UNCHANGED <<kind, lastRed, ackedSince, strongUnder>>
\* no action for "panic"
TNext == T_Reset \/ T_Send \/ T_Ack \/ T_Lost \/ T_Ecn \/ T_Mtu \/ T_Discard \/ T_Tick
TSpec == TInit /\ [][TNext]_tvars
=============================================================================

SPECIFICATION TSpec
CONSTANTS
  Slack = 5000
  KnownF8 = TRUE
  RangeLimit = 10
  AllowTransportClose = FALSE
POSTCONDITION TraceAccepted
CHECK_DEADLOCK FALSE

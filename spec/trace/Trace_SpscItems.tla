--------------------------- MODULE Trace_SpscItems ---------------------------
(* C17 at item level on the real channel between two OS threads (events carry a global sequence number taken when they
   are recorded; a push is recorded BEFORE the call, a pop after it): the receiver obtains 1, 2, 3, ... - every item
   exactly once, in order, never one whose push has not started; the receiver is told "closed" only when the sender has
   dropped its handle and everything pushed has been popped; a task that never completes is a stall (no action). *)
EXTENDS Naturals, Sequences, TLC, TraceLib
VARIABLES l, started, pushedOk, popped, sDropped, rDropped, lastFailed
ivars == <<l, started, pushedOk, popped, sDropped, rDropped, lastFailed>>
IsEvent(e) == l <= NRec /\ Rec[l].ev = e /\ l' = l + 1
TInit == l = 1 /\ started = 0 /\ pushedOk = 0 /\ popped = 0 /\ sDropped = FALSE /\ rDropped = FALSE /\ lastFailed = FALSE
T_Reset == IsEvent("reset") /\ started' = 0 /\ pushedOk' = 0 /\ popped' = 0 /\ sDropped' = FALSE /\ rDropped' = FALSE /\ lastFailed' = FALSE
\* a push of v starts: everything before v went in
T_PushStart == IsEvent("push_start") /\ Rec[l].v \in {started, started + 1} /\ started' = Rec[l].v /\ pushedOk' = Rec[l].v - 1
               /\ lastFailed' = FALSE /\ UNCHANGED <<popped, sDropped, rDropped>>
T_PushFull == IsEvent("push_full") /\ lastFailed' = TRUE /\ UNCHANGED <<started, pushedOk, popped, sDropped, rDropped>>
T_PushClosed == IsEvent("push_closed") /\ lastFailed' = TRUE /\ UNCHANGED <<started, pushedOk, popped, sDropped, rDropped>>
T_Pop == IsEvent("pop") /\ Rec[l].v = popped + 1 /\ Rec[l].v <= started /\ popped' = Rec[l].v
         /\ UNCHANGED <<started, pushedOk, sDropped, rDropped, lastFailed>>
\* the sender's handle is dropped: the push recorded last has completed
T_DropS == IsEvent("drop_s") /\ sDropped' = TRUE /\ pushedOk' = (IF lastFailed \/ started = 0 THEN pushedOk ELSE started)
           /\ UNCHANGED <<started, popped, rDropped, lastFailed>>
T_DropR == IsEvent("drop_r") /\ rDropped' = TRUE /\ UNCHANGED <<started, pushedOk, popped, sDropped, lastFailed>>
\* "closed" at the receiver: the sender has dropped its handle (recorded before the drop itself) and nothing is left:
\* everything whose push completed has been popped
T_RecvClosed == IsEvent("recv_closed") /\ sDropped /\ popped = pushedOk /\ UNCHANGED <<started, pushedOk, popped, sDropped, rDropped, lastFailed>>
\* "closed" at the sender: only if the receiver is going away (its decision to drop precedes the record of the drop)
T_SendClosed == IsEvent("send_closed") /\ UNCHANGED <<started, pushedOk, popped, sDropped, rDropped, lastFailed>>
T_End == IsEvent("end") /\ sDropped /\ rDropped /\ UNCHANGED <<started, pushedOk, popped, sDropped, rDropped, lastFailed>>
TNext == T_Reset \/ T_PushStart \/ T_PushFull \/ T_PushClosed \/ T_Pop \/ T_DropS \/ T_DropR \/ T_RecvClosed \/ T_SendClosed \/ T_End
TSpec == TInit /\ [][TNext]_ivars
=============================================================================

-------------------------- MODULE Trace_EndpointTx --------------------------
(* Trace validation of what both endpoints of real connections sent (tx interceptor: cleartext
   frames), against the credit they had received (rx interceptor: frames about to be processed;
   the peer's configured limits) and the datagrams the network saw after a close. *)
EXTENDS EndpointTx, TraceLib
CONSTANT KnownF7
VARIABLES l, epPending     \* epPending[e]: endpoint-level replies (stateless reset, ...) handed to the socket, not yet seen on the network
tvars == <<evars, l, epPending>>
IsEvent(e) == l <= NRec /\ Rec[l].ev = e /\ l' = l + 1

DefaultLim == [sd_uni |-> 0, sd_bidi_remote |-> 0, sd_bidi_local |-> 0, data_window |-> 0, streams_bidi |-> 0, streams_uni |-> 0]
TInit == EInit([e \in Ep |-> DefaultLim]) /\ l = 1 /\ epPending = [e \in Ep |-> 0]
\* a new run: limits of endpoint e come from the configuration of its peer
T_Reset == IsEvent("reset") /\ LET sc == Rec[l].sc IN EReset([e \in Ep |-> IF e = "c" THEN sc.s ELSE sc.c]) /\ epPending' = [e \in Ep |-> 0]

\* Known finding F7 (named deviation, enabled by the constant while the finding is listed as "known"):
\* the connection-level "stream opened" notification - an empty STREAM frame at offset 0 for the most
\* recently opened bidirectional stream - is retransmitted although RESET_STREAM was already sent.
KF7_OpenNotifyAfterReset(r) ==
  /\ KnownF7
  /\ r.len = 0 /\ r.off = 0 /\ ~r.fin /\ Initiator(r.id) = r.ep /\ IsBidi(r.id) /\ wasReset[r.ep][r.id]
  /\ PrintT(<<"KNOWN-FINDING", "F7">>)
  /\ UNCHANGED evars

T_RxF == IsEvent("rxf") /\ UNCHANGED epPending /\ LET r == Rec[l] IN
  CASE r.ty = "max_data" -> RxMaxData(r.ep, r.v)
    [] r.ty = "max_stream_data" -> RxMaxStreamData(r.ep, r.id, r.v)
    [] r.ty = "max_streams" -> RxMaxStreams(r.ep, r.bidi, r.v)
    [] r.ty = "conn_close" -> RxConnectionClose(r.ep)
    [] OTHER -> UNCHANGED evars
T_TxF == IsEvent("txf") /\ UNCHANGED epPending /\ LET r == Rec[l] IN
  CASE r.ty = "stream" -> TxStream(r.ep, r.id, r.off, r.len, r.fin, r.ok) \/ KF7_OpenNotifyAfterReset(r)
    [] r.ty = "reset_stream" -> TxResetStream(r.ep, r.id, r.final)
    [] r.ty = "stream_data_blocked" -> TxStreamDataBlocked(r.ep, r.id, r.v)
    [] r.ty = "conn_close" -> TxConnectionClose(r.ep)
    [] r.ty = "padding" -> UNCHANGED evars          \* padding may accompany a close frame
    [] OTHER -> TxOther(r.ep)
T_Dg == IsEvent("dg") /\ LET r == Rec[l]
                             e == IF r.dir = "c2s" THEN "c" ELSE "s" IN
  \* a datagram the ENDPOINT sent on its own behalf (a stateless reset answering an unroutable datagram, e.g. the peer's
  \* stateless reset for a late duplicate) is not one of the closing connection's datagrams
  IF (closing[e].on \/ closing[e].draining) /\ epPending[e] > 0 /\ closing[e].hash # r.hash
  THEN epPending' = [epPending EXCEPT ![e] = @ - 1] /\ UNCHANGED evars
  ELSE /\ epPending' = epPending
       /\ IF closing[e].draining THEN TxDatagramWhileDraining(e)
          ELSE IF closing[e].on THEN TxDatagramWhileClosing(e, r.hash) ELSE UNCHANGED evars
T_EpSent == IsEvent("endpoint_packet_sent") /\ epPending' = [epPending EXCEPT ![Rec[l].ep] = @ + 1] /\ UNCHANGED evars
\* a datagram is handed to the endpoint (rx interceptor of the endpoint, i.e. when the endpoint takes it from its
\* socket queue - not when the network enqueued it: a datagram queued before the close is answered after it)
T_DgRx == IsEvent("rxd") /\ RxDatagram(Rec[l].ep) /\ UNCHANGED epPending
T_AppOpen == IsEvent("app_open") /\ AppOpen(Rec[l].ep, Rec[l].id) /\ UNCHANGED epPending
\* "panic" / "stall" lines have no action

TNext == T_Reset \/ T_RxF \/ T_TxF \/ T_Dg \/ T_DgRx \/ T_AppOpen \/ T_EpSent
TSpec == TInit /\ [][TNext]_tvars
=============================================================================

SPECIFICATION TSpec
CONSTANTS
  KnownF14 = FALSE
  IdleUs = 20000000
  SlackUs = 1000000
POSTCONDITION TraceAccepted
CHECK_DEADLOCK FALSE

------------------------- MODULE Trace_Reassembler -------------------------
(* Trace validation of the real Reassembler: each recorded call must be an enabled step of the
   reference model with the logged verdict, and every logged observer must equal the model's. *)
EXTENDS Reassembler, TraceLib

VARIABLE l
tvars == <<rvars, l>>

IsEvent(e) == l <= NRec /\ Rec[l].ev = e /\ l' = l + 1

ObsOk(r) ==
  /\ r.len = ObsLen'
  /\ r.consumed = ObsConsumed'
  /\ r.total = ObsTotal'
  /\ r.final = ObsFinal'
  /\ r.wc = ObsWritingComplete'
  /\ r.rc = ObsReadingComplete'
  /\ r.empty = ObsIsEmpty'

TInit == RInit /\ l = 1

T_NewRun == IsEvent("reset") /\ Reset
T_Write  == IsEvent("write") /\ LET r == Rec[l] IN Write(r.o, r.n, r.fin, r.res) /\ ObsOk(r)
T_Pop    == IsEvent("pop")   /\ LET r == Rec[l] IN r.ok /\ Pop(r.w, r.n) /\ ObsOk(r)
T_Skip   == IsEvent("skip")  /\ LET r == Rec[l] IN Skip(r.n, r.res) /\ ObsOk(r)
T_Reset  == IsEvent("rreset") /\ LET r == Rec[l] IN Reset /\ ObsOk(r)
\* "panic" lines have no action: a panic in the code under test is a rejected trace.

TNext == T_NewRun \/ T_Write \/ T_Pop \/ T_Skip \/ T_Reset
TSpec == TInit /\ [][TNext]_tvars
=============================================================================

---------------------------- MODULE Trace_Liveness ----------------------------
EXTENDS Liveness, TraceLib
VARIABLE l
IsEvent(e) == l <= NRec /\ Rec[l].ev = e /\ l' = l + 1
TInit == LInit /\ l = 1
ModeOf(sc) == IF sc.family \in {"heal", "clean", "tiny", "lossy", "trickle", "credit_loss", "enum"} THEN "heal" ELSE IF sc.family = "blackhole" THEN "dead" ELSE "free"
HealOf(sc) == IF "heal_at_us" \in DOMAIN sc.net THEN sc.net.heal_at_us ELSE 0
T_Reset == IsEvent("reset") /\ LET sc == Rec[l].sc IN Set(LFresh(ModeOf(sc), Min2(sc.c.idle_ms, sc.s.idle_ms) * 1000, HealOf(sc)))
T_RxP == IsEvent("rxp") /\ Rx(Rec[l].ep, Rec[l].t)
T_TxP == IsEvent("txp") /\ (IF Rec[l].el THEN TxEliciting(Rec[l].ep, Rec[l].t) ELSE UNCHANGED lvars)
T_Metrics == IsEvent("metrics") /\ LET r == Rec[l] IN MetricsSeen(r.ep, r.srtt, r.rttvar, r.mad, r.pto_count)
T_Closed == IsEvent("conn_closed") /\ LET r == Rec[l] IN Closed(r.ep, r.error.kind, r.t)
T_SendCall == IsEvent("app_send_call") /\ SendCall(Rec[l].ep, Rec[l].id)
T_Send == IsEvent("app_send") /\ SendOk(Rec[l].ep, Rec[l].id)
T_Finish == IsEvent("app_finish") /\ Finished(Rec[l].ep, Rec[l].id)
T_Done == IsEvent("app_send_done") /\ SendDone(Rec[l].ep, Rec[l].id)
T_Eos == IsEvent("app_eos") /\ Eos(Rec[l].ep, Rec[l].id)
T_SendErr == IsEvent("app_send_err") /\ Failed(Rec[l].ep, Rec[l].id)
T_RecvErr == IsEvent("app_recv_err") /\ Failed(Rec[l].ep, Rec[l].id)
T_ResetS == IsEvent("app_reset") /\ Released(Rec[l].id)
T_Stop == IsEvent("app_stop") /\ Released(Rec[l].id)
T_End == IsEvent("sim_end") /\ End(Rec[l].t)
\* no action for: stall, panic, app_timeout
TNext == T_Reset \/ T_RxP \/ T_TxP \/ T_Metrics \/ T_Closed \/ T_SendCall \/ T_Send \/ T_Finish \/ T_Done \/ T_Eos \/ T_SendErr \/ T_RecvErr
         \/ T_ResetS \/ T_Stop \/ T_End
TSpec == TInit /\ [][TNext]_<<lvars, l>>
=============================================================================

SPECIFICATION TSpec
INVARIANT BifNonNegative
POSTCONDITION TraceAccepted
CHECK_DEADLOCK FALSE

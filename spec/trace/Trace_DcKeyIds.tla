--------------------------- MODULE Trace_DcKeyIds ---------------------------
(* Trace validation for C19.
   Sequential part: each post_authentication call of a real receiver::State is a Receive step of
   ReplayWindow with the logged verdict, and minimum_unseen_key_id equals the model's.
   Concurrent part: per-thread logs of real multi-threaded runs.  Calls are atomic (mutex / atomic
   RMW) but their global order is not observed, so the specification keeps only what every
   linearisation must satisfy: an id is accepted (issued) at most once over all threads; an
   "already exists" verdict needs an acceptance of that id; an "unknown" verdict needs the reserved
   id or an accepted id at least W above; ids issued to one thread increase and respect every
   StaleKey floor that thread had already applied. *)
EXTENDS ReplayWindow, TraceLib, FiniteSets
VARIABLES l, okd, existsIds, unknownIds, issued, lastOf, floorOf
tvars == <<rwvars, l, okd, existsIds, unknownIds, issued, lastOf, floorOf>>
cvars == <<okd, existsIds, unknownIds, issued, lastOf, floorOf>>
Threads == 0..15
IsEvent(e) == l <= NRec /\ Rec[l].ev = e /\ l' = l + 1

CInit == okd = {} /\ existsIds = {} /\ unknownIds = {} /\ issued = {} /\ lastOf = [t \in Threads |-> None] /\ floorOf = [t \in Threads |-> 0]
TInit == RWInit /\ l = 1 /\ CInit

T_Reset == IsEvent("reset") /\ maxSeen' = None /\ seen' = {} /\ okd' = {} /\ existsIds' = {} /\ unknownIds' = {} /\ issued' = {}
             /\ lastOf' = [t \in Threads |-> None] /\ floorOf' = [t \in Threads |-> 0]
T_Recv == IsEvent("recv") /\ LET r == Rec[l] IN Receive(r.id, r.res) /\ r.minunseen = MinUnseen' /\ UNCHANGED cvars

T_CRecv == IsEvent("crecv") /\ LET r == Rec[l] IN
   /\ r.res \in {"ok", "exists", "unknown"}
   /\ r.res = "ok" => r.id \notin okd /\ r.id # MaxId          \* at most once, over all threads
   /\ okd' = IF r.res = "ok" THEN okd \cup {r.id} ELSE okd
   /\ existsIds' = IF r.res = "exists" THEN existsIds \cup {r.id} ELSE existsIds
   /\ unknownIds' = IF r.res = "unknown" THEN unknownIds \cup {r.id} ELSE unknownIds
   /\ UNCHANGED <<rwvars, issued, lastOf, floorOf>>
T_CEnd == IsEvent("cend") /\
   \* (" = TRUE" makes TLC evaluate the quantified formula as a predicate instead of splitting it into sub-actions)
   /\ (\A id \in existsIds : id \in okd) = TRUE
   /\ (\A id \in unknownIds : (id = MaxId \/ \E x \in okd : x - id >= W)) = TRUE
   /\ UNCHANGED <<rwvars, cvars>>

\* end of a long ascending run over 0..n-1: every id was offered by every thread, the window always covered
\* the ids in play, so each id must have been accepted exactly once (at-most-once is checked per event)
T_CEndLong == IsEvent("cend_long") /\
   /\ (\A id \in 0..(Rec[l].n - 1) : id \in okd) = TRUE
   /\ UNCHANGED <<rwvars, cvars>>

T_CNext == IsEvent("cnext") /\ LET r == Rec[l] IN
   /\ r.id \notin issued                                         \* never issued twice
   /\ lastOf[r.th] = None \/ r.id > lastOf[r.th]
   /\ r.id >= floorOf[r.th]
   /\ r.id < MaxId
   /\ issued' = issued \cup {r.id}
   /\ lastOf' = [lastOf EXCEPT ![r.th] = r.id]
   /\ UNCHANGED <<rwvars, okd, existsIds, unknownIds, floorOf>>
T_CStale == IsEvent("cstale") /\ LET r == Rec[l] IN
   /\ floorOf' = [floorOf EXCEPT ![r.th] = IF r.m > @ THEN r.m ELSE @]
   /\ UNCHANGED <<rwvars, okd, existsIds, unknownIds, issued, lastOf>>

TNext == T_Reset \/ T_Recv \/ T_CRecv \/ T_CEnd \/ T_CEndLong \/ T_CNext \/ T_CStale
TSpec == TInit /\ [][TNext]_tvars
=============================================================================

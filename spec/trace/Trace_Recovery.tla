---------------------------- MODULE Trace_Recovery ----------------------------
(* one instance of Recovery per run and endpoint: the orchestrator splits the master trace by endpoint
   (events of endpoint E only: the specification is about one endpoint's own bookkeeping) *)
EXTENDS Recovery, TraceLib
VARIABLE l
IsEvent(e) == l <= NRec /\ Rec[l].ev = e /\ l' = l + 1
TInit == RInit /\ l = 1
T_Reset == IsEvent("reset") /\ sent' = RFresh.sent /\ resolvedMax' = RFresh.resolvedMax /\ lastCc' = RFresh.lastCc /\ largestAcked' = RFresh.largestAcked
           /\ pendingLoss' = RFresh.pendingLoss /\ bif' = RFresh.bif /\ ptoCount' = RFresh.ptoCount /\ minLatest' = RFresh.minLatest
           /\ maxLatest' = RFresh.maxLatest /\ paths' = RFresh.paths /\ preDiscard' = RFresh.preDiscard /\ closing' = RFresh.closing /\ prevRtt' = RFresh.prevRtt
T_TxP == IsEvent("txp") /\ TxSeen(Rec[l].sp, Rec[l].pn, Rec[l].cc)
T_Sent == IsEvent("packet_sent") /\ LET r == Rec[l] IN IF r.sp \in Sp THEN PacketSent(r.sp, r.pn, r.len, r.t) ELSE UNCHANGED rvars
T_Ack == IsEvent("ack_range") /\ LET r == Rec[l] IN AckRange(r.sp, r.lo, r.hi)
T_Lost == IsEvent("packet_lost") /\ LET r == Rec[l] IN PacketLost(r.sp, r.pn, r.t)
T_Metrics == IsEvent("metrics") /\ LET r == Rec[l] IN IF r.path = 0 THEN Metrics(r.srtt, r.latest, r.min_rtt, r.bif, r.pto_count) ELSE MetricsOtherPath
T_Discard == IsEvent("space_discarded") /\ (IF Rec[l].sp \in Sp THEN SpaceDiscarded(Rec[l].sp) ELSE UNCHANGED rvars)
T_TxF == IsEvent("txf") /\ (IF Rec[l].ty = "conn_close" THEN CloseSent ELSE UNCHANGED rvars)
T_Path == IsEvent("active_path") /\ MorePaths
TNext == T_TxF \/ T_Reset \/ T_TxP \/ T_Sent \/ T_Ack \/ T_Lost \/ T_Metrics \/ T_Discard \/ T_Path
TSpec == TInit /\ [][TNext]_<<rvars, l>>
=============================================================================

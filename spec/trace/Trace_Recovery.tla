---------------------------- MODULE Trace_Recovery ----------------------------
(* one instance of Recovery per run and endpoint: the orchestrator splits the master trace by endpoint
   (events of endpoint E only: the specification is about one endpoint's own bookkeeping) *)
EXTENDS Recovery, TraceLib
VARIABLE l
IsEvent(e) == l <= NRec /\ Rec[l].ev = e /\ l' = l + 1
TInit == RInit /\ l = 1
T_Reset == IsEvent("reset") /\ sent' = RFresh.sent /\ resolvedMax' = RFresh.resolvedMax /\ lastCc' = RFresh.lastCc /\ largestAcked' = RFresh.largestAcked
           /\ pendingLoss' = RFresh.pendingLoss /\ bif' = RFresh.bif /\ ptoCount' = RFresh.ptoCount /\ minLatest' = RFresh.minLatest
           /\ maxLatest' = RFresh.maxLatest /\ paths' = RFresh.paths /\ preDiscard' = RFresh.preDiscard /\ closing' = RFresh.closing /\ prevRtt' = RFresh.prevRtt
T_TxP == IsEvent("txp") /\ TxSeen(Rec[l].sp, Rec[l].pn, Rec[l].cc)
T_Sent == IsEvent("packet_sent") /\ LET r == Rec[l] IN IF r.sp \in Sp THEN PacketSent(r.sp, r.pn, r.len, r.t) ELSE UNCHANGED rvars
\* ack_range_received is published BEFORE the range is validated (recovery/manager.rs): a range naming a packet that was never
\* sent is admissible only if the endpoint reacts by closing at once - the next packet it builds is its CONNECTION_CLOSE and
\* nothing is declared lost or sent in between (RFC 9000 13.1); it resolves nothing
UnsentAckRefused(i) == LET J == {j \in (i + 1)..NRec : Rec[j].ev \in {"txf", "packet_sent", "packet_lost"}} IN
                       J # {} /\ Rec[CHOOSE j \in J : \A k \in J : j <= k].ev = "txf"
T_Ack == IsEvent("ack_range") /\ LET r == Rec[l] IN
           IF r.hi > resolvedMax[r.sp] /\ ~closing THEN UnsentAckRefused(l) /\ UNCHANGED rvars
           ELSE IF r.hi > resolvedMax[r.sp] THEN UNCHANGED rvars
           ELSE AckRange(r.sp, r.lo, r.hi)
T_Lost == IsEvent("packet_lost") /\ LET r == Rec[l] IN PacketLost(r.sp, r.pn, r.t, r.spath)
T_Metrics == IsEvent("metrics") /\ LET r == Rec[l] IN Metrics(r.path, r.srtt, r.latest, r.min_rtt, r.bif, r.pto_count)
T_Discard == IsEvent("space_discarded") /\ (IF Rec[l].sp \in Sp THEN SpaceDiscarded(Rec[l].sp) ELSE UNCHANGED rvars)
T_TxF == IsEvent("txf") /\ (IF Rec[l].ty = "conn_close" THEN CloseSent ELSE UNCHANGED rvars)
\* a Retry packet: accepted unless the very next event of this endpoint says it was discarded (second Retry, bad tag)
T_Retry == IsEvent("packet_received") /\
           (IF l + 1 <= NRec /\ Rec[l + 1].ev = "packet_dropped" THEN UNCHANGED rvars ELSE RetryAccepted)
T_RetryDropped == IsEvent("packet_dropped") /\ UNCHANGED rvars
T_End == IsEvent("sim_end") /\ EndOfRun
T_Path == IsEvent("active_path") /\ MorePaths
TNext == T_TxF \/ T_Reset \/ T_TxP \/ T_Sent \/ T_Ack \/ T_Lost \/ T_Metrics \/ T_Discard \/ T_Path \/ T_Retry \/ T_RetryDropped \/ T_End
TSpec == TInit /\ [][TNext]_<<rvars, l>>
=============================================================================

--------------------------- MODULE Trace_PacketFlow ---------------------------
EXTENDS PacketFlow, TraceLib
CONSTANT AllowTransportClose     \* FALSE: a connection_closed with a transport error / stateless reset is unexplained (C06)
VARIABLES l, closeSeen           \* closeSeen[e]: e saw an application close by itself or by the peer
tvars == <<pvars, l, closeSeen>>
IsEvent(e) == l <= NRec /\ Rec[l].ev = e /\ l' = l + 1
TInit == PInit /\ l = 1 /\ closeSeen = [e \in Ep |-> FALSE]
T_Reset == IsEvent("reset") /\ LET sc == Rec[l].sc IN PReset(sc.c.max_ack_delay_ms * 1000, sc.s.max_ack_delay_ms * 1000) /\ closeSeen' = [e \in Ep |-> FALSE]
T_TxP == IsEvent("txp") /\ LET r == Rec[l] IN TxPacket(r.ep, r.sp, r.pn, r.hash, r.t) /\ UNCHANGED closeSeen
T_TxF == IsEvent("txf") /\ LET r == Rec[l] IN
  /\ IF r.ty = "ack" THEN TxAck(r.ep, r.sp, r.pn, r.ranges)
     ELSE IF r.ty = "conn_close" THEN StopSending(r.ep)
     ELSE UNCHANGED pvars
  /\ UNCHANGED closeSeen
T_RxP == IsEvent("rxp") /\ LET r == Rec[l] IN RxPacket(r.ep, r.sp, r.pn, r.hash, r.t, r.el) /\ UNCHANGED closeSeen
T_RxF == IsEvent("rxf") /\ LET r == Rec[l] IN
  /\ IF r.ty = "conn_close" THEN StopSending(r.ep) ELSE IF r.ty = "ack" THEN RxAck(r.ep, r.sp, r.ranges) ELSE UNCHANGED pvars
  /\ UNCHANGED closeSeen
\* a connection ends: only for a reason the applications or the peer really gave (no forged / garbled datagram closes it)
T_Closed == IsEvent("conn_closed") /\ LET r == Rec[l] IN
  /\ AllowTransportClose \/ r.error.kind \in {"application", "closed", "idle", "handshake_duration", "endpoint_closing", "immediate_close"}
  /\ StopSending(r.ep)
  /\ UNCHANGED closeSeen
\* the max_ack_delay an endpoint must honour is the one it ADVERTISED: the value its peer received in the transport parameters
T_Tp == IsEvent("tp") /\ LET r == Rec[l] IN
          mad' = [mad EXCEPT ![Other(r.ep)] = r.max_ack_delay]
          /\ UNCHANGED <<genuine, processed, lastTx, pending, maySend, pacedUntil, ackSent, ackFloor, closeSeen>>
T_Paced == IsEvent("pacing") /\ Paced(Rec[l].ep, Rec[l].until) /\ UNCHANGED closeSeen
T_End == IsEvent("sim_end") /\ Tick(Rec[l].t) /\ UNCHANGED closeSeen
TNext == T_Tp \/ T_Paced \/ T_Reset \/ T_TxP \/ T_TxF \/ T_RxP \/ T_RxF \/ T_Closed \/ T_End
TSpec == TInit /\ [][TNext]_tvars
=============================================================================

-------------------------- MODULE Trace_Amplification --------------------------
EXTENDS Amplification, TraceLib
VARIABLES l, cClosing
IsEvent(e) == l <= NRec /\ Rec[l].ev = e /\ l' = l + 1
TInit == AInit /\ l = 1 /\ cClosing = FALSE
T_Reset == IsEvent("reset") /\ AReset /\ cClosing' = FALSE
\* server connection events
T_DgRecv == IsEvent("datagram_received") /\ (IF Rec[l].ep = "s" THEN ServerRx(Rec[l].conn, Rec[l].len) ELSE UNCHANGED avars) /\ UNCHANGED cClosing
T_DgSent == IsEvent("datagram_sent") /\ (IF Rec[l].ep = "s" THEN ServerTx(Rec[l].conn, Rec[l].len) ELSE UNCHANGED avars) /\ UNCHANGED cClosing
T_RxP == IsEvent("rxp") /\ (IF Rec[l].ep = "s" /\ Rec[l].sp = "h" THEN ServerValidated(Rec[l].conn) ELSE UNCHANGED avars) /\ UNCHANGED cClosing
T_TxP == IsEvent("txp") /\ (IF Rec[l].ep = "c" /\ Rec[l].sp = "i" THEN ClientWroteInitial ELSE UNCHANGED avars) /\ UNCHANGED cClosing
T_TxF == IsEvent("txf") /\ UNCHANGED avars /\ cClosing' = (cClosing \/ (Rec[l].ep = "c" /\ Rec[l].ty = "conn_close"))
T_Drop == IsEvent("endpoint_datagram_dropped") /\ (IF Rec[l].ep = "s" THEN Unroutable(Rec[l].len, FALSE) ELSE UNCHANGED avars) /\ UNCHANGED cClosing
T_EpSent == IsEvent("endpoint_packet_sent") /\ (IF Rec[l].ep = "s" THEN Announce(Rec[l].kind) ELSE UNCHANGED avars) /\ UNCHANGED cClosing
T_Dg == IsEvent("dg") /\ LET r == Rec[l] IN
          (IF r.dir = "s2c" THEN ServerDatagram(r.len, r.dst)
           ELSE ClientDatagram(r.len, cClosing, IF r.act \in {"dup", "replay_late", "corrupt_copy"} THEN 2
                                                ELSE IF r.act \in {"pass", "hold", "corrupt"} THEN 1 ELSE 0)) /\ UNCHANGED cClosing
\* a forged datagram the attacker sends to the server is as good a reason for a Retry as a genuine one
T_Inject == IsEvent("inject") /\ eligible' = (IF Rec[l].to_server THEN eligible + 1 ELSE eligible)
            /\ UNCHANGED <<rcvd, sentB, valid, triggers, pendingKind, clientInitial, answered, retries, cClosing, pvars>>
T_Rxd == IsEvent("rxd") /\ (IF Rec[l].ep = "s" THEN ServerSaw(Rec[l].raddr) ELSE UNCHANGED avars) /\ UNCHANGED cClosing
T_RxF == IsEvent("rxf") /\ (IF Rec[l].ep = "s" /\ Rec[l].conn = 0 /\ Rec[l].ty = "path_response" THEN PathValidated ELSE UNCHANGED avars) /\ UNCHANGED cClosing
TNext == T_Rxd \/ T_RxF \/ T_Inject \/ T_Reset \/ T_DgRecv \/ T_DgSent \/ T_RxP \/ T_TxP \/ T_TxF \/ T_Drop \/ T_EpSent \/ T_Dg
TSpec == TInit /\ [][TNext]_<<avars, l, cClosing>>
=============================================================================

SPECIFICATION TSpec
CONSTANT MaxOffset = 2000000000
INVARIANT RTypeOK
POSTCONDITION TraceAccepted
CHECK_DEADLOCK FALSE

---------------------------- MODULE Trace_ConnIds ----------------------------
EXTENDS ConnIds, TraceLib
VARIABLE l
IsEvent(e) == l <= NRec /\ Rec[l].ev = e /\ l' = l + 1
TInit == CInit /\ l = 1
T_Reset == IsEvent("reset") /\ CReset
T_Tp == IsEvent("tp") /\ PeerLimit(Rec[l].ep, Rec[l].acid_limit)
T_TxF == IsEvent("txf") /\ LET r == Rec[l] IN
  CASE r.ty = "new_cid" -> TxNewConnectionId(r.ep, r.seq, r.rpt, r.cid, r.token)
    [] r.ty = "retire_cid" -> TxRetire(r.ep, r.seq)
    [] OTHER -> UNCHANGED cvars
T_RxF == IsEvent("rxf") /\ LET r == Rec[l] IN
  CASE r.ty = "new_cid" -> RxNewConnectionId(r.ep, r.seq)
    [] r.ty = "retire_cid" -> RxRetire(r.ep, r.seq)
    [] OTHER -> UNCHANGED cvars
TNext == T_Reset \/ T_Tp \/ T_TxF \/ T_RxF
TSpec == TInit /\ [][TNext]_<<cvars, l>>
=============================================================================

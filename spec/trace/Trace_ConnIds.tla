---------------------------- MODULE Trace_ConnIds ----------------------------
EXTENDS ConnIds, TraceLib
VARIABLE l
IsEvent(e) == l <= NRec /\ Rec[l].ev = e /\ l' = l + 1
TInit == CInit /\ l = 1
T_Reset == IsEvent("reset") /\ CReset
T_Tp == IsEvent("tp") /\ PeerLimit(Rec[l].ep, Rec[l].acid_limit)
Primary(r) == ~("conn" \in DOMAIN r) \/ r.conn = 0
T_TxF == IsEvent("txf") /\ LET r == Rec[l] IN
  IF ~Primary(r) THEN UNCHANGED cvars ELSE
  CASE r.ty = "new_cid" -> TxNewConnectionId(r.ep, r.seq, r.rpt, r.cid, r.token)
    [] r.ty = "retire_cid" -> TxRetire(r.ep, r.seq)
    [] OTHER -> UNCHANGED cvars
T_RxF == IsEvent("rxf") /\ LET r == Rec[l] IN
  IF ~Primary(r) THEN UNCHANGED cvars ELSE
  CASE r.ty = "new_cid" -> RxNewConnectionId(r.ep, r.seq)
    [] r.ty = "retire_cid" -> RxRetire(r.ep, r.seq)
    [] OTHER -> UNCHANGED cvars
\* datagrams: handed to the socket by a connection or by the endpoint itself (stateless reset, retry, version negotiation),
\* then seen on the network in the same order
T_DgSent == IsEvent("datagram_sent") /\ (IF Primary(Rec[l]) THEN DatagramClosed(Rec[l].ep) ELSE
               outq' = [outq EXCEPT ![Rec[l].ep] = Append(@, {})] /\ UNCHANGED <<issued, retiredByPeer, maxRpt, limit, peerIssued, seq0, retiring, lastRx, gone>>)
T_EpSent == IsEvent("endpoint_packet_sent") /\ outq' = [outq EXCEPT ![Rec[l].ep] = Append(@, {})]
            /\ UNCHANGED <<issued, retiredByPeer, maxRpt, limit, peerIssued, seq0, retiring, lastRx, gone>>
T_Dg == IsEvent("dg") /\ LET r == Rec[l] IN DatagramSeen(IF r.dir = "c2s" THEN "c" ELSE "s", r.dcid, r.scid)
T_Rxd == IsEvent("rxd") /\ DatagramReceived(Rec[l].ep, Rec[l].dcid)
T_Drop == IsEvent("endpoint_datagram_dropped") /\ UnknownDestination(Rec[l].ep)
\* the peers in these runs are honest (frames may be lost, delayed, retransmitted, duplicated - never invalid): an endpoint that
\* ends the connection with a transport error of its own finding has misjudged a legitimate frame (e.g. a retransmitted
\* RETIRE_CONNECTION_ID taken for another sequence number)
T_Closed == IsEvent("conn_closed") /\ LET r == Rec[l] IN
              /\ Primary(r) => ~(r.error.kind = "transport" /\ r.error.local)
              /\ (IF Primary(r) THEN ConnectionGone(r.ep) ELSE UNCHANGED cvars)
TNext == T_Reset \/ T_Tp \/ T_TxF \/ T_RxF \/ T_DgSent \/ T_EpSent \/ T_Dg \/ T_Rxd \/ T_Drop \/ T_Closed
TSpec == TInit /\ [][TNext]_<<cvars, l>>
=============================================================================

--------------------------- MODULE Trace_DcControl ---------------------------
EXTENDS DcControl, TraceLib
CONSTANT KnownF15
VARIABLES l, hsSeen
IsEvent(e) == l <= NRec /\ Rec[l].ev = e /\ l' = l + 1
TInit == DInit /\ l = 1 /\ hsSeen = 0
T_Reset == IsEvent("reset") /\ Reset /\ hsSeen' = 0
\* the handshake-request count is observed, not chosen: after authentic ReplayDetected / UnknownPathSecret packets (each may request one) the next observation fixes it
T_Obs == IsEvent("obs") /\ LET r == Rec[l] IN
           /\ cur # None => r.next = cur
           /\ cur = None \/ (r.has = has /\ r.hs >= hs /\ r.hs <= hs + hsSeen)
           /\ cur' = r.next + 1 /\ has' = r.has /\ hs' = r.hs /\ hsSeen' = 0
\* the harness draws a key id to protect a packet
T_Draw == IsEvent("draw") /\ (cur # None => Rec[l].id = cur) /\ cur' = Rec[l].id + 1 /\ UNCHANGED <<has, hs, hsSeen>>
T_Ctl == IsEvent("ctl") /\ LET r == Rec[l] IN
           IF ~r.auth THEN ~r.accepted /\ UNCHANGED <<dvars, hsSeen>>
           ELSE /\ r.accepted
                /\ CASE r.kind = "stale_key" -> cur' = Max2(cur, r.m) /\ UNCHANGED <<has, hs, hsSeen>>
                     [] r.kind \in {"replay_detected", "unknown_path_secret"} -> UNCHANGED dvars /\ hsSeen' = hsSeen + 1
                     [] OTHER -> FALSE
\* known finding F15: in a RETRANSMITTED stream packet the packet-space bit of the tag byte (0x10) is cleared before the
\* authentication tag is checked (packet/stream/decoder.rs remove_retransmit) and the retransmission tag covers only
\* the two packet numbers: flipping exactly that bit goes unnoticed (the bit is then ignored, so nothing else follows)
F15Bit(r) == r.kind = "stream_retx" /\ r.mutated /\ Has(r, "at") /\ r.at = 0 /\ Has(r, "xor") /\ r.xor = 16 /\ r.decoded /\ r.authentic
T_Data == IsEvent("data") /\ LET r == Rec[l] IN
            (IF KnownF15 /\ F15Bit(r) THEN PrintT(<<"KNOWN-FINDING", "F15">>) /\ UNCHANGED dvars
             ELSE Data(r.mutated, r.decoded, r.authentic, r.roundtrip)) /\ UNCHANGED hsSeen
T_Junk == IsEvent("junk") /\ UNCHANGED <<dvars, hsSeen>>
\* no action for "panic"
TNext == T_Draw \/ T_Reset \/ T_Obs \/ T_Ctl \/ T_Data \/ T_Junk
TSpec == TInit /\ [][TNext]_<<dvars, l, hsSeen>>
=============================================================================

---------------------------- MODULE Trace_Interop ----------------------------
(* C07: s2n-quic against an independent RFC 9000/9001 implementation (quiche), either role, over a lossy / reordering
   relay.  Stream delivery is the DcPipe specification (exact bytes, in order, end of stream at the written length, the
   client's exchanges complete); on top of it: the handshake completes on both sides, and neither side ends the
   connection with a transport error - the only admissible endings are the application close (code 0) the client issues
   when it is done, as seen by each side. *)
EXTENDS DcPipe, TraceLib
VARIABLES l, closing
IsEvent(e) == l <= NRec /\ Rec[l].ev = e /\ l' = l + 1
TInit == PInit /\ l = 1 /\ closing = FALSE
T_Reset == IsEvent("reset") /\ Reset("lossy", None) /\ closing' = FALSE
T_Hs == IsEvent("hs") /\ Rec[l].ok /\ UNCHANGED pvars /\ UNCHANGED closing
T_Closed == IsEvent("closed") /\ LET x == Rec[l] IN
   \* the closing datagram itself may be lost: the side that did not close may then run into its idle timeout
   /\ (IF x.side \in {"quiche_client", "quiche_server"}
       THEN /\ x.established /\ (x.timed_out => closing)
            /\ x.peer_error \in {"none", "app"}        \* s2n-quic found nothing wrong with what quiche sent
            /\ x.local_error \in {"none", "app"}       \* quiche found nothing wrong with what s2n-quic sent
            /\ closing' = (closing \/ x.local_error = "app")
       ELSE /\ x.error.kind \in {"closed", "application"} \/ (x.error.kind = "idle" /\ closing)
            /\ closing' = (closing \/ (x.error.kind = "application" /\ x.error.local)))
   /\ UNCHANGED pvars
T_Open == IsEvent("open") /\ LET x == Rec[l] IN Open(x.k, x.t, x.client_mode, x.server_mode) /\ UNCHANGED closing
T_WStart == IsEvent("wstart") /\ LET x == Rec[l] IN WriteStart(x.pipe, x.off, x.len) /\ UNCHANGED closing
T_W == IsEvent("w") /\ WriteDone(Rec[l].pipe, Rec[l].off) /\ UNCHANGED closing
T_FinStart == IsEvent("wfin_start") /\ FinStart(Rec[l].pipe, Rec[l].total) /\ UNCHANGED closing
T_Fin == IsEvent("wfin") /\ UNCHANGED pvars /\ UNCHANGED closing
T_R == IsEvent("r") /\ LET x == Rec[l] IN Read(x.pipe, x.off, x.len, x.ok) /\ UNCHANGED closing
T_Eos == IsEvent("eos") /\ Eos(Rec[l].pipe, Rec[l].total) /\ UNCHANGED closing
T_ClientDone == IsEvent("client_done") /\ ClientDone(Rec[l].k) /\ UNCHANGED closing
T_End == IsEvent("end") /\ UNCHANGED pvars /\ UNCHANGED closing
\* the independent implementation issued a spare connection id (its own bookkeeping accepted it)
T_NewScid == IsEvent("quiche_new_scid") /\ Rec[l].ok /\ UNCHANGED pvars /\ UNCHANGED closing
\* no action for: rerr, werr, stall, panic, quiche_send_error, quiche_recv_error
TNext == T_Reset \/ T_Hs \/ T_Closed \/ T_Open \/ T_WStart \/ T_W \/ T_FinStart \/ T_Fin \/ T_R \/ T_Eos \/ T_ClientDone \/ T_End \/ T_NewScid
TSpec == TInit /\ [][TNext]_<<pvars, l, closing>>
=============================================================================

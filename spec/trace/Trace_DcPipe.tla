----------------------------- MODULE Trace_DcPipe -----------------------------
EXTENDS DcPipe, TraceLib
VARIABLE l
IsEvent(e) == l <= NRec /\ Rec[l].ev = e /\ l' = l + 1
TInit == PInit /\ l = 1
T_Reset == IsEvent("reset") /\ LET p == Rec[l].plan IN
             Reset(p.mode, IF p.mode = "vanish" /\ ~Has(p, "vanish_after_server_packets") THEN p.vanish_at_us ELSE None)
T_Vanished == IsEvent("vanished") /\ Vanished(Rec[l].t)
T_WStartFin == IsEvent("wstart_fin") /\ LET x == Rec[l] IN WriteStartFin(x.pipe, x.off, x.len)
T_RunEnd == IsEvent("run_end") /\ RunEnd
T_Open == IsEvent("open") /\ LET x == Rec[l] IN Open(x.k, x.t, x.client_mode, x.server_mode)
T_WStart == IsEvent("wstart") /\ LET x == Rec[l] IN WriteStart(x.pipe, x.off, x.len)
T_W == IsEvent("w") /\ WriteDone(Rec[l].pipe, Rec[l].off)
T_FinStart == IsEvent("wfin_start") /\ FinStart(Rec[l].pipe, Rec[l].total)
T_Fin == IsEvent("wfin") /\ UNCHANGED pvars
T_R == IsEvent("r") /\ LET x == Rec[l] IN Read(x.pipe, x.off, x.len, x.ok)
T_Eos == IsEvent("eos") /\ Eos(Rec[l].pipe, Rec[l].total)
T_RErr == IsEvent("rerr") /\ Error(Rec[l].pipe, Rec[l].t)
T_WErr == IsEvent("werr") /\ ErrorJustified(Rec[l].pipe, Rec[l].t)
          /\ IF Rec[l].kind = "header" THEN GaveUp(StreamOf(Rec[l].pipe)) ELSE UNCHANGED pvars
T_Dropped == IsEvent("dropped") /\ Dropped(Rec[l].pipe)
T_ClientDone == IsEvent("client_done") /\ ClientDone(Rec[l].k)
\* connect failures are justified like errors of the stream's request pipe
T_ConnectErr == IsEvent("connect_err") /\ ErrorJustified(2 * Rec[l].k, Rec[l].t) /\ GaveUp(Rec[l].k)
T_Other == (IsEvent("server_done") \/ IsEvent("server_head_err") \/ IsEvent("end") \/ IsEvent("fin_dropped") \/ IsEvent("lingering") \/ IsEvent("duplicated")) /\ UNCHANGED pvars
\* no action for: panic, stall
TNext == T_Reset \/ T_Open \/ T_WStart \/ T_W \/ T_FinStart \/ T_Fin \/ T_R \/ T_Eos \/ T_RErr \/ T_WErr \/ T_Dropped \/ T_ClientDone
         \/ T_ConnectErr \/ T_Other \/ T_Vanished \/ T_WStartFin \/ T_RunEnd
TSpec == TInit /\ [][TNext]_<<pvars, l>>
=============================================================================

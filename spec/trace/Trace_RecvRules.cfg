SPECIFICATION TSpec
CONSTANTS
  MaxStreamId = 255
  KnownF5 = FALSE
  KnownF16 = TRUE
POSTCONDITION TraceAccepted
CHECK_DEADLOCK FALSE

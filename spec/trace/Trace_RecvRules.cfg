SPECIFICATION TSpec
CONSTANTS
  MaxStreamId = 255
  KnownF5 = FALSE
POSTCONDITION TraceAccepted
CHECK_DEADLOCK FALSE

------------------------------- MODULE Trace_Wire -------------------------------
(* C05, impl -> spec: every byte string the harness offered to the real decoders (random, grammar-generated, mutated)
   with the decoder's verdict and fields; the reference parsers (Frames, Wire, Packets) must agree on every one.
   A decoder panic is an event without action. *)
EXTENDS Packets, TraceLib
VARIABLE l
IsEvent(e) == l <= NRec /\ Rec[l].ev = e /\ l' = l + 1
TInit == l = 1
T_Frame == IsEvent("frame") /\ LET r == Rec[l]
                                  p == ParseFrame(r.b) IN
             IF r.ok THEN p.ok /\ p.ty = r.ty /\ p.big = r.big /\ p.nat = r.nat /\ p.len = r.len /\ r.rt
             ELSE ~p.ok
\* encoders emit the shortest form and announce its size
T_VarEnc == IsEvent("varint_enc") /\ LET r == Rec[l] IN r.b = VarIntEncode(r.v) /\ r.size = Len(r.b)
T_VarDec == IsEvent("varint_dec") /\ LET r == Rec[l]
                                        p == VarAt(r.b, 1) IN
             IF r.ok THEN p.ok /\ p.v = r.v /\ p.p - 1 = r.len ELSE ~p.ok
\* a STREAM frame fitted into a capacity it does not fill must be followed by whatever comes next in the packet
T_FitSeq == IsEvent("fitseq") /\ LET r == Rec[l]
                                    p == ParseFrame(r.b) IN
             /\ p.ok /\ p.ty = "stream" /\ p.nat[4] = r.data
             /\ r.room => (p.len = Len(r.b) - 1 /\ ParseFrame(Drop(r.b, p.len)).ty = "ping")
T_Packet == IsEvent("packet") /\ LET r == Rec[l]
                                    p == ParsePacket(r.b, r.dcidlen) IN
             IF r.ok THEN p.ok /\ p.ty = r.ty /\ p.f = r.f /\ p.len = r.len ELSE ~p.ok
T_PnDec == IsEvent("pn_dec") /\ LET r == Rec[l] IN r.got = PnDecodeG(r.largest, r.trunc, r.bits, r.low, r.top)
\* the sender may choose more bytes than the minimum, never fewer, and the receiver recovers the number
T_PnEnc == IsEvent("pn_enc") /\ LET r == Rec[l] IN r.len >= PnLen(r.pn, r.largest) /\ r.back
TNext == T_FitSeq \/ T_Frame \/ T_VarEnc \/ T_VarDec \/ T_Packet \/ T_PnDec \/ T_PnEnc
TSpec == TInit /\ [][TNext]_l
=============================================================================

SPECIFICATION TSpec
CONSTANTS
  MaxStreamId = 127
  KnownF7 = TRUE
INVARIANT ETypeOK
POSTCONDITION TraceAccepted
CHECK_DEADLOCK FALSE

------------------------------ MODULE DcControl ------------------------------
(* s2n-quic-dc: only authenticated packets are acted upon.
   One client-side path-secret entry as the property sees it: the next key id it will issue (cur), whether the path
   secret is still in the map (has), how many handshakes the map has requested (hs).  Packets carry the ground truth
   `auth` (produced by the real peer for this very entry and not modified) - known to the harness, not to the code.
     forged (auth = FALSE): must be refused and must leave cur / has / hs exactly as they were;
     authentic StaleKey(m): accepted, cur' = max(cur, m) (replayable by design: monotone);
     authentic ReplayDetected: accepted, a handshake may be requested (map/state.rs: by design), nothing else changes;
     authentic UnknownPathSecret: accepted, a handshake may be requested, the entry is evicted only if it is older than
       ten seconds and eviction is enabled (never in these runs: entries are young).
   Data packets (stream / datagram): a mutated packet never both decodes and authenticates; a genuine one does both and
   round-trips. *)
EXTENDS Naturals, TLC
None == 0 - 1
VARIABLES cur, has, hs
dvars == <<cur, has, hs>>
DInit == cur = None /\ has = TRUE /\ hs = 0
Max2(a, b) == IF a >= b THEN a ELSE b
Reset == cur' = None /\ has' = TRUE /\ hs' = 0
\* the harness draws the next key id and reads the map
Observe(next, h, n) ==
  /\ cur # None => next = cur
  /\ cur = None \/ (h = has /\ n = hs)
  /\ cur' = next + 1 /\ has' = h /\ hs' = n
Control(kind, auth, accepted, m) ==
  IF ~auth THEN ~accepted /\ UNCHANGED dvars
  ELSE /\ accepted
       /\ CASE kind = "stale_key" -> cur' = Max2(cur, m) /\ UNCHANGED <<has, hs>>
            [] kind \in {"replay_detected", "unknown_path_secret"} -> UNCHANGED <<cur, has>> /\ hs' \in {hs, hs + 1}
            [] OTHER -> FALSE
Data(mutated, decoded, authentic, roundtrip) ==
  /\ mutated => ~(decoded /\ authentic)
  /\ ~mutated => (decoded /\ authentic /\ roundtrip)
  /\ UNCHANGED dvars
=============================================================================

------------------------------- MODULE LocalIds -------------------------------
(* The issuer side of connection IDs (C13): LocalIdRegistry of s2n-quic-transport, one action per public call of the
   registry, statuses as in local_id_registry.rs:

     "PI" PendingIssuance   "PR" PendingReissue   "PA" PendingAcknowledgement(pn)   "A" Active
     "PRC" PendingRetirementConfirmation(removal time or none)   "PRM" PendingRemoval(removal time)

   Time is in abstract ticks; Buffer is EXPIRATION_BUFFER (30 s in the code), Settle the 3*RTT wait after a peer's
   RETIRE_CONNECTION_ID.  Next to the registry's own state the module carries what is visible on the wire (the
   NEW_CONNECTION_ID frames transmitted, the sequence numbers the peer retired); the C13 rules are stated over that
   wire view alone, so they can be evaluated on a recorded trace of the real registry as well (Trace_LocalIds). *)
EXTENDS Naturals, FiniteSets, Sequences, TLC

CONSTANTS Limit,      \* the peer's active_connection_id_limit
          Rotate,     \* rotate_handshake_connection_id
          Lifetime,   \* lifetime of every issued id in ticks, 0 = unlimited (connection::id::Generator::lifetime)
          Buffer, Settle,
          MaxSeq, MaxTime, MaxPn

VARIABLES ids,        \* registered ids: seq -> [st, pn, retireAt, removeAt, exp]   (0 = none for the three times)
          next,       \* next_sequence_number
          rpt,        \* retire_prior_to
          now, pn,
          confirmed,  \* on_handshake_confirmed has run
          exps,       \* seq -> expiry announced at registration (0 = none); kept after removal
          frames,     \* wire: set of <<seq, retire_prior_to>> of NEW_CONNECTION_ID frames transmitted so far
          peerRetired \* wire: sequence numbers the peer retired with RETIRE_CONNECTION_ID
lvars == <<ids, next, rpt, now, pn, confirmed, exps, frames, peerRetired>>

Max(a, b) == IF a >= b THEN a ELSE b
Live == DOMAIN ids
IsRetired(s) == ids[s].st \in {"PRC", "PRM"}
Counts(s) == ~IsRetired(s)                                  \* counts_towards_limit
ActiveCount == Cardinality({s \in Live : Counts(s)})
Interest == IF Limit > ActiveCount THEN Limit - ActiveCount ELSE 0      \* connection_id_interest: New(n)
RetireReady(s) == ~IsRetired(s) /\ ids[s].retireAt # 0 /\ ids[s].retireAt <= now
RemovalTime(s) == IF IsRetired(s) THEN ids[s].removeAt ELSE 0
NextChange(s) == IF RemovalTime(s) # 0 THEN RemovalTime(s) ELSE ids[s].retireAt   \* next_status_change_time
Deadlines == {NextChange(s) : s \in Live} \ {0}
TimerArmed == Deadlines # {}
TimerDeadline == CHOOSE d \in Deadlines : \A e \in Deadlines : d <= e
Pending == {s \in Live : ids[s].st \in {"PI", "PR"}}
Issued == {0} \cup {f[1] : f \in frames}

LInit ==
  /\ ids = (0 :> [st |-> "A", pn |-> 0, retireAt |-> IF Lifetime = 0 THEN 0 ELSE Lifetime - Buffer, removeAt |-> 0,
                  exp |-> Lifetime])
  /\ next = 1 /\ rpt = 0 /\ now = 0 /\ pn = 1 /\ confirmed = FALSE
  /\ exps = (0 :> Lifetime)
  /\ frames = {} /\ peerRetired = {}

(* register_connection_id, called by the connection while connection_id_interest() asks for more *)
Register ==
  /\ Interest > 0 /\ next <= MaxSeq
  /\ ids' = ids @@ (next :> [st |-> "PI", pn |-> 0, retireAt |-> IF Lifetime = 0 THEN 0 ELSE now + Lifetime - Buffer,
                             removeAt |-> 0, exp |-> IF Lifetime = 0 THEN 0 ELSE now + Lifetime])
  /\ next' = next + 1
  /\ exps' = exps @@ (next :> IF Lifetime = 0 THEN 0 ELSE now + Lifetime)
  /\ UNCHANGED <<rpt, now, pn, confirmed, frames, peerRetired>>

(* on_transmit: the pending ids, oldest first, as far as the packet has room (k of them); lostOnly models the
   RetransmissionOnly constraint *)
Written(k, lostOnly) ==
  LET cand == IF lostOnly THEN {s \in Pending : ids[s].st = "PR"} ELSE Pending
  IN {s \in cand : Cardinality({t \in cand : t < s}) < k}
Transmit(k, lostOnly) ==
  /\ pn <= MaxPn
  /\ Written(k, lostOnly) # {}
  /\ ids' = [s \in Live |-> IF s \in Written(k, lostOnly) THEN [ids[s] EXCEPT !.st = "PA", !.pn = pn] ELSE ids[s]]
  /\ frames' = frames \cup {<<s, rpt>> : s \in Written(k, lostOnly)}
  /\ pn' = pn + 1
  /\ UNCHANGED <<next, rpt, now, confirmed, peerRetired, exps>>

Ack(p) ==
  /\ \E s \in Live : ids[s].st = "PA" /\ ids[s].pn = p
  /\ ids' = [s \in Live |-> IF ids[s].st = "PA" /\ ids[s].pn = p THEN [ids[s] EXCEPT !.st = "A"] ELSE ids[s]]
  /\ UNCHANGED <<next, rpt, now, pn, confirmed, frames, peerRetired, exps>>

Lose(p) ==
  /\ \E s \in Live : ids[s].st = "PA" /\ ids[s].pn = p
  /\ ids' = [s \in Live |-> IF ids[s].st = "PA" /\ ids[s].pn = p THEN [ids[s] EXCEPT !.st = "PR"] ELSE ids[s]]
  /\ UNCHANGED <<next, rpt, now, pn, confirmed, frames, peerRetired, exps>>

(* on_retire_connection_id from an honest peer: an id it was given, in a packet addressed to another id (d) it holds *)
PeerRetire(s, d) ==
  /\ s \in Issued /\ s \notin peerRetired
  /\ d \in Issued /\ d \notin peerRetired /\ d # s
  /\ peerRetired' = peerRetired \cup {s}
  /\ ids' = [t \in Live |-> IF t = s /\ ids[t].st # "PRM" THEN [ids[t] EXCEPT !.st = "PRM", !.removeAt = now + Settle]
                            ELSE ids[t]]
  /\ UNCHANGED <<next, rpt, now, pn, confirmed, frames, exps>>

HandshakeConfirmed ==
  /\ ~confirmed /\ confirmed' = TRUE
  /\ IF Rotate /\ 0 \in Live /\ ~IsRetired(0)
       THEN /\ ids' = [ids EXCEPT ![0].st = "PRC",
                                  ![0].removeAt = IF ids[0].retireAt = 0 THEN 0 ELSE ids[0].retireAt + Buffer]
            /\ rpt' = Max(rpt, 1)
       ELSE UNCHANGED <<ids, rpt>>
  /\ UNCHANGED <<next, now, pn, frames, peerRetired, exps>>

Tick == now < MaxTime /\ now' = now + 1 /\ UNCHANGED <<ids, next, rpt, pn, confirmed, frames, peerRetired, exps>>

(* on_timeout once the timer has expired (possibly late): ids past their retirement time are retired and
   retire_prior_to is raised past them, then ids past their removal time are dropped *)
Timeout ==
  /\ TimerArmed /\ TimerDeadline <= now
  /\ LET ready == {s \in Live : RetireReady(s)}
         after == [s \in Live |-> IF s \in ready THEN [ids[s] EXCEPT !.st = "PRC", !.removeAt = now + Buffer] ELSE ids[s]]
         gone == {s \in Live : after[s].st \in {"PRC", "PRM"} /\ after[s].removeAt # 0 /\ after[s].removeAt <= now}
     IN /\ ids' = [s \in Live \ gone |-> after[s]]
        /\ rpt' = IF ready = {} THEN rpt ELSE Max(rpt, 1 + CHOOSE m \in ready : \A x \in ready : x <= m)
  /\ UNCHANGED <<next, now, pn, confirmed, frames, peerRetired, exps>>

LNext ==
  \/ Register
  \/ \E k \in 1..3, lo \in BOOLEAN : Transmit(k, lo)
  \/ \E p \in 1..MaxPn : Ack(p) \/ Lose(p)
  \/ \E s, d \in 0..MaxSeq : PeerRetire(s, d)
  \/ HandshakeConfirmed \/ Tick \/ Timeout
LSpec == LInit /\ [][LNext]_lvars

-----------------------------------------------------------------------------
(* The C13 rules, over the wire view only (frames, peerRetired) plus the routing table (Live). *)

(* what a peer holds after receiving any part of the frames: everything it has been given, minus what the largest
   retire_prior_to it saw made it retire, minus what it retired by itself.  Taking, for every retire_prior_to value r
   on the wire, all frames that carried at most r covers every arrival order. *)
PeerHolds(fr, r, retired) == {s \in {0} \cup {f[1] : f \in {g \in fr : g[2] <= r}} : s >= r /\ s \notin retired}
WithinPeerLimit(fr, retired, limit) ==
  \A r \in {0} \cup {f[2] : f \in fr} : Cardinality(PeerHolds(fr, r, retired)) <= limit
NeverRetiresBeyondIssued(fr) == \A f \in fr : f[2] <= f[1]
Consecutive(fr) == LET S == {0} \cup {f[1] : f \in fr} IN \A s \in S : s = 0 \/ (s - 1) \in S
(* F12: an id that reaches its retirement time before its NEW_CONNECTION_ID frame was ever transmitted is retired
   unsent, so its sequence number never appears on the wire; every later frame then carries a retire_prior_to above it *)
SkippedOnlyRetired(fr) == LET S == {0} \cup {f[1] : f \in fr} IN
  \A s \in S : \A m \in 0..s : m \notin S => \A f \in fr : f[1] > m => f[2] > m

LimitOk == WithinPeerLimit(frames, peerRetired, Limit)
RptOk == NeverRetiresBeyondIssued(frames)
ConsecutiveOk == Consecutive(frames)
SkippedOk == SkippedOnlyRetired(frames)
(* an id given to the peer stays routable until the peer retired it or the lifetime announced for it has run out *)
Routable(issued, retired, live, ex, t) == \A s \in issued : (s \notin retired /\ (ex[s] = 0 \/ t < ex[s])) => s \in live
RoutableOk == Routable(Issued, peerRetired, Live, exps, now)
(* the registry never holds more ids than it may (the connection relies on it to decide how many to create) *)
InterestOk == ActiveCount <= Limit
=============================================================================

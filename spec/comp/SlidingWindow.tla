--------------------------- MODULE SlidingWindow ---------------------------
(* Reference model of the duplicate-detection window packet::number::SlidingWindow
   (RFC 4303 3.4.3 style): the right edge is the highest number inserted; numbers W or more
   below the edge are too old to judge; anything else is a duplicate iff it was inserted. *)
EXTENDS Naturals, FiniteSets, IntervalSets
CONSTANT W            \* 129 in the code
None == 0 - 1
VARIABLES edge, seen
WInit == edge = None /\ seen = {}
Verdict(pn) ==
  IF edge = None THEN "ok"
  ELSE IF pn > edge THEN "ok"
  ELSE IF pn = edge THEN "dup"
  ELSE IF edge - pn >= W THEN "old"
  ELSE IF pn \in seen THEN "dup" ELSE "ok"
Check(pn, res) == res = Verdict(pn) /\ UNCHANGED <<edge, seen>>
\* numbers that were still acceptable before the insert and are too old afterwards
Evicted(pn) ==
  IF edge = None \/ pn <= edge THEN {}
  ELSE {p \in 0..(edge - 1) : edge - p < W /\ p \notin seen /\ pn - p >= W}
Insert(pn, res) ==
  /\ res = Verdict(pn)
  /\ IF res = "ok"
     THEN /\ seen' = {p \in seen \cup {pn} : Max2(edge, pn) - p < W}
          /\ edge' = Max2(edge, pn)
     ELSE UNCHANGED <<edge, seen>>
WTypeOK == (edge = None => seen = {}) /\ (edge # None => edge \in seen /\ \A p \in seen : p <= edge /\ edge - p < W)
=============================================================================

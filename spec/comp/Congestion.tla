----------------------------- MODULE Congestion -----------------------------
(* The CUBIC congestion controller's state machine (quic/s2n-quic-core/src/recovery/cubic.rs) in integers:
   slow start / recovery (with the one-packet fast-retransmission allowance) / congestion avoidance, the
   under-utilised flag, the bytes-in-flight counter and the window.  The growth FUNCTION (CUBIC curve, HyStart) is
   abstracted to "any value between the old window and the cap the code applies"; everything else - when the window
   may move at all, by what rule it shrinks, what the floor is - is transcribed.

   The properties C10 states are written over this machine (Floor, Ledger, LossNeverIncreases, OncePerRoundTrip,
   FrozenWhileAppLimited, PersistentCollapses, MtuKeepsFloor) and checked by TLC; the same relations are what
   Trace_Congestion demands of the values the real controllers report. *)
EXTENDS Naturals, FiniteSets, Sequences, TLC
CONSTANTS MssSet,          \* datagram sizes an MTU update may choose
          Sizes,           \* packet sizes in bytes
          MaxPackets, MaxTime, TickSet
None == 0 - 1
Max2(a, b) == IF a >= b THEN a ELSE b
Min2(a, b) == IF a <= b THEN a ELSE b
MinWindow(m) == 2 * m
InitialWindow(m) == Max2(Min2(10 * m, Max2(14720, 2 * m)), MinWindow(m))
Beta(c) == (c * 7) \div 10

VARIABLES cwnd, bif, mss,
          st,          \* "ss" | "rec" | "ca"
          recStart,    \* time the current recovery period started
          reqTx,       \* Recovery(_, RequiresTransmission): one packet may leave although the window is full
          under,       \* under_utilized
          hi,          \* bytes_in_flight_hi
          ssthresh,    \* slow start threshold (None = infinite)
          now, out,    \* out: function id -> [size, t]  packets in flight
          nextId,
          mtuChanged,  \* an MTU update has happened: the CUBIC curve's state is in packets of the old size (see Ack)
          lastRed, ackedSince   \* history: time of the last reduction by loss/ECN, and whether a packet sent after it was acked
cvars == <<cwnd, bif, mss, st, recStart, reqTx, under, hi, ssthresh, now, out, nextId, lastRed, ackedSince, mtuChanged>>

CInit(m) == /\ mss = m /\ cwnd = InitialWindow(m) /\ bif = 0 /\ st = "ss" /\ recStart = None /\ reqTx = FALSE /\ under = TRUE
            /\ hi = 0 /\ ssthresh = None /\ now = 0 /\ out = <<>> /\ nextId = 0 /\ lastRed = None /\ ackedSince = FALSE /\ mtuChanged = FALSE

Limited(c, b, m) == (IF c >= b THEN c - b ELSE 0) < m
UnderUtilized(c, b, m, s) ==
  /\ ~Limited(c, b, m)
  /\ ~(s = "ss" /\ b >= c \div 2)
  /\ (IF c >= b THEN c - b ELSE 0) > 3 * m

SumOut(S) == LET RECURSIVE F(_) F(T) == IF T = {} THEN 0 ELSE LET x == CHOOSE y \in T : TRUE IN out[x].size + F(T \ {x}) IN F(S)

\* on_packet_sent (bytes_sent > 0); app \in {"yes", "no", "none"} (none: Initial / Handshake packets)
Send(size, app) ==
  /\ nextId < MaxPackets
  /\ bif' = bif + size
  /\ under' = (IF app = "none" THEN UnderUtilized(cwnd, bif + size, mss, st) ELSE app = "yes" /\ UnderUtilized(cwnd, bif + size, mss, st))
  /\ reqTx' = FALSE
  /\ out' = [x \in DOMAIN out \cup {nextId} |-> IF x = nextId THEN [size |-> size, t |-> now] ELSE out[x]]
  /\ nextId' = nextId + 1
  /\ UNCHANGED <<cwnd, mss, st, recStart, hi, ssthresh, now, lastRed, ackedSince, mtuChanged>>

\* on_ack for the set S of newly acknowledged packets; g: the growth the abstracted functions choose (0 .. cap - cwnd)
Ack(S, grow) ==
  LET acked == SumOut(S)
      newest == CHOOSE t \in {out[x].t : x \in S} : \A x \in S : out[x].t <= t
      hi2 == Max2(hi, bif)
      st2 == IF st = "rec" /\ newest > recStart THEN "ca" ELSE st
      cap == Max2(CASE st2 = "ss" -> 2 * hi2 [] st2 = "rec" -> cwnd [] OTHER -> (3 * hi2) \div 2, MinWindow(mss))
  IN
  /\ S # {} /\ S \subseteq DOMAIN out
  /\ hi' = hi2 /\ bif' = bif - acked
  /\ out' = [x \in DOMAIN out \ S |-> out[x]]
  /\ ackedSince' = (ackedSince \/ (lastRed # None /\ newest > lastRed))
  /\ IF under THEN UNCHANGED <<cwnd, st, ssthresh, mtuChanged>>
     ELSE IF cwnd >= cap \/ st2 = "rec" THEN cwnd' = cwnd /\ st' = st2 /\ UNCHANGED ssthresh
     ELSE \* congestion avoidance: the curve moves the window up, or leaves it; in the TCP-friendly region the code SETS the
          \* window to W_est (cubic.rs congestion_avoidance, no max() with the current window), which after an MTU update
          \* is computed from packets of the old size and can lie BELOW the current window: named, kept above the floor
          /\ cwnd' = (IF st2 = "ss" THEN Min2(cwnd + acked, cap)
                      ELSE IF grow = "up" THEN Min2(cwnd + mss, cap)
                      ELSE IF grow = "down" /\ mtuChanged THEN Max2(MinWindow(mss), cwnd \div 2) ELSE cwnd)
          /\ st' = (IF st2 = "ss" /\ ssthresh # None /\ cwnd' >= ssthresh THEN "ca" ELSE st2)
          /\ UNCHANGED ssthresh
  /\ UNCHANGED <<mss, recStart, reqTx, under, now, nextId, lastRed, mtuChanged>>

CongestionEvent(c) ==   \* the window after on_congestion_event, given the window c before
  IF st = "rec" THEN c ELSE Max2(Beta(c), MinWindow(mss))

\* on_packet_lost
Lost(x, persistent) ==
  /\ x \in DOMAIN out
  /\ bif' = bif - out[x].size
  /\ out' = [y \in DOMAIN out \ {x} |-> out[y]]
  /\ hi' = 0
  /\ LET c2 == CongestionEvent(cwnd) IN
     /\ cwnd' = (IF persistent THEN MinWindow(mss) ELSE c2)
     /\ st' = (IF persistent THEN "ss" ELSE "rec")
     /\ recStart' = (IF st = "rec" THEN recStart ELSE now)
     /\ reqTx' = (IF persistent THEN FALSE ELSE IF st = "rec" THEN reqTx ELSE TRUE)    \* the flag lives inside the Recovery state
     /\ ssthresh' = (IF st = "rec" THEN ssthresh ELSE IF ssthresh = None THEN c2 ELSE Min2(ssthresh, c2))
     \* persistent congestion ends the recovery period (RFC 9002 B.8: congestion_recovery_start_time = 0): the collapsed
     \* window starts a new history, a later signal may shrink whatever has grown since
     /\ lastRed' = (IF persistent THEN None ELSE IF c2 < cwnd THEN now ELSE lastRed)
     /\ ackedSince' = (IF persistent \/ c2 < cwnd THEN FALSE ELSE ackedSince)
  /\ UNCHANGED <<mss, under, now, nextId, mtuChanged>>

\* on_explicit_congestion
Ecn ==
  /\ hi' = 0
  /\ LET c2 == CongestionEvent(cwnd) IN
     /\ cwnd' = c2
     /\ st' = "rec"
     /\ recStart' = (IF st = "rec" THEN recStart ELSE now)
     /\ reqTx' = (IF st = "rec" THEN reqTx ELSE TRUE)
     /\ ssthresh' = (IF st = "rec" THEN ssthresh ELSE IF ssthresh = None THEN c2 ELSE Min2(ssthresh, c2))
     /\ lastRed' = (IF c2 < cwnd THEN now ELSE lastRed)
     /\ ackedSince' = (IF c2 < cwnd THEN FALSE ELSE ackedSince)
  /\ UNCHANGED <<bif, mss, under, now, out, nextId, mtuChanged>>

\* on_mtu_update
Mtu(m) ==
  /\ m # mss
  /\ mss' = m
  /\ cwnd' = Max2((cwnd * m) \div mss, InitialWindow(m))
  /\ mtuChanged' = TRUE
  /\ UNCHANGED <<bif, st, recStart, reqTx, under, hi, ssthresh, now, out, nextId, lastRed, ackedSince>>

\* on_packet_discarded
Discard(x) ==
  /\ x \in DOMAIN out
  /\ bif' = bif - out[x].size
  /\ out' = [y \in DOMAIN out \ {x} |-> out[y]]
  /\ reqTx' = FALSE
  /\ UNCHANGED <<cwnd, mss, st, recStart, under, hi, ssthresh, now, nextId, lastRed, ackedSince, mtuChanged>>

\* on_rtt_update: HyStart may lower the threshold; slow start ends when the window has reached it
RttUpdate(lower) ==
  /\ st = "ss"
  /\ LET th == IF lower THEN cwnd ELSE ssthresh IN
     /\ ssthresh' = th
     /\ st' = (IF th # None /\ cwnd >= th THEN "ca" ELSE st)
  /\ UNCHANGED <<cwnd, bif, mss, recStart, reqTx, under, hi, now, out, nextId, lastRed, ackedSince, mtuChanged>>

Tick(d) == now + d <= MaxTime /\ now' = now + d
           /\ UNCHANGED <<cwnd, bif, mss, st, recStart, reqTx, under, hi, ssthresh, out, nextId, lastRed, ackedSince, mtuChanged>>

\* prefixes and single packets are what an ACK frame newly acknowledges in this model
AckSets == {S \in SUBSET (DOMAIN out) : S # {} /\ (Cardinality(S) = 1 \/ \A x \in S, y \in DOMAIN out : y < x => y \in S)}

CNext ==
  \/ \E s \in Sizes, a \in {"yes", "no", "none"} : Send(s, a)
  \/ \E S \in AckSets, g \in {"up", "same", "down"} : Ack(S, g)
  \/ \E x \in DOMAIN out, p \in BOOLEAN : Lost(x, p)
  \/ Ecn
  \/ \E m \in MssSet : Mtu(m)
  \/ \E x \in DOMAIN out : Discard(x)
  \/ \E b \in BOOLEAN : RttUpdate(b)
  \/ \E d \in TickSet : Tick(d)

----------------------------------------------------------------------------
\* C10 over the machine
Floor == cwnd >= MinWindow(mss)
Ledger == bif = SumOut(DOMAIN out)
NoOverflow == cwnd < 2147483647
IsLossOrEcn == (\E x \in DOMAIN out, p \in BOOLEAN : Lost(x, p)) \/ Ecn
LossNeverIncreases == [][IsLossOrEcn => cwnd' <= cwnd]_cvars
\* a second shrink needs a packet sent after the first one to have been acknowledged (or persistent congestion)
OncePerRoundTrip ==
  [][((\E x \in DOMAIN out : Lost(x, FALSE)) \/ Ecn) /\ cwnd' < cwnd => (lastRed = None \/ ackedSince)]_cvars
FrozenWhileAppLimited == [][(\E S \in AckSets, g \in {"up", "same", "down"} : Ack(S, g)) /\ under => cwnd' = cwnd]_cvars
PersistentCollapses == [][(\E x \in DOMAIN out : Lost(x, TRUE)) => cwnd' = MinWindow(mss)]_cvars
\* the one-packet allowance exists only right after entering recovery
AllowanceOnlyInRecovery == reqTx => st = "rec"
=============================================================================

---------------------------- MODULE ReplayWindow ----------------------------
(* dc replay protection for one path secret (s2n_quic_dc::path::secret::receiver::State),
   written from the property text: a key id is accepted iff it is not the reserved maximum, was
   never accepted before, and is above, or less than W below, the highest id accepted so far. *)
EXTENDS Naturals, FiniteSets
CONSTANTS W,         \* 896 in the code
          MaxId      \* the reserved maximum key id (2^62-1 in the code; scaled in models)
None == 0 - 1
VARIABLES maxSeen,   \* highest id accepted so far, or None
          seen       \* ids accepted that are still inside the window
rwvars == <<maxSeen, seen>>
RWInit == maxSeen = None /\ seen = {}

Verdict(id) ==
  IF id = MaxId THEN "unknown"
  ELSE IF maxSeen = None THEN "ok"
  ELSE IF id > maxSeen THEN "ok"
  ELSE IF maxSeen - id >= W THEN "unknown"
  ELSE IF id \in seen THEN "exists" ELSE "ok"

Receive(id, res) ==
  /\ res = Verdict(id)
  /\ IF res = "ok"
     THEN LET nm == IF maxSeen = None \/ id > maxSeen THEN id ELSE maxSeen IN
          /\ maxSeen' = nm
          /\ seen' = {x \in seen \cup {id} : nm - x < W}
     ELSE UNCHANGED rwvars

MinUnseen == IF maxSeen = None THEN 0 ELSE maxSeen + 1
RWTypeOK == (maxSeen = None => seen = {}) /\ (maxSeen # None => maxSeen \in seen /\ \A x \in seen : x <= maxSeen /\ maxSeen - x < W)
=============================================================================

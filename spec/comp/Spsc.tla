-------------------------------- MODULE Spsc --------------------------------
(* quic/s2n-quic-core/src/sync/spsc (state.rs, send.rs, recv.rs) at the granularity of single atomic operations, under a
   release/acquire memory model, with the memory ordering of every atomic operation a CONSTANT that the check takes from
   the source code as it is now.

   Memory model (two threads): every atomic location is a history of messages [val, rel, view]; a thread's view says, per
   location, the oldest message it may still read (coherence) and carries a vector clock for the non-atomic slot accesses.
   A load reads ANY message not older than the thread's view of that location; if the load is an acquire and the message
   was written by a release, the reader joins the writer's view.  A store appends a message; read-modify-writes read the
   latest message.  Slot accesses are non-atomic: an access that is not ordered (by the vector clocks) after the last
   conflicting access is a data race, a read of a slot that holds nothing is an uninitialised read.
   AtomicWaker (crate atomic-waker, trusted) is an object with atomic register / wake operations that synchronise.

   Sender: for every batch  poll_slice = acquire_capacity [open.load; head.load] - if full: register, acquire_capacity
   again, park - write slots, persist_tail [tail.store; receiver.wake]; finally Drop = close(Sender).
   Receiver: poll_slice = acquire_filled [tail.load; if empty: open.load; if closed: tail.load] - if empty: register,
   acquire_filled again, park - take slots, persist_head [head.store; sender.wake]; may drop at any poll; Drop = close.
   close(side) = wake(other); open.swap(false); wake(other); if it was already closed: drop_contents [head.load; tail.load;
   take what is left]. *)
EXTENDS Naturals, Sequences, FiniteSets, TLC
CONSTANTS Cap,            \* ring size (a power of two, >= 2); Cap - 1 slots are usable
          Items,          \* number of items the sender pushes
          MaxBatch,       \* at most this many slots are written before the tail is published
          ReceiverMayDrop,
          WakeAfterStore,        \* persist_head / persist_tail: the index is stored BEFORE the other side is woken
          RecheckAfterRegister,  \* poll_slice looks again after registering its waker
          WakeAfterSwap,         \* close() wakes the other side (also) AFTER open.swap(false)
          OrdOpenLoadS, OrdHeadLoad, OrdTailLoad, OrdOpenLoadR, OrdHeadStore, OrdTailStore, OrdOpenSwap, OrdDropHeadLoad, OrdDropTailLoad
Th == {"S", "R"}
Other(t) == IF t = "S" THEN "R" ELSE "S"
Loc == {"head", "tail", "open", "wS", "wR"}
IsAcq(o) == o \in {"acquire", "acqrel", "seqcst"}
IsRel(o) == o \in {"release", "acqrel", "seqcst"}
Max2(a, b) == IF a >= b THEN a ELSE b
Join(v, w) == [seen |-> [x \in Loc |-> Max2(v.seen[x], w.seen[x])], vc |-> [t \in Th |-> Max2(v.vc[t], w.vc[t])]]
View0 == [seen |-> [x \in Loc |-> 1], vc |-> [t \in Th |-> 0]]

VARIABLES hist,        \* [Loc -> Seq([val, rel, view])]
          tv,          \* [Th -> view]
          slot,        \* [0..Cap-1 -> item or 0 (empty)]
          lastW, lastR,\* [0..Cap-1 -> [th, clk]]  epoch of the last write / take of the slot
          pc, cur,     \* program counter and the thread's private cursor [head, tail]
          reg,         \* the thread's scratch: value just loaded, batch counter, was_open, ...
          wakePending, \* [Th -> BOOLEAN] the task has been notified and will be polled again
          next,        \* next item to push
          popped, dropped, \* ghost: sequence of items taken by the receiver / set of items freed by drop_contents
          err
vars == <<hist, tv, slot, lastW, lastR, pc, cur, reg, wakePending, next, popped, dropped, err>>

Init ==
  /\ hist = [x \in Loc |-> <<[val |-> (CASE x = "open" -> TRUE [] x \in {"wS", "wR"} -> FALSE [] OTHER -> 0), rel |-> TRUE, view |-> View0]>>]
  /\ tv = [t \in Th |-> View0]
  /\ slot = [i \in 0..(Cap - 1) |-> 0]
  /\ lastW = [i \in 0..(Cap - 1) |-> [th |-> "S", clk |-> 0]] /\ lastR = [i \in 0..(Cap - 1) |-> [th |-> "R", clk |-> 0]]
  /\ pc = [t \in Th |-> "poll"] /\ cur = [t \in Th |-> [head |-> 0, tail |-> 0]]
  /\ reg = [t \in Th |-> [n |-> 0, wasOpen |-> TRUE, second |-> FALSE, closing |-> FALSE]]
  /\ wakePending = [t \in Th |-> FALSE] /\ next = 1 /\ popped = <<>> /\ dropped = {} /\ err = "none"

\* --- memory operations -------------------------------------------------------------------------------------------
Readable(t, x) == tv[t].seen[x]..Len(hist[x])
AfterLoad(t, x, ord, i) ==
  LET m == hist[x][i]
      v1 == [tv[t] EXCEPT !.seen[x] = Max2(@, i)] IN
  IF IsAcq(ord) /\ m.rel THEN Join(v1, m.view) ELSE v1
\* the message a store of t appends, and t's view afterwards (its own clock ticks after the store)
StoreMsg(t, x, ord, val, v) == [val |-> val, rel |-> IsRel(ord), view |-> [v EXCEPT !.seen[x] = Len(hist[x]) + 1]]
AfterStore(t, x, v) == [v EXCEPT !.seen[x] = Len(hist[x]) + 1, !.vc[t] = @ + 1]
\* read-modify-write: reads the latest message
RmwView(t, x, ord) == AfterLoad(t, x, ord, Len(hist[x]))

Ordered(t, e) == tv[t].vc[e.th] >= e.clk       \* the access e happens-before t's current point (same thread: always)
Epoch(t) == [th |-> t, clk |-> tv[t].vc[t] + 1]  \* accesses carry the clock value the NEXT release store will publish...
\* (a message published by t carries vc[t][t] + 1 only after the tick; see AfterStore: the view in the message is the one
\*  before the tick, so accesses are stamped with the pre-tick value)
Stamp(t) == [th |-> t, clk |-> tv[t].vc[t]]

Count(a, b) == (b + Cap - a) % Cap       \* elements from a to b on the ring
IsFull(c) == Count(c.tail, c.head) = 1
IsEmpty(c) == c.tail = c.head

\* --- waker object --------------------------------------------------------------------------------------------------
WLoc(t) == IF t = "S" THEN "wS" ELSE "wR"
Register(t) ==   \* by t on its own waker
  LET x == WLoc(t) v == RmwView(t, x, "acqrel") IN
  /\ hist' = [hist EXCEPT ![x] = Append(@, StoreMsg(t, x, "acqrel", TRUE, v))]
  /\ tv' = [tv EXCEPT ![t] = AfterStore(t, x, v)]
Wake(t, target) ==   \* by t on the waker of target
  LET x == WLoc(target) v == RmwView(t, x, "acqrel") was == hist[x][Len(hist[x])].val IN
  /\ hist' = [hist EXCEPT ![x] = Append(@, StoreMsg(t, x, "acqrel", FALSE, v))]
  /\ tv' = [tv EXCEPT ![t] = AfterStore(t, x, v)]
  /\ wakePending' = [wakePending EXCEPT ![target] = @ \/ was]

\* --- the sender -----------------------------------------------------------------------------------------------------
Goto(t, l) == pc' = [pc EXCEPT ![t] = l]
SOpenLoad ==     \* acquire_capacity: open.load
  /\ pc["S"] \in {"poll", "poll2"}
  /\ \E i \in Readable("S", "open") :
       /\ tv' = [tv EXCEPT !["S"] = AfterLoad("S", "open", OrdOpenLoadS, i)]
       /\ IF hist["open"][i].val THEN Goto("S", IF pc["S"] = "poll" THEN "headload" ELSE "headload2")
          ELSE Goto("S", "close1")                                  \* ClosedError: the handle is dropped
  /\ UNCHANGED <<hist, slot, lastW, lastR, cur, reg, wakePending, next, popped, dropped, err>>
SHeadLoad ==     \* acquire_capacity: head.load, then full?
  /\ pc["S"] \in {"headload", "headload2"}
  /\ \E i \in Readable("S", "head") :
       LET c == [cur["S"] EXCEPT !.head = hist["head"][i].val] IN
       /\ tv' = [tv EXCEPT !["S"] = AfterLoad("S", "head", OrdHeadLoad, i)]
       /\ cur' = [cur EXCEPT !["S"] = c]
       /\ IF ~IsFull(c) THEN Goto("S", "write") /\ reg' = [reg EXCEPT !["S"].n = 0]
          ELSE IF pc["S"] = "headload" THEN Goto("S", "register") /\ reg' = reg
          ELSE Goto("S", "parked") /\ reg' = reg
  /\ UNCHANGED <<hist, slot, lastW, lastR, wakePending, next, popped, dropped, err>>
SRegister == pc["S"] = "register" /\ Register("S") /\ Goto("S", IF RecheckAfterRegister THEN "poll2" ELSE "parked")
             /\ UNCHANGED <<slot, lastW, lastR, cur, reg, wakePending, next, popped, dropped, err>>
SParked == pc["S"] = "parked" /\ wakePending["S"] /\ wakePending' = [wakePending EXCEPT !["S"] = FALSE] /\ Goto("S", "poll")
           /\ UNCHANGED <<hist, tv, slot, lastW, lastR, cur, reg, next, popped, dropped, err>>
SWrite ==        \* one slot (non-atomic), cursor.tail advances privately
  /\ pc["S"] = "write"
  /\ LET s == cur["S"].tail
         racy == ~Ordered("S", lastR[s]) \/ ~Ordered("S", lastW[s]) IN
     /\ err' = (IF err # "none" THEN err ELSE IF racy THEN "race: slot written while the receiver's take is not ordered before it"
                ELSE IF slot[s] # 0 THEN "overwrite of a slot that still holds an item" ELSE "none")
     /\ slot' = [slot EXCEPT ![s] = next] /\ lastW' = [lastW EXCEPT ![s] = Stamp("S")]
     /\ next' = next + 1
     /\ LET c == [cur["S"] EXCEPT !.tail = (@ + 1) % Cap] IN
        /\ cur' = [cur EXCEPT !["S"] = c]
        /\ reg' = [reg EXCEPT !["S"].n = @ + 1]
        /\ IF next + 1 > Items \/ IsFull(c) \/ reg["S"].n + 1 >= MaxBatch THEN Goto("S", IF WakeAfterStore THEN "tailstore" ELSE "wakeR") ELSE Goto("S", "write")
  /\ UNCHANGED <<hist, tv, lastR, wakePending, popped, dropped>>
STailStore ==    \* persist_tail: tail.store, then wake the receiver
  /\ pc["S"] = "tailstore"
  /\ hist' = [hist EXCEPT !["tail"] = Append(@, StoreMsg("S", "tail", OrdTailStore, cur["S"].tail, tv["S"]))]
  /\ tv' = [tv EXCEPT !["S"] = AfterStore("S", "tail", tv["S"])]
  /\ Goto("S", IF WakeAfterStore THEN "wakeR" ELSE (IF next > Items THEN "close1" ELSE "poll"))
  /\ UNCHANGED <<slot, lastW, lastR, cur, reg, wakePending, next, popped, dropped, err>>
SWakeR == pc["S"] = "wakeR" /\ Wake("S", "R") /\ Goto("S", IF ~WakeAfterStore THEN "tailstore" ELSE IF next > Items THEN "close1" ELSE "poll")
          /\ UNCHANGED <<slot, lastW, lastR, cur, reg, next, popped, dropped, err>>

\* --- close(side), shared by both threads -------------------------------------------------------------------------------
Close1(t) == pc[t] = "close1" /\ Wake(t, Other(t)) /\ Goto(t, "swap")
             /\ UNCHANGED <<slot, lastW, lastR, cur, reg, next, popped, dropped, err>>
Swap(t) ==
  /\ pc[t] = "swap"
  /\ LET v == RmwView(t, "open", OrdOpenSwap) was == hist["open"][Len(hist["open"])].val IN
     /\ hist' = [hist EXCEPT !["open"] = Append(@, StoreMsg(t, "open", OrdOpenSwap, FALSE, v))]
     /\ tv' = [tv EXCEPT ![t] = AfterStore(t, "open", v)]
     /\ reg' = [reg EXCEPT ![t].wasOpen = was]
  /\ Goto(t, IF WakeAfterSwap THEN "close2" ELSE "afterclose")
  /\ UNCHANGED <<slot, lastW, lastR, cur, wakePending, next, popped, dropped, err>>
AfterClose(t) == pc[t] = "afterclose" /\ Goto(t, IF reg[t].wasOpen THEN "done" ELSE "dropHead")
                 /\ UNCHANGED <<hist, tv, slot, lastW, lastR, cur, reg, wakePending, next, popped, dropped, err>>
Close2(t) == pc[t] = "close2" /\ Wake(t, Other(t)) /\ Goto(t, IF reg[t].wasOpen THEN "done" ELSE "dropHead")
             /\ UNCHANGED <<slot, lastW, lastR, cur, reg, next, popped, dropped, err>>
DropHead(t) ==
  /\ pc[t] = "dropHead"
  /\ \E i \in Readable(t, "head") :
       /\ tv' = [tv EXCEPT ![t] = AfterLoad(t, "head", OrdDropHeadLoad, i)]
       /\ cur' = [cur EXCEPT ![t].head = hist["head"][i].val]
  /\ Goto(t, "dropTail")
  /\ UNCHANGED <<hist, slot, lastW, lastR, reg, wakePending, next, popped, dropped, err>>
DropTail(t) ==
  /\ pc[t] = "dropTail"
  /\ \E i \in Readable(t, "tail") :
       /\ tv' = [tv EXCEPT ![t] = AfterLoad(t, "tail", OrdDropTailLoad, i)]
       /\ cur' = [cur EXCEPT ![t].tail = hist["tail"][i].val]
  /\ Goto(t, "dropTake")
  /\ UNCHANGED <<hist, slot, lastW, lastR, reg, wakePending, next, popped, dropped, err>>
DropTake(t) ==   \* takes the filled slots one by one
  /\ pc[t] = "dropTake"
  /\ IF IsEmpty(cur[t]) THEN Goto(t, "done") /\ UNCHANGED <<slot, lastR, cur, dropped, err>>
     ELSE LET s == cur[t].head IN
          /\ err' = (IF err # "none" THEN err
                     ELSE IF ~Ordered(t, lastW[s]) \/ ~Ordered(t, lastR[s]) THEN "race: drop_contents touches a slot not ordered after its last access"
                     ELSE IF slot[s] = 0 THEN "drop_contents frees a slot that holds nothing (double free / uninitialised)" ELSE "none")
          /\ dropped' = (IF slot[s] # 0 THEN dropped \cup {slot[s]} ELSE dropped)
          /\ slot' = [slot EXCEPT ![s] = 0] /\ lastR' = [lastR EXCEPT ![s] = Stamp(t)]
          /\ cur' = [cur EXCEPT ![t].head = (@ + 1) % Cap]
          /\ Goto(t, "dropTake")
  /\ UNCHANGED <<hist, tv, lastW, reg, wakePending, next, popped>>

\* --- the receiver --------------------------------------------------------------------------------------------------------
RDropEarly ==    \* the application drops the receiver instead of polling again
  /\ ReceiverMayDrop /\ pc["R"] = "poll" /\ Goto("R", "close1")
  /\ UNCHANGED <<hist, tv, slot, lastW, lastR, cur, reg, wakePending, next, popped, dropped, err>>
RTailLoad ==     \* acquire_filled: tail.load (first look, or the look after having seen the channel closed)
  /\ pc["R"] \in {"poll", "poll2", "tailAgain", "tailAgain2"}
  /\ \E i \in Readable("R", "tail") :
       LET c == [cur["R"] EXCEPT !.tail = hist["tail"][i].val]
           second == pc["R"] \in {"poll2", "tailAgain2"} IN
       /\ tv' = [tv EXCEPT !["R"] = AfterLoad("R", "tail", OrdTailLoad, i)]
       /\ cur' = [cur EXCEPT !["R"] = c]
       /\ IF ~IsEmpty(c) THEN Goto("R", "take")
          ELSE IF pc["R"] \in {"tailAgain", "tailAgain2"} THEN Goto("R", "close1")          \* closed and drained: ClosedError
          ELSE Goto("R", IF second THEN "openload2" ELSE "openload")
  /\ UNCHANGED <<hist, slot, lastW, lastR, reg, wakePending, next, popped, dropped, err>>
ROpenLoad ==
  /\ pc["R"] \in {"openload", "openload2"}
  /\ \E i \in Readable("R", "open") :
       /\ tv' = [tv EXCEPT !["R"] = AfterLoad("R", "open", OrdOpenLoadR, i)]
       /\ IF ~hist["open"][i].val THEN Goto("R", IF pc["R"] = "openload" THEN "tailAgain" ELSE "tailAgain2")
          ELSE Goto("R", IF pc["R"] = "openload" THEN "register" ELSE "parked")
  /\ UNCHANGED <<hist, slot, lastW, lastR, cur, reg, wakePending, next, popped, dropped, err>>
RRegister == pc["R"] = "register" /\ Register("R") /\ Goto("R", IF RecheckAfterRegister THEN "poll2" ELSE "parked")
             /\ UNCHANGED <<slot, lastW, lastR, cur, reg, wakePending, next, popped, dropped, err>>
RParked == pc["R"] = "parked" /\ wakePending["R"] /\ wakePending' = [wakePending EXCEPT !["R"] = FALSE] /\ Goto("R", "poll")
           /\ UNCHANGED <<hist, tv, slot, lastW, lastR, cur, reg, next, popped, dropped, err>>
RTake ==
  /\ pc["R"] = "take"
  /\ LET s == cur["R"].head IN
     /\ err' = (IF err # "none" THEN err
                ELSE IF ~Ordered("R", lastW[s]) THEN "race / uninitialised read: slot taken although its write is not ordered before the take"
                ELSE IF slot[s] = 0 THEN "take of a slot that holds nothing" ELSE "none")
     /\ popped' = (IF slot[s] # 0 THEN Append(popped, slot[s]) ELSE popped)
     /\ slot' = [slot EXCEPT ![s] = 0] /\ lastR' = [lastR EXCEPT ![s] = Stamp("R")]
     /\ LET c == [cur["R"] EXCEPT !.head = (@ + 1) % Cap] IN
        /\ cur' = [cur EXCEPT !["R"] = c]
        /\ Goto("R", IF IsEmpty(c) THEN (IF WakeAfterStore THEN "headstore" ELSE "wakeS") ELSE "take")
  /\ UNCHANGED <<hist, tv, lastW, reg, wakePending, next, dropped>>
RHeadStore ==
  /\ pc["R"] = "headstore"
  /\ hist' = [hist EXCEPT !["head"] = Append(@, StoreMsg("R", "head", OrdHeadStore, cur["R"].head, tv["R"]))]
  /\ tv' = [tv EXCEPT !["R"] = AfterStore("R", "head", tv["R"])]
  /\ Goto("R", IF WakeAfterStore THEN "wakeS" ELSE "poll")
  /\ UNCHANGED <<slot, lastW, lastR, cur, reg, wakePending, next, popped, dropped, err>>
RWakeS == pc["R"] = "wakeS" /\ Wake("R", "S") /\ Goto("R", IF WakeAfterStore THEN "poll" ELSE "headstore")
          /\ UNCHANGED <<slot, lastW, lastR, cur, reg, next, popped, dropped, err>>

Next ==
  \/ SOpenLoad \/ SHeadLoad \/ SRegister \/ SParked \/ SWrite \/ STailStore \/ SWakeR
  \/ RDropEarly \/ RTailLoad \/ ROpenLoad \/ RRegister \/ RParked \/ RTake \/ RHeadStore \/ RWakeS
  \/ \E t \in Th : Close1(t) \/ Swap(t) \/ Close2(t) \/ AfterClose(t) \/ DropHead(t) \/ DropTail(t) \/ DropTake(t)
Spec == Init /\ [][Next]_vars

----------------------------------------------------------------------------
NoError == err = "none"
\* exactly once and in order
RECURSIVE IsPrefixOfNat(_, _)
IsPrefixOfNat(s, k) == IF s = <<>> THEN TRUE ELSE Head(s) = k /\ IsPrefixOfNat(Tail(s), k + 1)
Fifo == IsPrefixOfNat(popped, 1) /\ \A i \in 1..Len(popped) : popped[i] \notin dropped
\* when both handles are gone every written item was taken or freed, once
AllAccounted == (pc["S"] = "done" /\ pc["R"] = "done") =>
                  /\ \A k \in 1..(next - 1) : (k \in dropped) # (\E i \in 1..Len(popped) : popped[i] = k)
                  /\ \A i \in 0..(Cap - 1) : slot[i] = 0
\* a lost wake-up: a parked task that nobody will ever notify although the other side has moved on
Stuck(t) == pc[t] = "parked" /\ ~wakePending[t]
NoLostWakeup == ~(Stuck("S") /\ Stuck("R")) /\ ~(Stuck("S") /\ pc["R"] = "done") /\ ~(Stuck("R") /\ pc["S"] = "done")
Bounded == \A x \in Loc : Len(hist[x]) <= 3 * Items + 12
=============================================================================

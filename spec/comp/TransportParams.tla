--------------------------- MODULE TransportParams ---------------------------
(* RFC 9000 sections 7.4 and 18.2 as an executable decision procedure over BYTES: Parse turns a
   transport-parameter block into (id, body) entries, Verdict says whether a peer in the given
   role may send it, Effective gives the limits the connection must then operate under (RFC
   defaults for absent parameters).  Written from the RFC, not from the Rust decoder. *)
EXTENDS Wire, FiniteSets, TLC

\* ---------------------------------------------------------------- parsing
RECURSIVE ParseFrom(_, _)
ParseFrom(bytes, acc) ==
  IF Len(bytes) = 0 THEN [ok |-> TRUE, entries |-> acc]
  ELSE LET idv == VarIntDecode(bytes) IN
       IF ~idv.ok THEN [ok |-> FALSE, entries |-> acc]
       ELSE LET r1 == Drop(bytes, idv.len)
                lv == VarIntDecode(r1) IN
            IF ~lv.ok \/ ~BigFitsNat(lv.val) THEN [ok |-> FALSE, entries |-> acc]
            ELSE LET n  == BigToNat(lv.val)
                     r2 == Drop(r1, lv.len) IN
                 IF Len(r2) < n THEN [ok |-> FALSE, entries |-> acc]
                 ELSE ParseFrom(Drop(r2, n), Append(acc, [id |-> idv.val, body |-> Take(r2, n)]))
Parse(bytes) == ParseFrom(bytes, <<>>)

\* ---------------------------------------------------------------- the parameter table
Id(n) == BigOfNat(n)
IntegerIds   == {Id(1), Id(3), Id(4), Id(5), Id(6), Id(7), Id(8), Id(9), Id(10), Id(11), Id(14), Id(32)}
CidIds       == {Id(0), Id(15), Id(16)}
ServerOnly   == {Id(0), Id(2), Id(13), Id(16)}
KnownIds     == IntegerIds \cup CidIds \cup {Id(2), Id(12), Id(13)}
\* extension parameters s2n-quic also understands (dc): their value rules are not RFC 9000's
ExtensionIds == {<<0, 0, 0, 0, 0, 220, 0, 0>>, <<0, 0, 0, 0, 0, 220, 0, 2>>}

\* the body of an integer parameter: exactly one varint (any width) filling the declared length
IntBody(body) == LET d == VarIntDecode(body) IN [ok |-> d.ok /\ d.len = Len(body), val |-> d.val]

\* "accept" | "reject" | "either" for one entry
IntVerdict(id, v) ==
  CASE id = Id(3)  -> IF BigLt(v, BigOfNat(1200)) THEN "reject" ELSE IF BigLe(v, BigOfNat(65527)) THEN "accept" ELSE "either"
    [] id = Id(8)  -> IF BigLe(v, Pow2(60)) THEN "accept" ELSE "reject"
    [] id = Id(9)  -> IF BigLe(v, Pow2(60)) THEN "accept" ELSE "reject"
    [] id = Id(10) -> IF BigLe(v, BigOfNat(20)) THEN "accept" ELSE "reject"
    [] id = Id(11) -> IF BigLt(v, Pow2(14)) THEN "accept" ELSE "reject"
    [] id = Id(14) -> IF BigLe(BigOfNat(2), v) THEN "accept" ELSE "reject"
    [] OTHER -> "accept"

PrefAddrVerdict(body) ==
  \* ipv4(4+2) ipv6(16+2) cid-len(1) cid token(16)
  IF Len(body) < 25 THEN "reject"
  ELSE LET cl == body[25] IN
       IF Len(body) # 25 + cl + 16 \/ cl > 20 THEN "reject"
       ELSE IF cl = 0 THEN "either"
       ELSE IF \A i \in 1..24 : body[i] = 0 THEN "either"     \* no address at all: the RFC is silent
       ELSE "accept"

\* connection-id valued parameters.  Named "either" ranges: an original_destination_connection_id
\* shorter than 8 bytes can never equal a client's first Destination Connection ID (RFC 9000 7.2), and
\* s2n-quic does not support Retry source connection ids shorter than 4 bytes (its own id policy);
\* the RFC text does not make either case a parameter error, so neither outcome is an alarm.
CidVerdict(id, n) ==
  IF n > 20 THEN "reject"
  ELSE IF id = Id(0) /\ n < 8 THEN "either"
  ELSE IF id = Id(16) /\ n < 4 THEN "either"
  ELSE "accept"

EntryVerdict(role, e) ==
  IF e.id \in ExtensionIds THEN "either"
  ELSE IF e.id \notin KnownIds THEN "accept"                       \* unknown parameters are ignored
  ELSE IF role = "client" /\ e.id \in ServerOnly THEN "reject"
  ELSE IF e.id \in IntegerIds THEN (LET b == IntBody(e.body) IN IF b.ok THEN IntVerdict(e.id, b.val) ELSE "reject")
  ELSE IF e.id \in CidIds THEN CidVerdict(e.id, Len(e.body))
  ELSE IF e.id = Id(2) THEN (IF Len(e.body) = 16 THEN "accept" ELSE "reject")
  ELSE IF e.id = Id(12) THEN (IF Len(e.body) = 0 THEN "accept" ELSE "either")
  ELSE PrefAddrVerdict(e.body)

Duplicate(entries) == \E i, j \in 1..Len(entries) : i < j /\ entries[i].id = entries[j].id /\ entries[i].id \in KnownIds \cup ExtensionIds

\* verdict for a whole block sent by `role`
Verdict(role, bytes) ==
  LET p == Parse(bytes) IN
  IF ~p.ok THEN "reject"
  ELSE LET vs == {EntryVerdict(role, p.entries[i]) : i \in 1..Len(p.entries)} IN
       IF Duplicate(p.entries) \/ "reject" \in vs THEN "reject"
       ELSE IF "either" \in vs THEN "either" ELSE "accept"

\* known finding F6: an integer parameter in a longer-than-minimal (but legal, RFC 9000 section 16)
\* varint form; s2n-quic decodes ack_delay_exponent as a single byte
HasNonMinimalAckDelayExponent(bytes) ==
  LET p == Parse(bytes) IN
  p.ok /\ \E i \in 1..Len(p.entries) : p.entries[i].id = Id(10) /\ Len(p.entries[i].body) > 1
           /\ IntBody(p.entries[i].body).ok /\ BigLe(IntBody(p.entries[i].body).val, BigOfNat(20))

\* ---------------------------------------------------------------- effective limits
Lookup(entries, id, default) ==
  IF \E i \in 1..Len(entries) : entries[i].id = id
  THEN IntBody(entries[CHOOSE i \in 1..Len(entries) : entries[i].id = id].body).val
  ELSE default
Effective(bytes) ==
  LET es == Parse(bytes).entries IN
  [ max_idle_timeout |-> Lookup(es, Id(1), BigZero),
    max_udp_payload_size |-> Lookup(es, Id(3), BigOfNat(65527)),
    initial_max_data |-> Lookup(es, Id(4), BigZero),
    initial_max_stream_data_bidi_local |-> Lookup(es, Id(5), BigZero),
    initial_max_stream_data_bidi_remote |-> Lookup(es, Id(6), BigZero),
    initial_max_stream_data_uni |-> Lookup(es, Id(7), BigZero),
    initial_max_streams_bidi |-> Lookup(es, Id(8), BigZero),
    initial_max_streams_uni |-> Lookup(es, Id(9), BigZero),
    ack_delay_exponent |-> Lookup(es, Id(10), BigOfNat(3)),
    max_ack_delay |-> Lookup(es, Id(11), BigOfNat(25)),
    active_connection_id_limit |-> Lookup(es, Id(14), BigOfNat(2)),
    max_datagram_frame_size |-> Lookup(es, Id(32), BigZero),
    disable_active_migration |-> (\E i \in 1..Len(es) : es[i].id = Id(12)) ]

\* ---------------------------------------------------------------- encoding (for the generator)
EncodeEntry(idNat, body) == VarIntEncode(BigOfNat(idNat)) \o VarIntEncode(BigOfNat(Len(body))) \o body
=============================================================================

------------------------------ MODULE SendFlow ------------------------------
(* Sender-side flow control as s2n-quic implements it (transcription of StreamFlowController,
   OutgoingConnectionFlowController and SendStream::init_reset): every stream reserves connection
   credit ("acquired") before sending; the RESET_STREAM final size is the credit reserved.
   FixF3 = FALSE is the pinned tree (credit requested up to the offset the application wants to
   write, even beyond the stream limit), TRUE the repaired rule (request capped by the stream limit). *)
EXTENDS Naturals, FiniteSets
CONSTANTS Streams, MaxVal, PacketCap, FixF3
None == 0 - 1
VARIABLES maxSD, acquired, highestReq, enq, sentEnd, resetFinal, connTotal, connAvail
fvars == <<maxSD, acquired, highestReq, enq, sentEnd, resetFinal, connTotal, connAvail>>
Min2(a, b) == IF a <= b THEN a ELSE b
Max2(a, b) == IF a >= b THEN a ELSE b
Vals == 0..MaxVal

FInit ==
  /\ maxSD \in [Streams -> Vals] /\ connTotal \in Vals /\ connAvail = connTotal
  /\ acquired = [s \in Streams |-> 0] /\ highestReq = [s \in Streams |-> 0]
  /\ enq = [s \in Streams |-> 0] /\ sentEnd = [s \in Streams |-> 0] /\ resetFinal = [s \in Streams |-> None]

Enqueue(s, n) == resetFinal[s] = None /\ enq[s] + n <= MaxVal /\ enq' = [enq EXCEPT ![s] = @ + n]
                 /\ UNCHANGED <<maxSD, acquired, highestReq, sentEnd, resetFinal, connTotal, connAvail>>

\* one transmission opportunity of stream s: acquire_flow_control_window(end) then write up to the window
Transmit(s) ==
  /\ resetFinal[s] = None /\ enq[s] > sentEnd[s]
  /\ LET end  == Min2(enq[s], sentEnd[s] + PacketCap)
         req  == IF FixF3 THEN Min2(end, maxSD[s]) ELSE end
         hr   == Max2(req, highestReq[s])
         got  == Min2(hr - acquired[s], connAvail)
         acq  == acquired[s] + got
         win  == Min2(maxSD[s], acq) IN
     /\ highestReq' = [highestReq EXCEPT ![s] = hr]
     /\ acquired' = [acquired EXCEPT ![s] = acq]
     /\ connAvail' = connAvail - got
     /\ sentEnd' = [sentEnd EXCEPT ![s] = Max2(@, Min2(end, win))]
  /\ UNCHANGED <<maxSD, enq, resetFinal, connTotal>>

OnMaxStreamData(s, v) == v > maxSD[s] /\ maxSD' = [maxSD EXCEPT ![s] = v]
                         /\ UNCHANGED <<acquired, highestReq, enq, sentEnd, resetFinal, connTotal, connAvail>>
OnMaxData(v) == v > connTotal /\ connTotal' = v /\ connAvail' = connAvail + (v - connTotal)
                /\ UNCHANGED <<maxSD, acquired, highestReq, enq, sentEnd, resetFinal>>
\* the application resets the stream: the final size announced is the credit reserved for it
Reset(s) == resetFinal[s] = None /\ resetFinal' = [resetFinal EXCEPT ![s] = acquired[s]]
            /\ UNCHANGED <<maxSD, acquired, highestReq, enq, sentEnd, connTotal, connAvail>>

FNext == \E s \in Streams : \/ \E n \in 1..2 : Enqueue(s, n)
                            \/ Transmit(s) \/ Reset(s)
                            \/ \E v \in Vals : OnMaxStreamData(s, v)
         \/ \E v \in Vals : OnMaxData(v)
FSpec == FInit /\ [][FNext]_fvars

RECURSIVE Sum(_, _)
Sum(f, S) == IF S = {} THEN 0 ELSE LET x == CHOOSE y \in S : TRUE IN f[x] + Sum(f, S \ {x})
Counted(s) == IF resetFinal[s] = None THEN sentEnd[s] ELSE resetFinal[s]
SentWithinStream  == \A s \in Streams : sentEnd[s] <= maxSD[s]
SentWithinConn    == Sum([s \in Streams |-> Counted(s)], Streams) <= connTotal
ResetWithinStream == \A s \in Streams : resetFinal[s] # None => resetFinal[s] <= maxSD[s]
ResetNotBelowSent == \A s \in Streams : resetFinal[s] # None => resetFinal[s] >= sentEnd[s]
CreditLedger      == Sum(acquired, Streams) + connAvail = connTotal
=============================================================================

---------------------------- MODULE KeyIdSender ----------------------------
(* dc sender key ids for one path secret (path::secret::sender::State): one atomic counter.
   Next hands out the current value and increments (never reaching the reserved MaxId);
   an authenticated StaleKey(m) raises the counter to at least m. *)
EXTENDS Naturals
CONSTANT MaxId
VARIABLE current
KInit == current = 0
Next(id) == current + 1 < MaxId /\ id = current /\ current' = current + 1
StaleKey(m) == current' = IF m > current THEN m ELSE current
=============================================================================

------------------------------- MODULE PeerIds -------------------------------
(* The receiver side of connection IDs (C13): PeerIdRegistry of s2n-quic-transport - the ids an endpoint has been GIVEN by
   its peer.  One action per public call; statuses as in peer_id_registry.rs:

     "N" New   "U" InUse   "UP" InUsePendingNewConnectionId   "PR" PendingRetirement
     "PX" PendingRetirementRetransmission   "PA" PendingAcknowledgement(pn)

   A connection id value / reset token is identified with the sequence number it was first issued under (an honest
   issuer never reuses either), so a frame is <<seq, retire_prior_to, cid, token>>; dishonest frames differ in cid or
   token.  Next to the registry's state the module carries the wire view (frames accepted, RETIRE_CONNECTION_ID frames
   written, acknowledgements), over which the C13 rules are stated (shared with Trace_PeerIds). *)
EXTENDS Integers, FiniteSets, Sequences, TLC

CONSTANTS Rotate,        \* rotate_handshake_connection_id
          ActiveLimit,   \* ACTIVE_CONNECTION_ID_LIMIT (3 in the code)
          RetiredLimit,  \* RETIRED_CONNECTION_ID_LIMIT (2 * ActiveLimit in the code)
          MaxSeq, MaxPn,
          Dishonest      \* whether the environment also sends inconsistent / excessive frames

VARIABLES ids,       \* seq -> [st, pn, cid, tok]
          rpt,       \* largest retire_prior_to received
          pn, failed,  \* failed: the registry reported an error (the connection is closed)
          accepted,  \* wire: frames accepted so far, seq -> [cid, tok]
          retires,   \* wire: <<seq, pn>> of RETIRE_CONNECTION_ID frames written
          lost, acked  \* wire: packet numbers declared lost / acknowledged
pvars == <<ids, rpt, pn, failed, accepted, retires, lost, acked>>

Known == DOMAIN ids
IsActive(s) == ids[s].st \in {"N", "U", "UP"}
Active == {s \in Known : IsActive(s)}
Max(a, b) == IF a >= b THEN a ELSE b

PInit ==
  /\ ids = (0 :> [st |-> IF Rotate THEN "UP" ELSE "U", pn |-> 0, cid |-> 0, tok |-> 0 - 1])   \* no token known for id 0
  /\ rpt = 0 /\ pn = 1 /\ failed = "no"
  /\ accepted = (0 :> [cid |-> 0, tok |-> 0 - 1]) /\ retires = {} /\ lost = {} /\ acked = {}

(* RFC 9000 19.15: what makes a frame inconsistent with what was received before *)
Conflicts(known, s, c, t) ==
  \E k \in DOMAIN known :
     \/ (known[k].cid = c /\ (k # s \/ known[k].tok # t))
     \/ (known[k].cid # c /\ (k = s \/ known[k].tok = t))
IsDuplicate(known, s, c, t) == s \in DOMAIN known /\ known[s].cid = c /\ known[s].tok = t

(* on_new_connection_id *)
NewCid(s, r, c, t) ==
  /\ failed = "no" /\ r <= s
  /\ LET rp == Max(rpt, r)
         dup == IsDuplicate(ids, s, c, t)
         \* existing ids that have to go
         swept == [k \in Known |-> IF IsActive(k) /\ k < rp THEN [ids[k] EXCEPT !.st = "PR"] ELSE ids[k]]
         newActive == ~dup /\ s >= rp
         \* the handshake id is given up for the first usable new id
         pend == {k \in Known : swept[k].st = "UP"}
         rotated == IF newActive /\ pend # {} THEN [k \in Known |-> IF k \in pend THEN [swept[k] EXCEPT !.st = "PR"] ELSE swept[k]] ELSE swept
         after == IF dup THEN rotated
                  ELSE rotated @@ (s :> [st |-> IF s >= rp THEN "N" ELSE "PR", pn |-> 0, cid |-> c, tok |-> t])
         nActive == Cardinality({k \in DOMAIN after : after[k].st \in {"N", "U", "UP"}})
         nRetired == Cardinality(DOMAIN after) - nActive
     IN IF Conflicts(ids, s, c, t)
          THEN failed' = "invalid" /\ UNCHANGED <<ids, rpt, accepted>>
          ELSE IF ~dup /\ nActive > ActiveLimit
            THEN failed' = "active_limit" /\ rpt' = rp /\ UNCHANGED <<ids, accepted>>
            ELSE IF nRetired > RetiredLimit
              THEN failed' = "retired_limit" /\ rpt' = rp /\ UNCHANGED <<ids, accepted>>
              ELSE /\ ids' = after /\ rpt' = rp /\ UNCHANGED failed
                   /\ accepted' = IF s \in DOMAIN accepted THEN accepted ELSE accepted @@ (s :> [cid |-> c, tok |-> t])
  /\ UNCHANGED <<pn, retires, lost, acked>>

(* the path manager takes an unused id for a path *)
Consume ==
  /\ failed = "no"
  /\ \E s \in Known : ids[s].st = "N" /\ \A k \in Known : ids[k].st = "N" => s <= k   \* registration order = ascending here
  /\ LET s == CHOOSE x \in Known : ids[x].st = "N" /\ \A k \in Known : ids[k].st = "N" => x <= k
     IN ids' = [ids EXCEPT ![s].st = "U"]
  /\ UNCHANGED <<rpt, pn, failed, accepted, retires, lost, acked>>

(* on_transmit: RETIRE_CONNECTION_ID for the ids waiting for it, as far as the packet has room *)
Wanting(lostOnly) == {s \in Known : ids[s].st = "PX" \/ (~lostOnly /\ ids[s].st = "PR")}
TransmitSet(k, lostOnly) == {s \in Wanting(lostOnly) : Cardinality({x \in Wanting(lostOnly) : x < s}) < k}
Transmit(k, lostOnly) ==
  /\ failed = "no" /\ pn <= MaxPn /\ TransmitSet(k, lostOnly) # {}
  /\ ids' = [s \in Known |-> IF s \in TransmitSet(k, lostOnly) THEN [ids[s] EXCEPT !.st = "PA", !.pn = pn] ELSE ids[s]]
  /\ retires' = retires \cup {<<s, pn>> : s \in TransmitSet(k, lostOnly)}
  /\ pn' = pn + 1
  /\ UNCHANGED <<rpt, failed, accepted, lost, acked>>

Ack(p) ==
  /\ failed = "no" /\ \E s \in Known : ids[s].st = "PA" /\ ids[s].pn = p
  /\ ids' = [s \in {k \in Known : ~(ids[k].st = "PA" /\ ids[k].pn = p)} |-> ids[s]]
  /\ acked' = acked \cup {p}
  /\ UNCHANGED <<rpt, pn, failed, accepted, retires, lost>>
Lose(p) ==
  /\ failed = "no" /\ \E s \in Known : ids[s].st = "PA" /\ ids[s].pn = p
  /\ ids' = [s \in Known |-> IF ids[s].st = "PA" /\ ids[s].pn = p THEN [ids[s] EXCEPT !.st = "PX"] ELSE ids[s]]
  /\ lost' = lost \cup {p}
  /\ UNCHANGED <<rpt, pn, failed, accepted, retires, acked>>

(* the environment: an honest issuer (fresh ids in order, duplicates of earlier frames with a retire_prior_to that may
   have grown, never more usable ids than ActiveLimit counting what it knows to be retired), or any frame at all *)
IssuedSeqs == DOMAIN accepted
ToldRetired == DOMAIN accepted \ DOMAIN ids              \* RETIRE frames that were acknowledged
HonestFrames ==
  {f \in {<<s, r, s, s>> : s \in 1..MaxSeq, r \in 0..MaxSeq} :
      \/ f[1] \in IssuedSeqs                                                   \* a late or repeated copy
      \/ /\ \A k \in 1..(f[1] - 1) : k \in IssuedSeqs                         \* the next fresh id ...
         /\ Cardinality({k \in IssuedSeqs \cup {f[1]} : k >= Max(rpt, f[2]) /\ k \notin ToldRetired}) <= ActiveLimit}
PNext ==
  \/ \E f \in HonestFrames : f[2] <= f[1] /\ NewCid(f[1], f[2], f[3], f[4])
  \/ (Dishonest /\ \E s \in 1..MaxSeq, r \in 0..MaxSeq, c \in 0..MaxSeq, t \in 1..MaxSeq : r <= s /\ NewCid(s, r, c, t))
  \/ Consume
  \/ \E k \in 1..2, lo \in BOOLEAN : Transmit(k, lo)
  \/ \E p \in 1..MaxPn : Ack(p) \/ Lose(p)
PSpec == PInit /\ [][PNext]_pvars

-----------------------------------------------------------------------------
(* The C13 rules for the receiving side, over the wire view *)
Retired == {f[1] : f \in retires}
(* it only retires ids the peer actually issued *)
RetiresOnlyIssued(rs, acc) == \A f \in rs : f[1] \in DOMAIN acc
(* a RETIRE_CONNECTION_ID for an id is written again only after the packet carrying the previous copy was lost - or
   after that copy was acknowledged (the id is forgotten then, and a late copy of its NEW_CONNECTION_ID frame makes the
   registry retire it once more: harmless, RFC 9000 19.16 lets the peer ignore it) *)
OncePerLoss(rs, lst, akd) == \A f, g \in rs : (f[1] = g[1] /\ f[2] < g[2]) => (f[2] \in lst \/ f[2] \in akd)
(* an id below the largest retire_prior_to received is no longer usable *)
NoUseBelowRpt(act, r) == \A s \in act : s >= r
(* usable ids are ids that were received and whose retirement was not announced *)
ActiveAreKnown(act, acc, rs) == \A s \in act : s \in DOMAIN acc /\ s \notin {f[1] : f \in rs}

RetireIssuedOk == RetiresOnlyIssued(retires, accepted)
OnceOk == OncePerLoss(retires, lost, acked)
BelowRptOk == failed = "no" => NoUseBelowRpt(Active, rpt)
ActiveKnownOk == ActiveAreKnown(Active, accepted, retires)
LimitOk == Cardinality(Active) <= ActiveLimit
=============================================================================

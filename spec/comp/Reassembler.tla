--------------------------- MODULE Reassembler ---------------------------
(* Reference model of the stream reassembly buffer
   (s2n_quic_core::buffer::Reassembler), written from the property text and RFC 9000 4.5,
   not from the slot data structure: a set of received byte offsets, a read cursor, the
   highest offset seen and an optional final size.

   Bytes are identified by their stream offset; "content" is the identity function on offsets
   (the harness fills every write with position-determined data and checks that a chunk
   handed out for offsets [a,b) carries exactly the data of positions [a,b)). *)
EXTENDS Naturals, FiniteSets, IntervalSets, ReasmOps

CONSTANT MaxOffset      \* largest legal stream offset (2^62-1 in the code; scaled in models)

None == 0 - 1

VARIABLES
  rcvd,      \* interval set: offsets >= start that are buffered
  start,     \* number of bytes consumed (read or skipped)
  maxRecv,   \* highest end offset ever accepted (or skipped to)
  final      \* final size or None

rvars == <<rcvd, start, maxRecv, final>>

RInit == rcvd = {} /\ start = 0 /\ maxRecv = 0 /\ final = None

RTypeOK ==
  /\ IsIvSet(rcvd)
  /\ start \in Nat /\ maxRecv \in Nat /\ (final = None \/ final \in Nat)
  /\ \A iv \in rcvd : iv[1] >= start /\ iv[2] <= maxRecv
  /\ start <= maxRecv
  /\ maxRecv <= MaxOffset
  /\ final # None => maxRecv <= final

----------------------------------------------------------------------------
\* observers
Contiguous   == IvRunFrom(rcvd, start)
ObsLen       == Contiguous
ObsConsumed  == start
ObsTotal     == start + Contiguous
ObsFinal     == final
ObsIsEmpty   == Contiguous = 0
ObsWritingComplete == final # None /\ ObsTotal = final
ObsReadingComplete == final # None /\ final = start

----------------------------------------------------------------------------
\* The verdict of write(o, n, fin): "ok" | "oor" | "fin"
Rec0 == [rcvd |-> rcvd, start |-> start, maxRecv |-> maxRecv, final |-> final]
WriteVerdict(o, n, fin) == RWriteVerdict(Rec0, o, n, fin, MaxOffset)

Write(o, n, fin, res) ==
  /\ res = WriteVerdict(o, n, fin)
  /\ IF res = "ok"
     THEN LET w == RWrite(Rec0, o, n, fin)
          IN /\ final'   = w.final
             /\ maxRecv' = w.maxRecv
             /\ rcvd'    = w.rcvd
             /\ start'   = w.start
     ELSE UNCHANGED rvars     \* a rejected write leaves the buffer untouched

\* one call of pop_watermarked(w) that returned n bytes (n = 0: None).  The chunking is the
\* implementation's choice, the amount is bounded and "nothing" is allowed only if nothing is there.
Pop(w, n) ==
  /\ n <= Min2(w, Contiguous)
  /\ (n = 0) <=> (w = 0 \/ Contiguous = 0)
  /\ start' = start + n
  /\ rcvd'  = IvRemoveBelow(rcvd, start + n)
  /\ UNCHANGED <<maxRecv, final>>

SkipVerdict(n) == RSkipVerdict(Rec0, n, MaxOffset)

Skip(n, res) ==
  /\ res = SkipVerdict(n)
  /\ IF res = "ok" /\ n > 0
     THEN /\ start'   = start + n
          /\ maxRecv' = Max2(maxRecv, start + n)
          /\ rcvd'    = IvRemoveBelow(rcvd, start + n)
          /\ final'   = final
     ELSE UNCHANGED rvars

Reset == rcvd' = {} /\ start' = 0 /\ maxRecv' = 0 /\ final' = None
=============================================================================

------------------------------- MODULE AckDuty -------------------------------
(* The receiver's acknowledgement duty (RFC 9000 13.2 / RFC 9002 6.2) as a contract of ONE component, the AckManager:
   while an ack-eliciting packet it has processed is not yet covered by an ACK frame it has written, the manager
   either wants to transmit or has its delayed-acknowledgement timer armed, and that timer is due no later than
   max_ack_delay after the oldest such packet was processed.  ACK frames only name packets that were processed.
   Whether a transmission opportunity comes, and how much room the packet has (the ACK frame may not fit), is the
   environment's choice. *)
EXTENDS Naturals, FiniteSets, TLC
CONSTANT Slack
VARIABLES mad, processed, owed, oldestAt
advars == <<mad, processed, owed, oldestAt>>
None == 0 - 1
AInit == mad = 25000 /\ processed = {} /\ owed = {} /\ oldestAt = None
AReset(m) == mad' = m /\ processed' = {} /\ owed' = {} /\ oldestAt' = None
\* what must hold after every call
Duty(armed, deadline, interest, owedNow, oldest) ==
  owedNow # {} => /\ armed \/ interest # "None"
                  /\ (armed /\ interest = "None") => deadline <= oldest + mad + Slack
Process(pn, el, t, armed, deadline, interest) ==
  LET o2 == IF el THEN owed \cup {pn} ELSE owed
      old2 == IF el /\ owed = {} THEN t ELSE oldestAt IN
  /\ processed' = processed \cup {pn} /\ owed' = o2 /\ oldestAt' = old2
  /\ Duty(armed, deadline, interest, o2, old2)
  /\ UNCHANGED mad
\* ranges: set of <<lo, hi>>
Covered(ranges) == {p \in owed : \E r \in ranges : r[1] <= p /\ p <= r[2]}
Transmit(wrote, ranges, armed, deadline, interest) ==
  /\ \A r \in ranges : \A p \in r[1]..r[2] : p \in processed          \* only packets that were processed are acknowledged
  /\ LET o2 == IF wrote THEN owed \ Covered(ranges) ELSE owed
         old2 == IF o2 = {} THEN None ELSE oldestAt IN
     /\ owed' = o2 /\ oldestAt' = old2
     /\ Duty(armed, deadline, interest, o2, IF old2 = None THEN 0 ELSE old2)
  /\ UNCHANGED <<mad, processed>>
\* one of our packets that carried an ACK frame was acknowledged: RFC 9000 13.2.4 lets the receiver stop acknowledging
\* everything up to that frame's Largest Acknowledged - also a reordered packet below it that arrived later (named)
OurAckAcked(largest, armed, deadline, interest) ==
  LET o2 == {p \in owed : p > largest}
      old2 == IF o2 = {} THEN None ELSE oldestAt IN
  /\ owed' = o2 /\ oldestAt' = old2
  /\ Duty(armed, deadline, interest, o2, IF old2 = None THEN 0 ELSE old2)
  /\ UNCHANGED <<mad, processed>>
Other(armed, deadline, interest) ==        \* timer expiry, time passing, our ACK-carrying packets lost
  /\ Duty(armed, deadline, interest, owed, IF oldestAt = None THEN 0 ELSE oldestAt)
  /\ UNCHANGED advars
=============================================================================

---------------------------- MODULE WorkerChannel ----------------------------
(* quic/s2n-quic-core/src/sync/worker.rs: a credit channel.  Senders add credits (`remaining.fetch_add`, then wake the
   receiver) and finally drop (`senders.fetch_sub`, then wake); the receiver polls: take all credits (`remaining.swap(0)`),
   else register its waker and look again, and if `senders` is zero look once more and report "closed".
   `Sender` is Clone: a second handle is made from the first.  Whether making it increments `senders` is a CONSTANT
   read from the source (a derived Clone does not).

   Atomics: `remaining` is only touched by read-modify-writes (always the latest value); `senders.load` may read a stale
   value unless the thread's view forbids it - views travel with release/acquire pairs exactly as in Spsc. *)
EXTENDS Naturals, Integers, Sequences, FiniteSets, TLC
CONSTANTS Senders,               \* 1 or 2 sender handles (the second is a clone of the first)
          Batches,               \* submits per handle
          CloneIncrements,       \* Clone for Sender increments `senders`
          SendersDrop,           \* FALSE: the handles stay alive after their last submit (long-lived senders)
          RecheckAfterRegister, WakeAfterSubmit, FinalAcquire,
          OrdSwap, OrdFetchAdd, OrdSendersLoad, OrdFetchSub
SIds == 1..Senders
IsAcq(o) == o \in {"acquire", "acqrel", "seqcst"}
IsRel(o) == o \in {"release", "acqrel", "seqcst"}
Max2(a, b) == IF a >= b THEN a ELSE b
VARIABLES remaining,   \* [val, rel, view]: the latest message of `remaining` (RMW only: nobody reads older ones)
          sendersH,    \* history of `senders`: sequence of [val, rel, view]; a view is the index into this history
          waker,       \* [reg, view]: the AtomicWaker (RMW acq_rel object)
          viewOf,      \* [thread -> index into sendersH the thread has seen]   threads: 0 (receiver), 1, 2
          pc, left,    \* per sender: program counter, batches left
          rpc, credits, acquired, submitted, wakePending, closedSeen, err
vars == <<remaining, sendersH, waker, viewOf, pc, left, rpc, credits, acquired, submitted, wakePending, closedSeen, err>>
Init ==
  /\ remaining = [val |-> 0, rel |-> TRUE, view |-> 1]
  /\ sendersH = <<[val |-> 1, rel |-> TRUE, view |-> 1]>>
  /\ waker = [reg |-> FALSE, view |-> 1]
  /\ viewOf = [t \in 0..Senders |-> 1]
  /\ pc = [s \in SIds |-> IF s = 1 /\ Senders = 2 THEN "clone" ELSE IF s = 1 THEN "submit" ELSE "notyet"]
  /\ left = [s \in SIds |-> Batches]
  /\ rpc = "poll" /\ credits = 0 /\ acquired = 0 /\ submitted = 0 /\ wakePending = FALSE /\ closedSeen = FALSE /\ err = "none"
LatestSenders == sendersH[Len(sendersH)].val
\* a read-modify-write on `senders` by thread t
SendersRmw(t, ord, delta) ==
  LET last == sendersH[Len(sendersH)]
      v == IF IsAcq(ord) /\ last.rel THEN Max2(viewOf[t], last.view) ELSE viewOf[t]
      idx == Len(sendersH) + 1 IN
  /\ sendersH' = Append(sendersH, [val |-> last.val + delta, rel |-> IsRel(ord), view |-> idx])
  /\ viewOf' = [viewOf EXCEPT ![t] = idx]
  /\ err' = (IF err = "none" /\ last.val + delta < 0 THEN "senders counter wrapped below zero" ELSE err)
WakerRmw(t, wake) ==     \* acq_rel on the latest state of the waker; returns through wakePending
  LET v == Max2(viewOf[t], waker.view) IN
  /\ waker' = [reg |-> IF wake THEN FALSE ELSE TRUE, view |-> v]
  /\ wakePending' = (IF wake THEN wakePending \/ waker.reg ELSE wakePending)
  /\ v = v
\* --- senders -----------------------------------------------------------------------------------------------------
Clone ==        \* handle 2 comes into existence
  /\ pc[1] = "clone"
  /\ IF CloneIncrements THEN SendersRmw(1, "relaxed", 1) ELSE UNCHANGED <<sendersH, viewOf, err>>
  /\ pc' = [pc EXCEPT ![1] = "submit", ![2] = "submit"]
  /\ UNCHANGED <<remaining, waker, left, rpc, credits, acquired, submitted, wakePending, closedSeen>>
Submit(s) ==    \* remaining.fetch_add(1)
  /\ pc[s] = "submit" /\ left[s] > 0
  /\ LET v == IF IsAcq(OrdFetchAdd) /\ remaining.rel THEN Max2(viewOf[s], remaining.view) ELSE viewOf[s] IN
     /\ remaining' = [val |-> remaining.val + 1, rel |-> IsRel(OrdFetchAdd), view |-> v]
     /\ viewOf' = [viewOf EXCEPT ![s] = v]
  /\ submitted' = submitted + 1
  /\ left' = [left EXCEPT ![s] = @ - 1]
  /\ pc' = [pc EXCEPT ![s] = IF WakeAfterSubmit THEN "wake" ELSE IF left[s] = 1 THEN (IF SendersDrop THEN "drop" ELSE "idle") ELSE "submit"]
  /\ UNCHANGED <<sendersH, waker, rpc, credits, acquired, wakePending, closedSeen, err>>
SWake(s) ==
  /\ pc[s] \in {"wake", "dropwake"}
  /\ LET v == Max2(viewOf[s], waker.view) IN
     /\ waker' = [reg |-> FALSE, view |-> v] /\ viewOf' = [viewOf EXCEPT ![s] = v]
     /\ wakePending' = (wakePending \/ waker.reg)
  /\ pc' = [pc EXCEPT ![s] = IF pc[s] = "dropwake" THEN "done" ELSE IF left[s] = 0 THEN (IF SendersDrop THEN "drop" ELSE "idle") ELSE "submit"]
  /\ UNCHANGED <<remaining, sendersH, left, rpc, credits, acquired, submitted, closedSeen, err>>
NoMore(s) == pc[s] = "submit" /\ left[s] = 0 /\ pc' = [pc EXCEPT ![s] = IF SendersDrop THEN "drop" ELSE "idle"]
             /\ UNCHANGED <<remaining, sendersH, waker, viewOf, left, rpc, credits, acquired, submitted, wakePending, closedSeen, err>>
Drop(s) ==      \* senders.fetch_sub(1), then wake
  /\ pc[s] = "drop"
  /\ SendersRmw(s, OrdFetchSub, 0 - 1)
  /\ pc' = [pc EXCEPT ![s] = "dropwake"]
  /\ UNCHANGED <<remaining, waker, left, rpc, credits, acquired, submitted, wakePending, closedSeen>>
\* --- receiver -----------------------------------------------------------------------------------------------------
Swap(nextIfEmpty, nextIfSome) ==     \* acquire!(): credits += remaining.swap(0)
  LET v == IF IsAcq(OrdSwap) /\ remaining.rel THEN Max2(viewOf[0], remaining.view) ELSE viewOf[0] IN
  /\ remaining' = [val |-> 0, rel |-> IsRel(OrdSwap), view |-> v]
  /\ viewOf' = [viewOf EXCEPT ![0] = v]
  /\ IF credits + remaining.val > 0
     THEN /\ acquired' = acquired + credits + remaining.val /\ credits' = 0 /\ rpc' = nextIfSome       \* Ready(Some(n)); the caller finishes n
     ELSE /\ UNCHANGED <<acquired, credits>> /\ rpc' = nextIfEmpty
RPoll == rpc = "poll" /\ Swap("register", "poll")
         /\ UNCHANGED <<sendersH, waker, pc, left, submitted, wakePending, closedSeen, err>>
RRegister ==
  /\ rpc = "register"
  /\ LET v == Max2(viewOf[0], waker.view) IN
     /\ waker' = [reg |-> TRUE, view |-> v] /\ viewOf' = [viewOf EXCEPT ![0] = v]
  /\ rpc' = (IF RecheckAfterRegister THEN "poll2" ELSE "load")
  /\ UNCHANGED <<remaining, sendersH, pc, left, credits, acquired, submitted, wakePending, closedSeen, err>>
RPoll2 == rpc = "poll2" /\ Swap("load", "poll")
          /\ UNCHANGED <<sendersH, waker, pc, left, submitted, wakePending, closedSeen, err>>
RLoad ==        \* senders.load: any value the receiver's view still allows
  /\ rpc = "load"
  /\ \E i \in viewOf[0]..Len(sendersH) :
       /\ viewOf' = [viewOf EXCEPT ![0] = IF IsAcq(OrdSendersLoad) /\ sendersH[i].rel THEN Max2(i, sendersH[i].view) ELSE i]
       /\ rpc' = (IF sendersH[i].val = 0 THEN (IF FinalAcquire THEN "final" ELSE "closed") ELSE "parked")
  /\ UNCHANGED <<remaining, sendersH, waker, pc, left, credits, acquired, submitted, wakePending, closedSeen, err>>
RFinal == rpc = "final" /\ Swap("closed", "poll")
          /\ UNCHANGED <<sendersH, waker, pc, left, submitted, wakePending, closedSeen, err>>
RClosed == rpc = "closed" /\ closedSeen' = TRUE /\ rpc' = "done"
           /\ UNCHANGED <<remaining, sendersH, waker, viewOf, pc, left, credits, acquired, submitted, wakePending, err>>
RParked == rpc = "parked" /\ wakePending /\ wakePending' = FALSE /\ rpc' = "poll"
           /\ UNCHANGED <<remaining, sendersH, waker, viewOf, pc, left, credits, acquired, submitted, closedSeen, err>>
Next == Clone \/ (\E s \in SIds : Submit(s) \/ SWake(s) \/ NoMore(s) \/ Drop(s))
        \/ RPoll \/ RRegister \/ RPoll2 \/ RLoad \/ RFinal \/ RClosed \/ RParked
Spec == Init /\ [][Next]_vars
----------------------------------------------------------------------------
NoError == err = "none"
AllSendersDone == \A s \in SIds : pc[s] = "done"
\* "closed" is reported only when no sender handle is left, and then nothing that was submitted is lost
ClosedOnlyWhenDrained == closedSeen => (\A s \in SIds : pc[s] \in {"dropwake", "done"}) /\ acquired = submitted
\* nothing is counted twice
NeverMoreThanSubmitted == acquired + credits <= submitted
\* a parked receiver that nobody will wake although everything is over
NoLostWakeup == /\ ~(rpc = "parked" /\ ~wakePending /\ AllSendersDone)
                /\ ~(rpc = "parked" /\ ~wakePending /\ remaining.val > 0 /\ \A s \in SIds : pc[s] \in {"idle", "done"})
=============================================================================

------------------------------ MODULE ReasmOps ------------------------------
(* The reassembly-buffer reference model as pure operators on a record
   [rcvd, start, maxRecv, final], so that specifications with many streams can keep one buffer
   per stream.  Reassembler.tla (single buffer, variables) is defined in terms of these. *)
EXTENDS Naturals, FiniteSets, IntervalSets
RNone == 0 - 1
REmpty == [rcvd |-> {}, start |-> 0, maxRecv |-> 0, final |-> RNone]
RContiguous(r) == IvRunFrom(r.rcvd, r.start)
RWriteVerdict(r, o, n, fin, maxOffset) ==
  LET end == o + n IN
  IF end > maxOffset THEN "oor"
  ELSE IF fin /\ r.final # RNone /\ end # r.final THEN "fin"
  ELSE IF fin /\ r.final = RNone /\ r.maxRecv > end THEN "fin"
  ELSE IF ~fin /\ r.final # RNone /\ end > r.final THEN "fin"
  ELSE "ok"
\* the buffer after an accepted write
RWrite(r, o, n, fin) ==
  [rcvd |-> IvInsert(r.rcvd, Max2(o, r.start), o + n), start |-> r.start,
   maxRecv |-> Max2(r.maxRecv, o + n), final |-> IF fin THEN o + n ELSE r.final]
RPop(r, n) == [r EXCEPT !.start = r.start + n, !.rcvd = IvRemoveBelow(r.rcvd, r.start + n)]
RSkipVerdict(r, n, maxOffset) ==
  IF n = 0 THEN "ok" ELSE IF r.start + n > maxOffset THEN "oor" ELSE IF r.final # RNone /\ r.final < r.start + n THEN "fin" ELSE "ok"
RSkip(r, n) == [r EXCEPT !.start = r.start + n, !.maxRecv = Max2(r.maxRecv, r.start + n), !.rcvd = IvRemoveBelow(r.rcvd, r.start + n)]
=============================================================================

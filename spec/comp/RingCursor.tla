------------------------------ MODULE RingCursor ------------------------------
(* quic/s2n-quic-core/src/sync/cursor.rs: the producer / consumer cursors of the socket rings.  Two shared u32 counters
   (free-running, wrapping), each written by one side with fetch_add(Release) and read by the other with load(Acquire);
   every side works on cached copies and touches the descriptors between its cached cursors without synchronisation.
   The model: counters modulo M (a small power of two standing for 2^32, so that wrap-around happens), ring of Size
   entries, the same release/acquire memory model as Spsc (stale reads within the thread's view, views joined on
   acquire-of-release, vector clocks for the non-atomic entries), orderings read from the source. *)
EXTENDS Naturals, Sequences, FiniteSets, TLC
CONSTANTS Size, M, Start,       \* ring size (power of two), counter modulus, initial counter value (near the wrap)
          Items, MaxBatch,
          OrdConsumerLoad, OrdProducerAdd, OrdProducerLoad, OrdConsumerAdd
Th == {"P", "C"}
Loc == {"producer", "consumer"}
IsAcq(o) == o \in {"acquire", "acqrel", "seqcst"}
IsRel(o) == o \in {"release", "acqrel", "seqcst"}
Max2(a, b) == IF a >= b THEN a ELSE b
Min2(a, b) == IF a <= b THEN a ELSE b
Join(v, w) == [seen |-> [x \in Loc |-> Max2(v.seen[x], w.seen[x])], vc |-> [t \in Th |-> Max2(v.vc[t], w.vc[t])]]
View0 == [seen |-> [x \in Loc |-> 1], vc |-> [t \in Th |-> 0]]
Sub(a, b) == (a + M - b) % M           \* wrapping subtraction
VARIABLES hist, tv, slot, lastW, lastR, pc, cP, cC, lenP, lenC, batch, next, popped, err
\* cP / cC: each side's cached copies [producer, consumer]; lenP / lenC: cached_len
vars == <<hist, tv, slot, lastW, lastR, pc, cP, cC, lenP, lenC, batch, next, popped, err>>
Init ==
  /\ hist = [x \in Loc |-> <<[val |-> Start, rel |-> TRUE, view |-> View0]>>]
  /\ tv = [t \in Th |-> View0]
  /\ slot = [i \in 0..(Size - 1) |-> 0]
  /\ lastW = [i \in 0..(Size - 1) |-> [th |-> "P", clk |-> 0]] /\ lastR = [i \in 0..(Size - 1) |-> [th |-> "C", clk |-> 0]]
  /\ pc = [t \in Th |-> "acquire"]
  /\ cP = [producer |-> Start, consumer |-> (Start + Size) % M]      \* init_producer: cached_consumer += size
  /\ cC = [producer |-> Start, consumer |-> Start]
  /\ lenP = Size /\ lenC = 0 /\ batch = [t \in Th |-> 0]
  /\ next = 1 /\ popped = <<>> /\ err = "none"
Readable(t, x) == tv[t].seen[x]..Len(hist[x])
AfterLoad(t, x, ord, i) ==
  LET m == hist[x][i] v1 == [tv[t] EXCEPT !.seen[x] = Max2(@, i)] IN IF IsAcq(ord) /\ m.rel THEN Join(v1, m.view) ELSE v1
Ordered(t, e) == tv[t].vc[e.th] >= e.clk
Stamp(t) == [th |-> t, clk |-> tv[t].vc[t]]
\* fetch_add: a read-modify-write on the latest message
FetchAdd(t, x, ord, n) ==
  LET last == hist[x][Len(hist[x])]
      v0 == [tv[t] EXCEPT !.seen[x] = Len(hist[x])]
      v == IF IsAcq(ord) /\ last.rel THEN Join(v0, last.view) ELSE v0
      idx == Len(hist[x]) + 1 IN
  /\ hist' = [hist EXCEPT ![x] = Append(@, [val |-> (last.val + n) % M, rel |-> IsRel(ord), view |-> [v EXCEPT !.seen[x] = idx]])]
  /\ tv' = [tv EXCEPT ![t] = [v EXCEPT !.seen[x] = idx, !.vc[t] = @ + 1]]
\* --- producer ---------------------------------------------------------------------------------------------------------
PAcquire ==       \* acquire_producer(1): reload the consumer cursor only when the cached free count is 0
  /\ pc["P"] = "acquire" /\ next <= Items
  /\ IF lenP >= 1 THEN pc' = [pc EXCEPT !["P"] = "fill"] /\ UNCHANGED <<tv, cP, lenP>>
     ELSE \E i \in Readable("P", "consumer") :
            LET nv == (hist["consumer"][i].val + Size) % M IN
            /\ tv' = [tv EXCEPT !["P"] = AfterLoad("P", "consumer", OrdConsumerLoad, i)]
            /\ cP' = [cP EXCEPT !.consumer = nv]
            /\ lenP' = Sub(nv, cP.producer)
            /\ pc' = [pc EXCEPT !["P"] = IF Sub(nv, cP.producer) >= 1 THEN "fill" ELSE "acquire"]
  /\ batch' = [batch EXCEPT !["P"] = 0]
  /\ UNCHANGED <<hist, slot, lastW, lastR, cC, lenC, next, popped, err>>
PFill ==          \* write one descriptor at (cached_producer + batch) & mask
  /\ pc["P"] = "fill"
  /\ LET s == (cP.producer + batch["P"]) % Size IN
     /\ err' = (IF err # "none" THEN err
                ELSE IF lenP > Size THEN "cached_len exceeds the ring size"
                ELSE IF ~Ordered("P", lastR[s]) \/ ~Ordered("P", lastW[s]) THEN "race: descriptor written while the consumer's read of it is not ordered before"
                ELSE IF slot[s] # 0 THEN "descriptor overwritten before it was consumed" ELSE "none")
     /\ slot' = [slot EXCEPT ![s] = next] /\ lastW' = [lastW EXCEPT ![s] = Stamp("P")]
  /\ next' = next + 1
  /\ batch' = [batch EXCEPT !["P"] = @ + 1]
  /\ pc' = [pc EXCEPT !["P"] = IF batch["P"] + 1 >= Min2(lenP, MaxBatch) \/ next + 1 > Items THEN "release" ELSE "fill"]
  /\ UNCHANGED <<hist, tv, lastR, cP, cC, lenP, lenC, popped>>
PRelease ==       \* release_producer(batch): producer.fetch_add(batch)
  /\ pc["P"] = "release"
  /\ FetchAdd("P", "producer", OrdProducerAdd, batch["P"])
  /\ cP' = [cP EXCEPT !.producer = (@ + batch["P"]) % M] /\ lenP' = lenP - batch["P"]
  /\ pc' = [pc EXCEPT !["P"] = IF next > Items THEN "done" ELSE "acquire"]
  /\ UNCHANGED <<slot, lastW, lastR, cC, lenC, batch, next, popped, err>>
\* --- consumer ---------------------------------------------------------------------------------------------------------
CAcquire ==
  /\ pc["C"] = "acquire" /\ Len(popped) < Items
  /\ IF lenC >= 1 THEN pc' = [pc EXCEPT !["C"] = "take"] /\ UNCHANGED <<tv, cC, lenC>>
     ELSE \E i \in Readable("C", "producer") :
            LET nv == hist["producer"][i].val IN
            /\ tv' = [tv EXCEPT !["C"] = AfterLoad("C", "producer", OrdProducerLoad, i)]
            /\ cC' = [cC EXCEPT !.producer = nv]
            /\ lenC' = Sub(nv, cC.consumer)
            /\ pc' = [pc EXCEPT !["C"] = IF Sub(nv, cC.consumer) >= 1 THEN "take" ELSE "acquire"]
  /\ batch' = [batch EXCEPT !["C"] = 0]
  /\ UNCHANGED <<hist, slot, lastW, lastR, cP, lenP, next, popped, err>>
CTake ==
  /\ pc["C"] = "take"
  /\ LET s == (cC.consumer + batch["C"]) % Size IN
     /\ err' = (IF err # "none" THEN err
                ELSE IF lenC > Size THEN "cached_len exceeds the ring size"
                ELSE IF ~Ordered("C", lastW[s]) THEN "race / uninitialised read: descriptor read although its write is not ordered before"
                ELSE IF slot[s] = 0 THEN "descriptor read that holds nothing" ELSE "none")
     /\ popped' = (IF slot[s] # 0 THEN Append(popped, slot[s]) ELSE popped)
     /\ slot' = [slot EXCEPT ![s] = 0] /\ lastR' = [lastR EXCEPT ![s] = Stamp("C")]
  /\ batch' = [batch EXCEPT !["C"] = @ + 1]
  /\ pc' = [pc EXCEPT !["C"] = IF batch["C"] + 1 >= Min2(lenC, MaxBatch) THEN "release" ELSE "take"]
  /\ UNCHANGED <<hist, tv, lastW, cP, cC, lenP, lenC, next>>
CRelease ==
  /\ pc["C"] = "release"
  /\ FetchAdd("C", "consumer", OrdConsumerAdd, batch["C"])
  /\ cC' = [cC EXCEPT !.consumer = (@ + batch["C"]) % M] /\ lenC' = lenC - batch["C"]
  /\ pc' = [pc EXCEPT !["C"] = "acquire"]
  /\ UNCHANGED <<slot, lastW, lastR, cP, lenP, batch, next, popped, err>>
Next == PAcquire \/ PFill \/ PRelease \/ CAcquire \/ CTake \/ CRelease
Spec == Init /\ [][Next]_vars
NoError == err = "none"
RECURSIVE IsPrefixOfNat(_, _)
IsPrefixOfNat(s, k) == IF s = <<>> THEN TRUE ELSE Head(s) = k /\ IsPrefixOfNat(Tail(s), k + 1)
Fifo == IsPrefixOfNat(popped, 1)
Bounded == lenP <= Size /\ lenC <= Size
=============================================================================

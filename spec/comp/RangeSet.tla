----------------------------- MODULE RangeSet -----------------------------
(* Reference model of IntervalSet<T> (optionally limited to Limit intervals) and of the
   capacity-bounded ACK range set ack::Ranges built on it.  State: a plain interval set over
   naturals (IntervalSets).  Intervals in operations are inclusive [lo, hi] as in the Rust API. *)
EXTENDS Naturals, FiniteSets, IntervalSets

CONSTANT Limit          \* 0 = unlimited
VARIABLE set
NoLimit == Limit = 0

SInit == set = {}
STypeOK == IsIvSet(set) /\ (NoLimit \/ IvCount(set) <= Limit)

\* insert [lo,hi]: a new interval that merges with nothing needs a free entry
InsertVerdict(lo, hi) ==
  IF set # {} /\ ~NoLimit /\ IvTouching(set, lo, hi + 1) = {} /\ IvCount(set) >= Limit THEN "limit" ELSE "ok"
Insert(lo, hi, res) ==
  /\ res = InsertVerdict(lo, hi)
  /\ set' = IF res = "ok" THEN IvInsert(set, lo, hi + 1) ELSE set

\* remove [lo,hi]: splitting an interval in two needs a free entry (the code keeps one spare:
\* it refuses when Count + 1 >= Limit -- named deviation, conservative by one)
IsSplit(lo, hi) == \E iv \in set : iv[1] < lo /\ hi + 1 < iv[2]
RemoveVerdict(lo, hi) ==
  IF ~NoLimit /\ IsSplit(lo, hi) /\ ~(Limit > IvCount(set) + 1) THEN "limit" ELSE "ok"
Remove(lo, hi, res) ==
  /\ res = RemoveVerdict(lo, hi)
  /\ set' = IF res = "ok" THEN IvRemove(set, lo, hi + 1) ELSE set

PopMin == set' = IF set = {} THEN set ELSE set \ {IvMinInterval(set)}
PopMinResult == IF set = {} THEN <<>> ELSE <<IvMinInterval(set)[1], IvMinInterval(set)[2] - 1>>
Clear == set' = {}
UnionWith(o) == set' = IvUnion(set, o)
DifferenceWith(o) == set' = IvDifference(set, o)
IntersectionWith(o) == set' = IvIntersection(set, o)

\* ack::Ranges::insert_packet_number_range: when full, only the lowest interval may be shed, and
\* only for a higher range; verdicts: "ok" | "dropped" (lowest shed, new inserted) | "failed"
AckInsertVerdict(lo, hi) ==
  IF InsertVerdict(lo, hi) = "ok" THEN "ok"
  ELSE IF IvMinInterval(set)[1] < lo THEN "dropped" ELSE "failed"
AckInsert(lo, hi, res) ==
  /\ res = AckInsertVerdict(lo, hi)
  /\ set' = CASE res = "ok" -> IvInsert(set, lo, hi + 1)
              [] res = "dropped" -> IvInsert(set \ {IvMinInterval(set)}, lo, hi + 1)
              [] OTHER -> set

\* observers (inclusive intervals, ascending)
RECURSIVE InclSeq(_)
InclSeq(S) == IF S = {} THEN <<>> ELSE LET iv == IvMinInterval(S) IN <<<<iv[1], iv[2] - 1>>>> \o InclSeq(S \ {iv})
=============================================================================

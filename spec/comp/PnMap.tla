------------------------------- MODULE PnMap -------------------------------
(* Reference model of packet::number::Map<V>: a finite function from packet numbers to values.
   The implementation requires insertions in ascending order (insert) or not below the lowest
   present key (insert_or_update); those are preconditions (guards), not behaviour. *)
EXTENDS Naturals, FiniteSets, Sequences, IntervalSets
VARIABLE m            \* function: present packet numbers -> values
MInit == m = <<>>
Keys == DOMAIN m
IsEmpty == Keys = {}
CanInsert(pn) == IF IsEmpty THEN TRUE ELSE pn > SetMax(Keys)
CanInsertOrUpdate(pn) == IF IsEmpty THEN TRUE ELSE pn >= SetMin(Keys)
Put(f, k, v) == [x \in DOMAIN f \cup {k} |-> IF x = k THEN v ELSE f[x]]
Del(f, K) == [x \in DOMAIN f \ K |-> f[x]]
Insert(pn, v) == CanInsert(pn) /\ m' = Put(m, pn, v)
\* update adds Bump to the stored value (the harness passes the same closure)
InsertOrUpdate(pn, v, bump) == CanInsertOrUpdate(pn) /\ m' = IF pn \in Keys THEN Put(m, pn, m[pn] + bump) ELSE Put(m, pn, v)
Remove(pn) == m' = Del(m, {pn})
RemoveResult(pn) == IF pn \in Keys THEN m[pn] ELSE 0 - 1
RemoveRange(lo, hi) == m' = Del(m, {k \in Keys : lo <= k /\ k <= hi})
Clear == m' = <<>>
RECURSIVE Entries(_, _)
Entries(f, K) == IF K = {} THEN <<>> ELSE LET k == SetMin(K) IN <<<<k, f[k]>>>> \o Entries(f, K \ {k})
RemoveRangeResult(lo, hi) == Entries(m, {k \in Keys : lo <= k /\ k <= hi})
=============================================================================

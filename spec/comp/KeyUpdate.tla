------------------------------ MODULE KeyUpdate ------------------------------
(* 1-RTT key sets of two endpoints (transcription of crypto::application::KeySet and
   limited::Key, RFC 9001 section 6) with an arbitrary-reordering, duplicating network.

   Key generations are numbers: the initial key is generation 0, derive_next_key of generation
   g is generation g+1; both endpoints derive the same sequence.  A packet decrypts iff the key
   slot selected by its Key Phase bit holds the generation it was protected with (AEAD idealised).

   FixF2 = FALSE transcribes the pinned tree, where a successfully decrypted packet whose phase
   differs from the current one ALWAYS rotates the phase - also a delayed packet of the previous
   generation that arrives while the old keys are retained (derivation timer armed).
   FixF2 = TRUE is the repaired rule: while the timer is armed the other slot still holds the
   previous generation, so such a packet is an old one and must not rotate. *)
EXTENDS Naturals, FiniteSets, Sequences

CONSTANTS ConfLimit,        \* AEAD confidentiality limit (packets per key)
          Window,           \* key_update_window: update when used > ConfLimit - Window
          IntegrityLimit,   \* AEAD integrity limit (failed decryptions per connection)
          MaxPn,            \* packets each endpoint may send (bound)
          FixF2

Ep == {"a", "b"}
Peer(e) == IF e = "a" THEN "b" ELSE "a"

VARIABLES
  phase,      \* [Ep -> 0..1]      current key phase
  rotations,  \* [Ep -> Nat]       KeySet.generation (number of rotations)
  slot,       \* [Ep -> [0..1 -> [gen, enc]]]  key generation and packets encrypted per slot
  timer,      \* [Ep -> BOOLEAN]   derivation timer armed (key update in progress)
  failures,   \* [Ep -> Nat]       packets that failed authentication
  closed,     \* [Ep -> BOOLEAN]   AEAD_LIMIT_REACHED
  nextPn,     \* [Ep -> Nat]
  net,        \* set of packets [src, pn, bit, gen]
  used,       \* ghost [Ep -> [Nat -> Nat]] packets protected per key generation (over re-derivations)
  sentGen,    \* ghost [Ep -> Seq(Nat)] generation used for packet number i-1
  last        \* outcome of the last step (for conformance): record

kvars == <<phase, rotations, slot, timer, failures, closed, nextPn, net, used, sentGen, last>>

Gens == 0..(2 * MaxPn + 4)

KInit ==
  /\ phase = [e \in Ep |-> 0]
  /\ rotations = [e \in Ep |-> 0]
  /\ slot = [e \in Ep |-> [i \in 0..1 |-> [gen |-> i, enc |-> 0]]]
  /\ timer = [e \in Ep |-> FALSE]
  /\ failures = [e \in Ep |-> 0]
  /\ closed = [e \in Ep |-> FALSE]
  /\ nextPn = [e \in Ep |-> 0]
  /\ net = {}
  /\ used = [e \in Ep |-> [g \in Gens |-> 0]]
  /\ sentGen = [e \in Ep |-> <<>>]
  /\ last = [op |-> "init"]

Sat(a, b) == IF a >= b THEN a - b ELSE 0
NeedsUpdate(k) == k.enc > Sat(ConfLimit, Window)
Expired(k) == k.enc >= ConfLimit
EncPhase(e) == IF NeedsUpdate(slot[e][phase[e]]) THEN 1 - phase[e] ELSE phase[e]

\* encrypt_packet: refused when the selected key is used up
Encrypt(e) ==
  /\ ~closed[e] /\ nextPn[e] < MaxPn
  \* environment assumption A1 (see DESIGN.md C15): an endpoint does not exhaust a key while the
  \* previous update's derivation timer (3 PTO) is still armed
  /\ ~(timer[e] /\ NeedsUpdate(slot[e][phase[e]]))
  /\ LET ph == EncPhase(e)
         k == slot[e][ph] IN
     IF Expired(k)
     THEN /\ last' = [op |-> "encrypt", ep |-> e, res |-> "refused", bit |-> ph]
          /\ UNCHANGED <<phase, rotations, slot, timer, failures, closed, nextPn, net, used, sentGen>>
     ELSE /\ slot' = [slot EXCEPT ![e][ph].enc = @ + 1]
          /\ net' = net \cup {[src |-> e, pn |-> nextPn[e], bit |-> ph, gen |-> k.gen]}
          /\ nextPn' = [nextPn EXCEPT ![e] = @ + 1]
          /\ used' = [used EXCEPT ![e][k.gen] = @ + 1]
          /\ sentGen' = [sentGen EXCEPT ![e] = Append(@, k.gen)]
          /\ last' = [op |-> "encrypt", ep |-> e, res |-> "ok", bit |-> ph, pn |-> nextPn[e], gen |-> k.gen]
          /\ UNCHANGED <<phase, rotations, timer, failures, closed>>

\* decrypt_packet for a packet with key-phase bit `bit`, protected with generation `gen` (forged: no key fits)
Decrypt(e, bit, gen, forged, pn, src) ==
  /\ ~closed[e]
  /\ LET k == slot[e][bit]
         ok == ~forged /\ k.gen = gen
         rotate == ok /\ bit # phase[e] /\ (FixF2 => ~timer[e]) IN
     IF ok
     THEN /\ phase' = IF rotate THEN [phase EXCEPT ![e] = bit] ELSE phase
          /\ rotations' = IF rotate THEN [rotations EXCEPT ![e] = @ + 1] ELSE rotations
          /\ timer' = IF rotate THEN [timer EXCEPT ![e] = TRUE] ELSE timer
          /\ last' = [op |-> "deliver", ep |-> e, res |-> "ok", rotated |-> rotate, pn |-> pn, src |-> src, forged |-> forged, bit |-> bit]
          /\ UNCHANGED <<failures, closed>>
     ELSE /\ failures' = [failures EXCEPT ![e] = @ + 1]
          /\ closed' = [closed EXCEPT ![e] = failures[e] + 1 >= IntegrityLimit]
          /\ last' = [op |-> "deliver", ep |-> e, res |-> IF failures[e] + 1 >= IntegrityLimit THEN "aead_limit" ELSE "fail",
                      rotated |-> FALSE, pn |-> pn, src |-> src, forged |-> forged, bit |-> bit]
          /\ UNCHANGED <<phase, rotations, timer>>
  /\ UNCHANGED <<slot, nextPn, net, used, sentGen>>

Deliver(e, p) == p.src = Peer(e) /\ Decrypt(e, p.bit, p.gen, FALSE, p.pn, p.src)
Forge(e, bit) == Decrypt(e, bit, 0, TRUE, 0, "x")

\* on_timeout: the old keys are dropped, the next generation is derived into the inactive slot
TimerFire(e) ==
  /\ timer[e] /\ ~closed[e]
  /\ timer' = [timer EXCEPT ![e] = FALSE]
  /\ slot' = [slot EXCEPT ![e][1 - phase[e]] = [gen |-> slot[e][phase[e]].gen + 1, enc |-> 0]]
  /\ last' = [op |-> "timer", ep |-> e]
  /\ UNCHANGED <<phase, rotations, failures, closed, nextPn, net, used, sentGen>>

KNext == \E e \in Ep : \/ Encrypt(e)
                       \/ \E p \in net : Deliver(e, p)
                       \/ \E bit \in 0..1 : Forge(e, bit)
                       \/ TimerFire(e)
KSpec == KInit /\ [][KNext]_kvars

----------------------------------------------------------------------------
\* The property
UsageWithinLimit == \A e \in Ep, g \in Gens : used[e][g] <= ConfLimit
GenMonotoneInPn  == \A e \in Ep : \A i, j \in 1..Len(sentGen[e]) : i < j => sentGen[e][i] <= sentGen[e][j]
IntegrityClose   == \A e \in Ep : (failures[e] >= IntegrityLimit) <=> closed[e]
\* the active key is always the newest generation the endpoint has ever activated
ActiveNeverOlder == \A e \in Ep : slot[e][phase[e]].gen = rotations[e]
\* a key update is started strictly before the limit: whenever the active key is used up, the next
\* phase's key is selected for sending
UpdateBeforeLimit == \A e \in Ep : Expired(slot[e][phase[e]]) => EncPhase(e) # phase[e]
\* a genuine packet of the receiver's current generation, of the next one, or of the previous one
\* while the old keys are retained, is decrypted
GenuineDecrypts == \A e \in Ep : \A p \in net :
   (p.src = Peer(e) /\ ~closed[e]) =>
     LET cur == slot[e][phase[e]].gen IN
       ((p.gen = cur /\ p.bit = phase[e]) \/ (p.gen = cur + 1 /\ p.bit # phase[e] /\ ~timer[e]) \/ (p.gen + 1 = cur /\ p.bit # phase[e] /\ timer[e]))
         => slot[e][p.bit].gen = p.gen
KTypeOK == \A e \in Ep : phase[e] \in 0..1 /\ slot[e][0].gen # slot[e][1].gen
=============================================================================

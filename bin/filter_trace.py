#!/usr/bin/env python3
"""filter_trace.py <in.ndjson> <out.ndjson> <ev>[,<ev>...] : keeps the listed event kinds (never rewrites or reorders)"""
import json, sys
keep = set(sys.argv[3].split(','))
n = 0
with open(sys.argv[2], 'w') as o:
    for l in open(sys.argv[1]):
        # cheap pre-filter on the raw text, exact check on the parsed event
        e = json.loads(l)
        if e['ev'] in keep:
            o.write(l); n += 1
print(n)

#!/usr/bin/env python3
"""debug aid: replays the PacketFlow rules in python and prints the first failing condition (diagnosis only; TLC decides)"""
import json, sys
L=[json.loads(x) for x in open(sys.argv[1])]
mad={'c':25000,'s':25000}
def fresh(): return dict(gen={(e,s):{} for e in 'cs' for s in 'iha'}, proc={(e,s):set() for e in 'cs' for s in 'iha'}, last={(e,s):-1 for e in 'cs' for s in 'iha'}, pend={'c':{},'s':{}}, may={'c':True,'s':True}, paced={'c':0,'s':0}, acks={'c':{},'s':{}}, floor={'c':-1,'s':-1})
st=fresh(); oth={'c':'s','s':'c'}
for i,e in enumerate(L):
    t=e.get('t',0); ev=e['ev']
    def overdue():
        for ep in 'cs':
            if st['may'][ep]:
                for pn,d in st['pend'][ep].items():
                    if t>max(d,st['paced'][ep])+5000: return (ep,pn,d,st['paced'][ep])
    if ev=='reset': st=fresh(); mad={'c':e['sc']['c']['max_ack_delay_ms']*1000,'s':e['sc']['s']['max_ack_delay_ms']*1000}; continue
    if ev in('txp','rxp','sim_end'):
        o=overdue()
        if o: print('line',i+1,'OVERDUE ep,pn,deadline,paced=',o,'at',t,ev,e.get('ep')); break
    if ev=='pacing': st['paced'][e['ep']]=e['until']
    if ev=='txp':
        k=(e['ep'],e['sp'])
        if e['pn']<=st['last'][k]: print('line',i+1,'pn not increasing'); break
        st['last'][k]=e['pn']; st['gen'][k][e['pn']]=e['hash']
    if ev=='rxp':
        k=(e['ep'],e['sp']); pk=(oth[e['ep']],e['sp'])
        if st['gen'][pk].get(e['pn'])!=e['hash']: print('line',i+1,'not genuine', e['pn'], st['gen'][pk].get(e['pn']), e['hash']); break
        if e['pn'] in st['proc'][k]: print('line',i+1,'processed twice',e['pn']); break
        st['proc'][k].add(e['pn'])
        if e['sp']=='a' and e['el'] and st['may'][e['ep']] and e['pn']>st['floor'][e['ep']]: st['pend'][e['ep']][e['pn']]=t+mad[e['ep']]
    if ev=='txf' and e['ty']=='ack':
        k=(e['ep'],e['sp'])
        for lo,hi in e['ranges']:
            for pn in range(lo,hi+1):
                if pn not in st['proc'][k]: print('line',i+1,'ACK of unprocessed',pn); sys.exit()
        if e['sp']=='a':
            st['acks'][e['ep']][e['pn']]=max(hi for lo,hi in e['ranges'])
            lowest=min(lo for lo,hi in e['ranges']); cap=len(e['ranges'])>=10
            for pn in list(st['pend'][e['ep']]):
                if any(lo<=pn<=hi for lo,hi in e['ranges']) or (cap and pn<lowest): del st['pend'][e['ep']][pn]
    if ev=='rxf' and e['ty']=='ack' and e['sp']=='a':
        ep=e['ep']; cov=[p for p in st['acks'][ep] if any(lo<=p<=hi for lo,hi in e['ranges'])]
        for p in cov: st['floor'][ep]=max(st['floor'][ep], st['acks'][ep].pop(p))
        for p in list(st['pend'][ep]):
            if p<=st['floor'][ep]: del st['pend'][ep][p]
    if ev in('txf','rxf') and e.get('ty')=='conn_close': st['may'][e['ep']]=False
    if ev=='conn_closed':
        st['may'][e['ep']]=False
        if e['error']['kind'] not in ("application","closed","idle","handshake_duration","endpoint_closing","immediate_close"): print('line',i+1,'unexplained close',e['error']); break
else: print('python replica accepts')

#!/usr/bin/env python3
"""Shared machinery of the /verif orchestrator.

A check is a python function `run(ctx)` in bin/checks/<ID>.py.  It composes three kinds of
stages, all of which go through this module:

  ctx.mc(...)      bounded exhaustive TLC run of a specification (spec/mc/MC_*.cfg)
  ctx.gen(...)     TLC behaviour generator (spec/gen/Gen_*.cfg) -> file of JSON behaviours
  ctx.harness(...) the Rust harness (replays behaviours into / records traces from the real code)
  ctx.trace(...)   TLC trace validation of a recorded ndjson trace (spec/trace/Trace_*.cfg)

Exit codes of bin/check: 0 property held on everything explored, 1 violation
(`VIOLATION property=<id> replay=<path>` printed), 2 tool error / timeout / vacuous run.
"""
import glob
import hashlib
import json
import os
import re
import shutil
import subprocess
import sys
import time

VERIF = os.path.dirname(os.path.dirname(os.path.abspath(__file__)))
REPO = os.environ.get("VERIF_REPO", "/repo")
JAR = "/opt/veriftools/tla/tla2tools.jar:/opt/veriftools/tla/CommunityModules-deps.jar"
HARNESS = os.path.join(VERIF, "harness")


class ToolError(Exception):
    pass


def log(*a):
    print("[check]", *a, flush=True)


def sh(cmd, timeout=None, env=None, cwd=None, stdout_file=None):
    e = dict(os.environ)
    if env:
        e.update(env)
    t0 = time.time()
    try:
        if stdout_file:
            with open(stdout_file, "w") as f:
                p = subprocess.run(cmd, cwd=cwd, env=e, stdout=f, stderr=subprocess.STDOUT, timeout=timeout)
            out = ""
        else:
            p = subprocess.run(cmd, cwd=cwd, env=e, stdout=subprocess.PIPE, stderr=subprocess.STDOUT,
                               timeout=timeout, text=True, errors="replace")
            out = p.stdout
    except subprocess.TimeoutExpired:
        raise ToolError("timeout after %ss: %s" % (timeout, " ".join(cmd)[:200]))
    return p.returncode, out, time.time() - t0


class Ctx:
    def __init__(self, pid, tier, seed, replay=None):
        self.pid = pid
        self.tier = tier
        self.seed = seed
        self.replay_file = replay
        self.t0 = time.time()
        self.out = os.path.join(VERIF, "out", pid)
        shutil.rmtree(self.out, ignore_errors=True)
        os.makedirs(self.out, exist_ok=True)
        self.flat = os.path.join(self.out, "flat")
        os.makedirs(self.flat)
        for f in glob.glob(os.path.join(VERIF, "spec", "*", "*.tla")) + glob.glob(os.path.join(VERIF, "spec", "*", "*.cfg")):
            shutil.copy(f, self.flat)
        self.cov = {"states": 0, "transitions": 0, "traces_validated_against_impl": 0, "evaluations": 0,
                    "distinct_nontrivial": 0, "samples": [], "stages": [], "checker_cmd": "bin/check %s --tier %s" % (pid, tier)}
        self.assumptions = []
        self.violations = []       # (what, replay_path)
        self.known_hits = []       # (finding id, what)
        self.findings = load_findings(pid)
        self.quick = tier == "quick"
        self._distinct = set()

    # ---------------------------------------------------------------- builds
    def build(self, crate):
        rc, out, dt = sh(["cargo", "build", "-q", "-p", crate], cwd=HARNESS, timeout=2400,
                         env={"CARGO_NET_OFFLINE": "true"})
        if rc != 0:
            sys.stdout.write(out[-6000:])
            raise ToolError("harness crate %s does not build against the current tree" % crate)
        log("built %s in %.0fs" % (crate, dt))
        return os.path.join(HARNESS, "target", "debug", crate)

    def harness(self, binary, args, timeout=1800, env=None):
        """runs the harness binary; returns the JSON after the RESULT marker"""
        rc, out, dt = sh([binary] + [str(a) for a in args], timeout=timeout, cwd=self.out, env=env)
        res = None
        for line in out.splitlines():
            if line.startswith("RESULT "):
                res = json.loads(line[7:])
        if res is None:
            sys.stdout.write(out[-4000:])
            raise ToolError("harness %s %s produced no RESULT (rc=%s)" % (os.path.basename(binary), args[0], rc))
        res["_wall_s"] = round(dt, 1)
        return res

    # ---------------------------------------------------------------- TLC
    def _tlc(self, module, cfg, workers, timeout, extra=None, env=None, stdout_file=None, heap=None):
        meta = os.path.join(self.out, "tlc-" + cfg.replace(".cfg", ""))
        shutil.rmtree(meta, ignore_errors=True)
        jtmp = os.path.join(self.out, "jtmp")       # TLC leaves a tlc-* directory in java.io.tmpdir per run: keep it out of /tmp
        os.makedirs(jtmp, exist_ok=True)
        cmd = ["java", "-XX:+UseParallelGC", "-Djava.io.tmpdir=" + jtmp]
        if heap:
            cmd.append("-Xmx" + heap)
        cmd += ["-cp", JAR, "tlc2.TLC", "-workers", str(workers), "-metadir", meta, "-cleanup",
                "-noGenerateSpecTE", "-config", cfg] + (extra or []) + [module]
        rc, out, dt = sh(cmd, timeout=timeout, cwd=self.flat, env=env, stdout_file=stdout_file)
        shutil.rmtree(meta, ignore_errors=True)
        shutil.rmtree(jtmp, ignore_errors=True)
        return rc, out, dt

    def mc(self, name, workers=8, timeout=1500, expect_actions=None, cfg=None):
        """bounded exhaustive model checking of spec/mc/<name>.tla with <name>.cfg"""
        cfg = cfg or name + ".cfg"
        rc, out, dt = self._tlc(name + ".tla", cfg, workers, timeout, extra=["-coverage", "1"])
        m = re.search(r"(\d+) states generated, (\d+) distinct states found", out)
        if not m:
            sys.stdout.write(out[-5000:])
            raise ToolError("TLC gave no state count for %s" % name)
        gen, distinct = int(m.group(1)), int(m.group(2))
        ok = "Model checking completed. No error has been found." in out
        st = {"stage": "mc", "model": cfg, "states_generated": gen, "distinct_states": distinct, "ok": ok, "wall_s": round(dt, 1)}
        self.cov["states"] += distinct
        self.cov["transitions"] += gen
        self.cov["stages"].append(st)
        log("MC %s: %d distinct states, %d generated, ok=%s (%.0fs)" % (cfg, distinct, gen, ok, dt))
        if not ok:
            path = os.path.join(self.out, "mc-%s-counterexample.txt" % name)
            open(path, "w").write(out)
            inv = re.search(r"(Invariant|property) (\S+) is violated|Temporal properties were violated", out)
            self.violation("model %s violates %s" % (cfg, inv.group(0) if inv else "a checked property"), path)
            return st
        # vacuity: every action named by the caller must have been taken
        if expect_actions:
            # since TLC 1.8 coverage lines look like: <Action line ... of module M>: distinct:generated
            for a in expect_actions:
                mm = re.search(r"<%s line [^>]*>: (\d+):(\d+)" % re.escape(a), out)
                if not mm or int(mm.group(2)) == 0:
                    raise ToolError("vacuous model run: action %s of %s never taken" % (a, name))
        return st

    def gen(self, name, outfile, workers=8, timeout=1500, cfg=None, simulate=None):
        """behaviour generator: stdout of TLC (JSON behaviours printed by an invariant) -> outfile"""
        cfg = cfg or name + ".cfg"
        extra = []
        if simulate:
            extra = ["-simulate", "num=%d" % simulate[0], "-depth", str(simulate[1]), "-seed", str(self.seed + 1)]
            workers = 1
        path = os.path.join(self.out, outfile)
        rc, _, dt = self._tlc(name + ".tla", cfg, workers, timeout, extra=extra, stdout_file=path)
        n = 0
        tail = []
        with open(path, errors="replace") as f:
            for line in f:
                if line.startswith('"[') or line.startswith('"{'):
                    n += 1
                else:
                    tail.append(line)
        txt = "".join(tail[-40:])
        if n == 0 or ("Error:" in txt and "Postcondition" not in txt):
            sys.stdout.write(txt[-3000:])
            raise ToolError("generator %s produced %d behaviours" % (name, n))
        m = re.search(r"(\d+) states generated, (\d+) distinct states found", txt)
        if m:
            self.cov["states"] += int(m.group(2))
            self.cov["transitions"] += int(m.group(1))
        self.cov["stages"].append({"stage": "gen", "model": cfg, "behaviours": n, "wall_s": round(dt, 1),
                                   "mode": "simulate" if simulate else "exhaustive"})
        log("GEN %s: %d behaviours (%.0fs)" % (cfg, n, dt))
        return path, n

    def trace(self, name, trace_file, runs=1, timeout=600, cfg=None, heap="3g", label=None):
        """trace validation: returns True if TLC explains every line of trace_file"""
        cfg = cfg or name + ".cfg"
        env = {"JAVA_TOOL_OPTIONS": "-Xss1g -Dtlc2.tool.queue.IStateQueue=StateDeque", "TRACE": trace_file}
        rc, out, dt = self._tlc(name + ".tla", cfg, 1, timeout, env=env, heap=heap)
        nlines = sum(1 for _ in open(trace_file))
        self._count_runs(name, trace_file)
        st = {"stage": "trace", "model": cfg, "events": nlines, "runs": runs, "wall_s": round(dt, 1), "label": label}
        self.cov["stages"].append(st)
        for fid in sorted(set(re.findall(r'"KNOWN-FINDING", "(\w+)"', out))):
            desc = next((f["description"] for f in self.findings if f["id"] == fid and f.get("status") == "known"), None)
            if desc is None:
                raise ToolError("trace specification %s used deviation %s which is not a listed known finding" % (cfg, fid))
            self.known_hits.append((fid, desc))
        if "Model checking completed. No error has been found." in out:
            st["accepted"] = True
            self.cov["traces_validated_against_impl"] += runs
            self.cov["evaluations"] += nlines
            log("TRACE %s: %d events of %d runs accepted (%.0fs)" % (cfg, nlines, runs, dt))
            return True
        st["accepted"] = False
        m = re.search(r'"TRACE-REJECTED", "matched", (\d+), "of", (\d+)', out)
        inv = re.search(r"Invariant (\S+) is violated", out)
        if not m and not inv:
            sys.stdout.write(out[-5000:])
            raise ToolError("trace validation %s failed without a verdict" % name)
        if m:
            matched = int(m.group(1))
            what = "%s: line %d of %s is not a step of the specification" % (cfg, matched + 1, os.path.basename(trace_file))
        else:
            dm = re.findall(r"^State (\d+):", out, re.M)
            matched = int(dm[-1]) - 1 if dm else 0
            what = "%s: invariant %s violated after line %d of %s" % (cfg, inv.group(1), matched, os.path.basename(trace_file))
        lines = open(trace_file).read().split("\n")
        ctx_lines = lines[max(0, matched - 8):matched + 1]
        rp = os.path.join(self.out, "replay-%s-%s.json" % (name, label or "trace"))
        json.dump({"property": self.pid, "spec": cfg, "trace_file": trace_file, "matched": matched,
                   "rejected_line": lines[matched] if matched < len(lines) else None,
                   "preceding_lines": ctx_lines[:-1], "seed": self.seed, "tier": self.tier,
                   "tlc_tail": out[-3000:],
                   "rerun": "VERIF_SEED=%d bin/check %s --tier %s" % (self.seed, self.pid, self.tier)}, open(rp, "w"), indent=1)
        st["rejected_line"] = lines[matched][:600] if matched < len(lines) else None
        self.violation(what + " :: " + (lines[matched][:300] if matched < len(lines) else ""), rp)
        return False

    def make_cfg(self, base, new, consts):
        """copy of a cfg in the flat directory with some `Name = value` constants replaced"""
        txt = open(os.path.join(self.flat, base)).read()
        for k, v in consts.items():
            txt, n = re.subn(r"(?m)^(\s*%s\s*=\s*).*$" % re.escape(k), lambda m: m.group(1) + str(v), txt)
            if n != 1:
                raise ToolError("constant %s not found in %s" % (k, base))
        open(os.path.join(self.flat, new), "w").write(txt)
        return new

    def replay_stage(self, what, res, beh_file=None):
        """book-keeping for a harness replay of generated behaviours (spec -> impl)"""
        self.cov["stages"].append({"stage": "replay", "what": what, **{k: res[k] for k in ("behaviours", "steps", "mismatches") if k in res}})
        self.count(res.get("steps", 0))
        self.cov["distinct_nontrivial"] += res.get("behaviours", 0)
        if res.get("sample") is not None:
            self.sample({what: res["sample"]})
        if beh_file and os.path.exists(beh_file):
            os.remove(beh_file)
        if res.get("mismatches"):
            rp = self.write_replay("gen-" + what, {"what": what + " disagrees with a behaviour generated from the specification", "first": res["first"]})
            self.violation("%s: %d generated behaviours disagree, e.g. %s" % (what, res["mismatches"], res["first"][0]["what"]), rp)
        log("REPLAY %s: %s behaviours, %s steps, %s mismatches" % (what, res.get("behaviours"), res.get("steps"), res.get("mismatches")))

    # ---------------------------------------------------------------- end-to-end runs
    def e2e(self, plan, binary=None):
        """runs scenario families of the real client+server (h-quic); plan = [(family, count)];
        returns {family: master trace path}.  A stalled executor or a panic is a `stall`/`panic` line in the
        trace, which no specification accepts."""
        hb = binary or self.build("h-quic")
        out = {}
        for fam, count in plan:
            tf = os.path.join(self.out, "e2e-%s.ndjson" % fam)
            r = self.harness(hb, ["e2e", fam, self.seed, count, tf], timeout=1500)
            self.cov["stages"].append({"stage": "e2e", "family": fam, **{k: v for k, v in r.items() if not k.startswith("_")}})
            log("E2E %s: %d runs, %d events, %d stalls/panics (%.0fs)" % (fam, r["runs"], r["events"], r["stalls_or_panics"], r["_wall_s"]))
            out[fam] = (tf, r["runs"])
        return out

    def e2e_sched(self, n=8, maxfaults=1, binary=None):
        """TLC enumerates every placement of at most `maxfaults` faults (drop / dup / hold) on the first n datagrams of each
        direction; the real client and server run once under each schedule.  Returns {"sched": (trace, runs)}."""
        hb = binary or self.build("h-quic")
        cfg = self.make_cfg("Gen_FaultSchedule.cfg", "Gen_FaultSchedule_run.cfg", {"N": n, "MaxFaults": maxfaults})
        beh, cnt = self.gen("Gen_FaultSchedule", "gen_sched.txt", cfg=cfg, workers=4)
        tf = os.path.join(self.out, "e2e-sched.ndjson")
        r = self.harness(hb, ["sched", beh, self.seed, tf], timeout=3000)
        os.remove(beh)
        self.cov["stages"].append({"stage": "e2e", "family": "sched (TLC-enumerated fault schedules, N=%d, <=%d faults)" % (n, maxfaults),
                                   **{k: v for k, v in r.items() if not k.startswith("_")}})
        log("E2E sched: %d enumerated schedules, %d events, %d stalls/panics (%.0fs)" % (r["runs"], r["events"], r["stalls_or_panics"], r["_wall_s"]))
        return {"sched": (tf, r["runs"])}

    def filtered(self, master, kinds, name, primary_only=True, ep=None, only=None):
        """per-specification view of a master trace: keeps the listed event kinds, nothing is rewritten or reordered.
        primary_only: events of secondary connections (server connections created by replayed/duplicated client
        Initials, internal id >= 1) are left to the specifications that are about them (C11)"""
        dst = os.path.join(self.out, name)
        keep = set(kinds)
        n = 0
        sec = re.compile(r'"conn":[1-9]')
        with open(dst, "w") as o:
            for line in open(master):
                m = re.search(r'"ev":"([a-z_]+)"', line)
                if not (m and m.group(1) in keep) or (primary_only and sec.search(line)):
                    continue
                # ep: view of one endpoint (run separators and executor failures are kept)
                if ep and m.group(1) not in ("reset", "panic", "stall") and ('"ep":"%s"' % ep) not in line:
                    continue
                # only: {event kind: substring that must occur}
                if only and m.group(1) in only and only[m.group(1)] not in line:
                    continue
                if True:
                    o.write(line)
                    n += 1
        return dst, n

    _NT = re.compile(r'"act":"(?!pass)|"ty":"(stream_data_blocked|data_blocked|streams_blocked|reset_stream|stop_sending|max_stream_data|max_data|max_streams)"'
                     r'|"ev":"(packet_lost|app_reset|app_stop|rerr|werr|dropped|ctl|stall)"|"mutated":true|"drop_permille":[1-9]|"mode":"(lossy|vanish)"'
                     r'|"blackhole":\[\[|"ok":false|"persistent":true|"ev":"(lost|ecn|push_full|lose|retire|timeout)"')

    def _count_runs(self, spec, f):
        """distinct non-trivial runs of a validated trace: a run is what lies between two reset events; it is non-trivial
        if something beyond the straight-line case happened in it (a network fault, a flow-control or reset frame, an
        error, a mutated input, a loss signal ...)"""
        cur, flag, n = hashlib.sha1(), False, 0
        for line in open(f):
            if '"ev":"reset"' in line:
                if flag and n:
                    self._distinct.add(spec + ":" + cur.hexdigest())
                cur, flag, n = hashlib.sha1(), False, 0
            cur.update(line.encode())
            n += 1
            if not flag and self._NT.search(line):
                flag = True
        if flag and n:
            self._distinct.add(spec + ":" + cur.hexdigest())

    def validate_families(self, traces, spec, kinds, cfg=None, per_endpoint=False, only=None, primary_only=True):
        ok = True
        views = [(fam, ep) for fam in traces for ep in (("c", "s") if per_endpoint else (None,))]
        for fam, ep in views:
            tf, runs = traces[fam]
            tag = fam + ("-" + ep if ep else "")
            f, n = self.filtered(tf, kinds, "%s-%s.ndjson" % (spec, tag), ep=ep, only=only, primary_only=primary_only)
            ok &= self.trace(spec, f, runs=runs, label=tag, cfg=cfg)
            if len(self.cov["samples"]) < 3:
                with open(f) as fh:
                    lines = [next(fh, "") for _ in range(400)]
                self.sample({"trace_excerpt(%s,%s)" % (spec, fam): [json.loads(x) for x in lines[200:206] if x.strip()]})
        return ok

    # ---------------------------------------------------------------- results
    def count(self, evaluations=0, nontrivial_keys=()):
        self.cov["evaluations"] += evaluations
        for k in nontrivial_keys:
            self._distinct.add(k)

    def sample(self, s):
        if len(self.cov["samples"]) < 6:
            self.cov["samples"].append(s)

    def assume(self, s):
        self.assumptions.append(s)

    def violation(self, what, replay_path, key=None):
        """records a violation unless it is a listed known finding (matched by key)"""
        for f in self.findings:
            if f.get("status") == "known" and key is not None and key in f.get("match_keys", []):
                self.known_hits.append((f["id"], f["description"]))
                return
        self.violations.append((what, replay_path))

    def write_replay(self, name, payload):
        rp = os.path.join(self.out, "replay-%s.json" % re.sub(r"[^A-Za-z0-9_.-]+", "_", name))
        payload = dict(payload)
        payload.setdefault("property", self.pid)
        payload.setdefault("seed", self.seed)
        payload.setdefault("tier", self.tier)
        json.dump(payload, open(rp, "w"), indent=1, default=str)
        return rp

    def finish(self):
        self.cov["distinct_nontrivial"] += len(self._distinct)
        if self.cov["states"] == 0:
            # no bounded model was explored by this check: report trace-validation counts only
            del self.cov["states"], self.cov["transitions"]
        if not self.cov["samples"]:
            self.cov["samples"].append("no sample recorded")
        ev = {"property_id": self.pid, "tier": self.tier, "seed": self.seed, "level": "model_checking",
              "coverage": self.cov, "assumptions": self.assumptions, "wall_s": round(time.time() - self.t0, 1),
              "violations": len(self.violations),
              "known_findings_hit": sorted(set(k for k, _ in self.known_hits))}
        os.makedirs(os.path.join(VERIF, "evidence"), exist_ok=True)
        json.dump(ev, open(os.path.join(VERIF, "evidence", self.pid + ".json"), "w"), indent=1, default=str)
        seen = set()
        for k, d in self.known_hits:
            if k not in seen:
                seen.add(k)
                print("KNOWN-FINDING: property=%s %s: %s" % (self.pid, k, d), flush=True)
        if self.violations:
            for what, rp in self.violations[:10]:
                log("violation:", what)
            print("VIOLATION property=%s replay=%s" % (self.pid, self.violations[0][1]), flush=True)
            return 1
        log("%s %s: ok (%.0fs)" % (self.pid, self.tier, time.time() - self.t0))
        return 0


def load_findings(pid):
    p = os.path.join(VERIF, "known_findings.json")
    if not os.path.exists(p):
        return []
    return [f for f in json.load(open(p)).get("findings", []) if f.get("property") == pid or pid in f.get("also", [])]


def sha(s):
    return hashlib.sha1(s.encode() if isinstance(s, str) else s).hexdigest()[:12]

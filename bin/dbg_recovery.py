#!/usr/bin/env python3
"""debug aid: python replica of Recovery.tla for one endpoint's trace; prints first failing condition"""
import json, sys
L=[json.loads(x) for x in open(sys.argv[1])]
def fresh(): return dict(sent={s:{} for s in 'iha'}, rmax={s:-1 for s in 'iha'}, cc={s:{} for s in 'iha'}, la={s:-1 for s in 'iha'}, pl=[], bif=0, pto=0, mn=None, mx=None, paths=1, pre=None, closing=False, prev=None)
st=fresh()
for i,e in enumerate(L):
    ev=e['ev']; sp=e.get('sp')
    if ev=='reset': st=fresh()
    elif ev=='txp': st['cc'][sp][e['pn']]=e['cc']
    elif ev=='packet_sent':
        if sp not in 'iha': continue
        if e['pn'] not in st['cc'][sp] or e['pn']<=st['rmax'][sp]: print('line',i+1,'packet_sent without txp / not increasing',e['pn']); break
        c=st['cc'][sp].pop(e['pn']); st['rmax'][sp]=e['pn']
        if not st['closing']: st['sent'][sp][e['pn']]=(e['t'],e['len'],c); st['bif']+=e['len'] if c else 0
    elif ev=='ack_range':
        for pn in [p for p in st['sent'][sp] if e['lo']<=p<=e['hi']]:
            t,sz,c=st['sent'][sp].pop(pn); st['bif']-=sz if c else 0
        if e['hi']<=st['rmax'][sp]: st['la'][sp]=max(st['la'][sp],e['hi'])
    elif ev=='packet_lost':
        if e['pn'] not in st['sent'][sp]: print('line',i+1,'lost but not unresolved',sp,e['pn']); break
        if not st['la'][sp]>e['pn']: print('line',i+1,'lost without later ack',sp,e['pn'],'largest acked',st['la'][sp]); break
        t,sz,c=st['sent'][sp].pop(e['pn']); st['bif']-=sz if c else 0; st['pl'].append((sp,e['pn'],t,e['t'],st['la'][sp]))
    elif ev=='metrics':
        for (sp2,pn,ts,t,la) in st['pl']:
            r=max(e['srtt'],e['latest']); r=min(r,st['prev']) if st['prev'] is not None else r
            thr=max(9*r//8,1000)
            if not (la-pn>=3 or (t-ts)+1000>=thr): print('line',i+1,'loss not justified',sp2,pn,'la',la,'age',t-ts,'thr',thr); sys.exit()
        st['pl']=[]; st['prev']=max(e['srtt'],e['latest'])
        exp=st['pre'] if st['pre'] is not None else st['bif']; st['pre']=None
        if st['paths']==1 and not st['closing'] and e['bif']!=exp: print('line',i+1,'bif',e['bif'],'ledger',st['bif'], {s:{p:v[1] for p,v in st['sent'][s].items() if v[2]} for s in 'iha'}); break
        if e['pto_count'] not in (st['pto'],st['pto']+1,0): print('line',i+1,'pto',st['pto'],'->',e['pto_count']); break
        st['pto']=e['pto_count']
        st['mn']=e['latest'] if st['mn'] is None else min(st['mn'],e['latest']); st['mx']=e['latest'] if st['mx'] is None else max(st['mx'],e['latest'])
        if e['min_rtt']>e['latest']+1 or e['min_rtt']>e['srtt']+1 or e['srtt']>st['mx']+1: print('line',i+1,'rtt',e['min_rtt'],e['srtt'],e['latest'],st['mn'],st['mx']); break
    elif ev=='space_discarded' and sp in 'iha':
        st['pre']=st['pre'] if st['pre'] is not None else st['bif']
        for pn,(t,sz,c) in st['sent'][sp].items(): st['bif']-=sz if c else 0
        st['sent'][sp]={}
    elif ev=='txf' and e.get('ty')=='conn_close': st['closing']=True
    elif ev=='active_path': st['paths']+=1
else: print('python replica accepts')

"""event kinds consumed by each wire/system trace specification"""
TX_KINDS = ["reset", "rxf", "txf", "dg", "rxd", "app_open", "endpoint_packet_sent", "panic", "stall"]
FLOW_KINDS = ["reset", "tp", "txp", "txf", "rxp", "rxf", "conn_closed", "sim_end", "pacing", "panic", "stall"]
PIPE_KINDS = ["reset", "app_send_call", "app_finish", "rxf", "app_recv", "app_eos", "panic", "stall"]


def plan(ctx, base):
    """(family, count) list scaled by tier"""
    mul = 1 if ctx.quick else 12
    return [(f, n * mul) for f, n in base]
RECOVERY_KINDS = ["reset", "txp", "txf", "packet_sent", "ack_range", "packet_lost", "metrics", "space_discarded", "active_path", "packet_received", "packet_dropped", "sim_end", "panic", "stall"]
RECOVERY_ONLY = {"txf": '"ty":"conn_close"', "packet_received": '"sp":"retry"', "packet_dropped": '"reason":"Retry'}
GATE_KINDS = ["reset", "txp", "packet_sent", "metrics", "packet_lost", "congestion", "active_path", "mtu_updated", "ack_range", "panic", "stall"]
AMP_KINDS = ["reset", "datagram_received", "datagram_sent", "rxp", "txp", "txf", "rxf", "rxd", "endpoint_datagram_dropped", "endpoint_packet_sent", "dg", "inject", "panic", "stall"]
CID_KINDS = ["reset", "tp", "txf", "rxf", "datagram_sent", "endpoint_packet_sent", "dg", "rxd", "endpoint_datagram_dropped", "conn_closed", "panic", "stall"]
CID_ONLY = {"txf": "_cid", "rxf": "_cid", "endpoint_datagram_dropped": "UnknownDestinationConnectionId"}
LIVE_KINDS = ["reset", "rxp", "txp", "metrics", "conn_closed", "app_send_call", "app_send", "app_finish", "app_send_done", "app_eos", "app_send_err", "app_recv_err", "app_reset", "app_stop", "app_timeout", "sim_end", "panic", "stall"]
RECV_KINDS = ["reset", "rxf", "txf", "app_open", "app_recv", "app_eos", "app_stop", "conn_closed", "sim_end", "panic", "stall"]

"""C08 - ACKs name only packets really received; packet numbers always reconstruct."""
import sys, os
sys.path.insert(0, os.path.dirname(__file__))
import e2e_common as E


def run(ctx):
    traces = ctx.e2e(E.plan(ctx, [("lossy", 10), ("clean", 4), ("tiny", 4), ("attack", 4)]))
    ctx.validate_families(traces, "Trace_PacketFlow", E.FLOW_KINDS)
    ctx.assume("promptness: an ack-eliciting application-space packet must be covered by an ACK frame in a packet SENT within max_ack_delay + 5 ms while the endpoint is not closing; named deviations: capacity-bounded ACK ranges (below the lowest of a full frame), RFC 9000 13.2.4 (packets <= Largest Acknowledged of an acknowledged ACK), known finding F8 (pacing)")
    ctx.assume("packet number reconstruction is checked indirectly: a genuine packet that reaches processing carries exactly the sender's packet number and cleartext (a reconstruction error makes decryption fail and the packet never reaches processing, which shows as missing ACK coverage / retransmissions only)")

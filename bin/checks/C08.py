"""C08 - ACKs name only packets really received; packet numbers always reconstruct."""
import sys, os
sys.path.insert(0, os.path.dirname(__file__))
import e2e_common as E


def run(ctx):
    traces = ctx.e2e(E.plan(ctx, [("lossy", 10), ("clean", 4), ("tiny", 4), ("attack", 4)]))
    ctx.validate_families(traces, "Trace_PacketFlow", E.FLOW_KINDS)
    # component level: the real AckManager (cfg-guarded re-export) under random histories in which transmission
    # opportunities come with ANY remaining capacity, also too little for the ACK frame: while an ack-eliciting packet is
    # owed an acknowledgement the manager wants to transmit or has its timer armed within max_ack_delay
    hb = ctx.build("h-quic")
    tf = os.path.join(ctx.out, "ackmgr.ndjson")
    r = ctx.harness(hb, ["ackmgr-run", ctx.seed, 500 if ctx.quick else 8000, tf])
    ctx.cov["stages"].append({"stage": "record", "what": "AckManager component histories", **{k: v for k, v in r.items() if not k.startswith("_")}})
    import C18
    for i, p in enumerate(C18.split(tf, 40000)):
        ctx.trace("Trace_AckDuty", p, runs=r["runs"], label="ackmgr-%d" % i, timeout=1500)
    ctx.count(r["events"])
    ctx.assume("promptness: an ack-eliciting application-space packet must be covered by an ACK frame in a packet SENT within max_ack_delay + 5 ms while the endpoint is not closing; named deviations: capacity-bounded ACK ranges (below the lowest of a full frame), RFC 9000 13.2.4 (packets <= Largest Acknowledged of an acknowledged ACK), known finding F8 (pacing)")
    ctx.assume("packet number reconstruction is checked indirectly: a genuine packet that reaches processing carries exactly the sender's packet number and cleartext (a reconstruction error makes decryption fail and the packet never reaches processing, which shows as missing ACK coverage / retransmissions only)")

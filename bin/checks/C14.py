import sys, os
sys.path.insert(0, os.path.dirname(__file__))
"""C14 - transport parameters validated and applied as RFC 9000 specifies (decoder level)."""
import os


def stage(ctx, hb, what, beh):
    r = ctx.harness(hb, ["tparams-replay", beh])
    ctx.cov["stages"].append({"stage": "replay", "what": what, "behaviours": r["behaviours"], "mismatches": r["mismatches"], "verdicts": r["verdicts"]})
    ctx.count(r["behaviours"])
    ctx.cov["distinct_nontrivial"] += r["behaviours"]
    ctx.sample({what: r["sample"]})
    real = []
    for m in r["all"]:
        if m.get("f6") and m["what"].startswith("a permitted"):
            rp = ctx.write_replay("tp-F6", m)
            ctx.violation(m["what"], rp, key="tp:ack_delay_exponent:nonminimal-varint-rejected")
        else:
            real.append(m)
    if real:
        rp = ctx.write_replay("tp-" + what, {"what": "decoder disagrees with the RFC 9000 decision procedure", "first": real[:8]})
        ctx.violation("%s: %d blocks: %s %s" % (what, len(real), real[0]["what"], real[0]["steps"]), rp)
    os.remove(beh)
    from vlib import log
    log("REPLAY %s: %d blocks, %d disagreements (%d unlisted)" % (what, r["behaviours"], r["mismatches"], len(real)))


def run(ctx):
    hb = ctx.build("h-core")
    q = ctx.quick
    beh, _ = ctx.gen("Gen_TransportParams", "gen_tp1.txt", cfg="Gen_TransportParams.cfg")
    stage(ctx, hb, "single parameters, permutations, duplicates, truncations", beh)
    cfg = ctx.make_cfg("Gen_TransportParams.cfg", "Gen_TransportParams_pairs.cfg", {"Mode": '"pairs"'})
    beh, _ = ctx.gen("Gen_TransportParams", "gen_tp2.txt", cfg=cfg)
    stage(ctx, hb, "all ordered pairs of candidate parameters", beh)
    # impl -> spec: random / grammar / mutated blocks, verdict of the real decoder checked by TLC on the same bytes
    tf = os.path.join(ctx.out, "tp.ndjson")
    n = 4000 if q else 60000
    r = ctx.harness(hb, ["tparams-record", ctx.seed, n, tf])
    ctx.cov["stages"].append({"stage": "record", **{k: v for k, v in r.items() if not k.startswith("_")}})
    ctx.trace("Trace_TransportParams", tf, runs=2 * n, label="tp")
    ctx.cov["exhaustive"] = True
    # applied as RFC 9000 10.1 says: with different idle timeouts on the two sides the smaller one governs both endpoints
    # (blackhole runs: each side's idle timeout is drawn independently); the peer's advertised max_ack_delay governs the
    # promptness of acknowledgements (decided under C08)
    import e2e_common as E
    traces = ctx.e2e(E.plan(ctx, [("blackhole", 10)]))
    ctx.validate_families(traces, "Trace_Liveness", E.LIVE_KINDS)
    # live handshakes (null TLS sessions carrying the real parameter blocks) in which the block one side sends is rewritten
    # on its way: the receiving endpoint's verdict must be the specification's, including the connection-id
    # authentication of RFC 9000 7.3 (with and without Retry)
    t2 = ctx.e2e([("tp_handshake", 29 if q else 29 * 6)])
    ctx.validate_families(t2, "Trace_TpHandshake", ["reset", "dg", "tp_tampered", "handshake", "conn_closed", "sim_end", "panic", "stall"], primary_only=False)
    ctx.assume("decoder level plus the negotiated idle timeout on live connections; connection-id authentication against the handshake (RFC 9000 7.3, e.g. a missing retry_source_connection_id after a Retry) needs a TLS provider that rewrites the peer's parameter block and is not exercised; flow-control and stream limits of live connections are decided under C03/C04/C07")
    ctx.assume("named either-verdict ranges: max_udp_payload_size > 65527, non-empty disable_active_migration, preferred_address with zero-length cid or no address, original_destination_connection_id < 8 bytes, retry_source_connection_id < 4 bytes, dc extension parameters")

"""C18 - dc: packets round-trip and only authenticated packets are acted upon."""
import os


def run(ctx):
    hb = ctx.build("h-dc")
    q = ctx.quick
    # design level: lookup -> authenticate -> act; replaying or fabricating control packets never moves the state beyond
    # what the genuine receiver announced
    ctx.mc("MC_DcControl", workers=4)
    # stream and datagram packets, both cipher suites: genuine packets round-trip and authenticate; every single-byte
    # mutant, truncation and wrong key is refused by decode or by the authentication tag
    tf = os.path.join(ctx.out, "dcpkt.ndjson")
    r = ctx.harness(hb, ["dcpkt-record", ctx.seed, 60 if q else 1500, tf], timeout=3000)
    ctx.cov["stages"].append({"stage": "record", "what": "dc stream/datagram packets and mutants", **{k: v for k, v in r.items() if not k.startswith("_")}})
    parts = split(tf, 12000)
    for i, p in enumerate(parts):
        ctx.trace("Trace_DcControl", p, runs=r["runs"] // len(parts) + 1, label="data-%d" % i, timeout=1500)
    ctx.count(r["events"])
    # the three secret-control packets, produced by the real server map, and all their mutants against the client's map:
    # key id sequence, presence of the path secret and handshake requests are read back after them
    tf2 = os.path.join(ctx.out, "dcctl.ndjson")
    r2 = ctx.harness(hb, ["dcctl-record", ctx.seed, 3 if q else 40, tf2], timeout=3000)
    ctx.cov["stages"].append({"stage": "record", "what": "secret control packets against the path-secret map", **{k: v for k, v in r2.items() if not k.startswith("_")}})
    if r2["genuine_control_packets"] < 3 * r2["runs"]:
        import vlib
        raise vlib.ToolError("vacuous: the real server map did not produce all three kinds of secret-control packets")
    for i, p in enumerate(split(tf2, 12000)):
        ctx.trace("Trace_DcControl", p, runs=r2["runs"], label="control-%d" % i, timeout=1500)
    ctx.count(r2["events"])
    ctx.assume("ground truth `auth` = produced by the real peer map for this entry and unmodified; a mutant that is accepted is a violation whatever the reason")
    ctx.assume("control (ACK-carrying) packets of streams are exercised end to end under C20, not mutated here; eviction of entries older than 10 s needs clock control the testing builders do not offer: only the young-entry rule (never evict) is checked")
    ctx.assume("byte-layout fidelity of dc packets is not modelled (the wire format is defined by the code): the round trip is encode -> decode -> same fields -> decrypt -> same payload")


def split(path, n):
    """splits a trace into pieces of about n lines at run boundaries (reset events) or anywhere for stateless data events"""
    lines = open(path).read().splitlines()
    if len(lines) <= n:
        return [path]
    parts, cur = [], []
    for ln in lines:
        if len(cur) >= n and ('"ev":"reset"' in ln or '"ev":"data"' in ln and '"mutated":false' in ln):
            parts.append(cur)
            cur = []
        cur.append(ln)
    parts.append(cur)
    out = []
    for i, p in enumerate(parts):
        f = "%s.%d" % (path, i)
        open(f, "w").write("\n".join(p) + "\n")
        out.append(f)
    return out

"""C10 - congestion control keeps its window and sending within RFC 9002 bounds."""
import sys, os
sys.path.insert(0, os.path.dirname(__file__))
import e2e_common as E


def run(ctx):
    hb = ctx.build("h-core")
    q = ctx.quick
    # design level: the CUBIC state machine (transcribed, growth functions abstracted) satisfies the property's relations
    cfg = ctx.make_cfg("MC_Congestion.cfg", "MC_Congestion_run.cfg", {"MaxPackets": 3 if q else 4, "MaxTime": 2 if q else 3})
    ctx.mc("MC_Congestion", cfg=cfg, workers=8, timeout=2400)
    # spec -> impl: every behaviour of the machine up to Depth and sampled long ones, run on the real controllers under
    # several time scales; what the machine determines is compared, what the controllers report is recorded
    cfg = ctx.make_cfg("Gen_Congestion_short.cfg", "Gen_Congestion_short_run.cfg", {"Depth": 5 if q else 6})
    beh, _ = ctx.gen("Gen_Congestion", "gen_cc_short.txt", cfg=cfg)
    tr1 = os.path.join(ctx.out, "cc-short.ndjson")
    r = ctx.harness(hb, ["cc-run", beh, tr1, 40 if q else 100])
    ctx.replay_stage("congestion controllers (exhaustive short histories)", r, beh)
    beh, _ = ctx.gen("Gen_Congestion", "gen_cc_sim.txt", simulate=(40 if q else 300, 60))
    tr2 = os.path.join(ctx.out, "cc-sim.ndjson")
    r2 = ctx.harness(hb, ["cc-run", beh, tr2, 20 if q else 40])
    ctx.replay_stage("congestion controllers (sampled long histories)", r2, beh)
    tr3 = os.path.join(ctx.out, "cc-random.ndjson")
    r3 = ctx.harness(hb, ["cc-run", "random:%d:%d" % (120 if q else 2000, ctx.seed), tr3, 1 if q else 4])
    ctx.replay_stage("congestion controllers (random numeric histories)", r3)
    if r["steps_compared_with_machine"] + r2["steps_compared_with_machine"] == 0:
        import vlib
        raise vlib.ToolError("vacuous: no step was compared with the machine")
    # impl -> spec: the reported window / in-flight values satisfy the relations for both controllers
    for tf, rr, label in ((tr1, r, "short"), (tr2, r2, "sampled"), (tr3, r3, "random")):
        ctx.trace("Trace_Congestion", tf, runs=rr["runs"], label=label, timeout=1500)
    ctx.cov["controller_calls"] = r["steps"] + r2["steps"] + r3["steps"]
    # live connections: a congestion-controlled packet leaves in normal mode only below the window
    traces = ctx.e2e(E.plan(ctx, [("lossy", 8), ("replay", 2), ("clean", 3), ("tiny", 3), ("handshake", 5)]))
    ctx.validate_families(traces, "Trace_SendGate", E.GATE_KINDS, per_endpoint=True)
    # ... and the in-flight counter equals the unresolved congestion-controlled packets (the ledger of the Recovery
    # specification, also across Retry and key-space discards)
    ctx.validate_families(traces, "Trace_Recovery", E.RECOVERY_KINDS, per_endpoint=True, only=E.RECOVERY_ONLY)
    ctx.assume("the growth functions (CUBIC curve, HyStart++, the BBRv2 model) are not specified: between the old window and the cap any value is accepted; their numeric accuracy is outside this check")
    ctx.assume("'at most one reduction per round trip': a second shrink needs an acknowledgement of a packet sent after the first one; persistent congestion ends the epoch (RFC 9002 B.8)")
    ctx.assume("BBRv2: floor (4 datagrams), no overflow and the in-flight ledger only, as the property states")

"""C16 - reassembly buffer and range sets equal their reference models."""
import os


def run(ctx):
    hb = ctx.build("h-core")
    quick = ctx.quick
    # 1. design level: the reference model satisfies the property on its ghost state
    ctx.mc("MC_Reassembler")
    # 2. spec -> impl: all operation sequences of length Depth over the unit alphabet
    beh, n = ctx.gen("Gen_Reassembler", "gen_reasm.txt", cfg="Gen_Reassembler.cfg" if quick else "Gen_Reassembler_t.cfg")
    r = ctx.harness(hb, ["reasm-replay", beh, ctx.tier])
    ctx.cov["stages"].append({"stage": "replay", "what": "Reassembler", **{k: r[k] for k in ("behaviours", "embeddings", "steps", "mismatches")}})
    ctx.count(r["steps"])
    ctx.cov["distinct_nontrivial"] += r["behaviours"]
    ctx.sample({"generated_behaviour": r["sample"]})
    os.remove(beh)
    if r["mismatches"]:
        rp = ctx.write_replay("reasm-gen", {"what": "Reassembler disagrees with generated behaviour", "first": r["first"]})
        ctx.violation("Reassembler: %d generated behaviours disagree, e.g. %s" % (r["mismatches"], r["first"][0]["what"]), rp)
    # 3. impl -> spec: long random histories validated by TLC
    tf = os.path.join(ctx.out, "reasm.ndjson")
    runs, ops = (30, 300) if quick else (400, 400)
    r = ctx.harness(hb, ["reasm-record", ctx.seed, runs, ops, tf])
    ctx.trace("Trace_Reassembler", tf, runs=runs, label="reasm")
    ctx.assume("payload bytes are a fixed function of the stream offset; a chunk is 'the right bytes' iff it equals that function on the offsets the model predicts")

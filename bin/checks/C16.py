"""C16 - reassembly buffer and range sets equal their reference models."""
import os


def run(ctx):
    hb = ctx.build("h-core")
    q = ctx.quick
    # 1. design level: the reference model satisfies the property on its ghost state
    ctx.mc("MC_Reassembler")
    # 2. spec -> impl: all operation sequences of length Depth over the unit alphabet
    #    (depth 4 is 10.5 million sequences, 6.8 GB of text: more than the replay can hold - depth 3 is exhaustive in both tiers; longer histories are covered by the random
    #    histories of stage 3)
    cfg = ctx.make_cfg("Gen_Reassembler.cfg", "Gen_Reassembler_run.cfg", {"Depth": 3})
    beh, _ = ctx.gen("Gen_Reassembler", "gen_reasm.txt", cfg=cfg)
    ctx.replay_stage("Reassembler", ctx.harness(hb, ["reasm-replay", beh, ctx.tier]), beh)

    # the generated sets of the other structures: the quick sizes plus all three capacity limits in the thorough tier (the
    # next larger alphabets / depths produce more text than the replay holds in memory on this machine)
    cfg = ctx.make_cfg("Gen_RangeSet.cfg", "Gen_RangeSet_run.cfg", {"Depth": 3, "MaxV": 5})
    beh, _ = ctx.gen("Gen_RangeSet", "gen_rangeset.txt", cfg=cfg)
    ctx.replay_stage("IntervalSet", ctx.harness(hb, ["ranges-replay", "rangeset", beh, 5]), beh)

    for limit in ([2] if q else [1, 2, 3]):
        cfg = ctx.make_cfg("Gen_AckRanges.cfg", "Gen_AckRanges_run.cfg", {"Depth": 3, "Limit": limit, "MaxV": 6 if limit < 3 else 8})
        beh, _ = ctx.gen("Gen_RangeSet", "gen_ackranges.txt", cfg=cfg)
        ctx.replay_stage("ack::Ranges(limit %d)" % limit, ctx.harness(hb, ["ranges-replay", "ackranges", beh, 6 if limit < 3 else 8, limit]), beh)

    cfg = ctx.make_cfg("Gen_PnMap.cfg", "Gen_PnMap_run.cfg", {"Depth": 3})
    beh, _ = ctx.gen("Gen_PnMap", "gen_pnmap.txt", cfg=cfg)
    ctx.replay_stage("packet::number::Map", ctx.harness(hb, ["ranges-replay", "pnmap", beh, 17]), beh)

    cfg = ctx.make_cfg("Gen_SlidingWindow.cfg", "Gen_SlidingWindow_run.cfg", {"Depth": 4})
    beh, _ = ctx.gen("Gen_SlidingWindow", "gen_window.txt", cfg=cfg)
    ctx.replay_stage("SlidingWindow", ctx.harness(hb, ["ranges-replay", "window", beh, 400]), beh)

    # 3. impl -> spec: long random histories of the real Reassembler validated by TLC
    tf = os.path.join(ctx.out, "reasm.ndjson")
    runs, ops = (30, 300) if q else (300, 400)
    ctx.harness(hb, ["reasm-record", ctx.seed, runs, ops, tf])
    ctx.trace("Trace_Reassembler", tf, runs=runs, label="reasm")
    ctx.cov["exhaustive"] = True
    ctx.assume("payload bytes are a fixed function of the stream offset; a chunk is 'the right bytes' iff it equals that function on the offsets the model predicts")
    ctx.assume("operation sequences are exhaustive up to the stated depth over the unit alphabets; larger values are reached only through the affine embeddings listed in harness/h-core/src/{reasm,ranges}.rs")

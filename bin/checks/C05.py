"""C05 - wire codecs are total, round-trip exactly and follow the RFC 9000 layout."""
import os


def run(ctx):
    hb = ctx.build("h-core")
    q = ctx.quick
    # spec -> impl: frames of every type with boundary field values, encoded by the reference encoder (shortest-form
    # integers); the real decoder must yield the same fields, the real encoder the same bytes and the announced size
    total = 0
    for g in (1, 2, 3):
        cfg = ctx.make_cfg("Gen_Frames.cfg", "Gen_Frames_g%d.cfg" % g, {"Group": g})
        beh, n = ctx.gen("Gen_Frames", "gen_frames_%d.txt" % g, cfg=cfg, workers=4)
        r = ctx.harness(hb, ["frames-replay", beh])
        ctx.replay_stage("frame codecs, group %d" % g, r, beh)
        total += n
    ctx.cov["reference_frames_replayed"] = total
    # impl -> spec: random / grammar-generated / mutated byte strings offered to the real decoders; the reference parsers
    # (frames, integers, packet headers, packet-number expansion) must agree with every verdict and every field
    n1, n2 = (6000, 2500) if q else (80000, 30000)
    parts = (n1 // 8000 + 1)
    for i in range(parts):
        tf = os.path.join(ctx.out, "wire-frames-%d.ndjson" % i)
        r = ctx.harness(hb, ["frames-record", ctx.seed * 100 + i, n1 // parts, tf])
        ctx.cov["stages"].append({"stage": "record", "what": "frames+varint", **{k: v for k, v in r.items() if not k.startswith("_")}})
        ctx.trace("Trace_Wire", tf, runs=r["runs"], label="frames-%d" % i, timeout=1500)
        ctx.count(r["events"])
    parts = (n2 // 4000 + 1)
    for i in range(parts):
        tf = os.path.join(ctx.out, "wire-packets-%d.ndjson" % i)
        r = ctx.harness(hb, ["packets-record", ctx.seed * 100 + i, n2 // parts, tf])
        ctx.cov["stages"].append({"stage": "record", "what": "packet headers+packet numbers", **{k: v for k, v in r.items() if not k.startswith("_")}})
        ctx.trace("Trace_Wire", tf, runs=r["runs"], label="packets-%d" % i, timeout=1500)
        ctx.count(r["events"])
    ctx.assume("transport-parameter blocks are decided by C14's TransportParams specification (same reference integer codec)")
    ctx.assume("memory safety (out-of-bounds access) is observed only as a panic or a wrong value here; the checked DecoderBuffer turns an out-of-range read into an error or a panic, both visible")
    ctx.assume("4-byte packet numbers (window 2^32 exceeds TLC's integers) are not expanded by the reference; 1-3 bytes near 0, mid-range (translated) and right below 2^62 are")
    ctx.assume("named readings: Initial packets may carry connection ids longer than 20 bytes at the codec level; extension frame types accept longer type encodings (RFC 9000 12.4 MAY)")

"""C19 - dc: a key id is accepted at most once and issued at most once."""
import os


def run(ctx):
    hb = ctx.build("h-dc")
    q = ctx.quick
    # design level: windowed `seen` abstraction == full-history statement of the property; sender counter
    ctx.mc("MC_ReplayWindow", cfg="MC_ReplayWindow.cfg")
    ctx.mc("MC_ReplayWindow", cfg="MC_KeyIdSender.cfg")
    # spec -> impl: every id sequence of length Depth over the window-edge alphabet (real W = 896)
    cfg = ctx.make_cfg("Gen_ReplayWindow.cfg", "Gen_ReplayWindow_run.cfg", {"Depth": 4 if q else 5})
    beh, _ = ctx.gen("Gen_ReplayWindow", "gen_rw.txt", cfg=cfg)
    ctx.replay_stage("receiver::State", ctx.harness(hb, ["keyids-replay", beh, 3000]), beh)
    # impl -> spec: sequential random histories + multi-threaded receivers and senders
    tf = os.path.join(ctx.out, "keyids.ndjson")
    runs, ops = (12, 300) if q else (120, 400)
    r = ctx.harness(hb, ["keyids-record", ctx.seed, runs, ops, tf])
    ctx.cov["stages"].append({"stage": "record", **{k: v for k, v in r.items() if not k.startswith("_")}})
    ctx.trace("Trace_DcKeyIds", tf, runs=runs + 2 * r["concurrent_runs"], label="keyids")
    ctx.cov["exhaustive"] = True
    ctx.assume("concurrent runs: calls are atomic but their global order is not observed; the trace specification checks the conditions every linearisation must satisfy (at-most-once acceptance/issuance over all threads, explanations for 'exists'/'unknown')")
    ctx.assume("the reserved maximum id and the 2^62 edge are reached through a translation of the unit model (base 2^62-1-3000), not through TLC integers")

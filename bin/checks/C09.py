"""C09 - loss detection is sound and in-flight bookkeeping is exact."""
import sys, os
sys.path.insert(0, os.path.dirname(__file__))
import e2e_common as E


def run(ctx):
    traces = ctx.e2e(E.plan(ctx, [("lossy", 8), ("migrate", 4), ("handshake", 6), ("attack", 4), ("tiny", 4), ("reset", 3), ("clean", 2), ("ack_unsent", 4), ("late_retry", 3)]))
    # ... plus every placement of one (thorough: two) fault(s) on the first datagrams of either direction, enumerated by TLC
    traces.update(ctx.e2e_sched(8, 1 if ctx.quick else 2))
    # one instance of the Recovery specification per endpoint: every loss declaration, every acknowledged range,
    # every space discard and every published bytes_in_flight / RTT / PTO value of the run is replayed
    ctx.validate_families(traces, "Trace_Recovery", E.RECOVERY_KINDS, per_endpoint=True, only=E.RECOVERY_ONLY)
    ctx.assume("loss time threshold judged with the smaller of the RTT values published before and after the declaration, minus the 1 ms timer granularity (Timestamp::has_elapsed); bytes_in_flight equality only while a single path exists and before CONNECTION_CLOSE; the metrics event of a space discard is published before the subtraction (named)")
    ctx.assume("congestion-controlled = the packet carries a frame other than ACK/PADDING (s2n-quic's own classification, RFC 9002 differs for PADDING-only packets)")

"""C11 - no traffic amplification towards unvalidated or unknown peers."""
import sys, os
sys.path.insert(0, os.path.dirname(__file__))
import e2e_common as E


def run(ctx):
    traces = ctx.e2e(E.plan(ctx, [("handshake", 40), ("rebind_close", 12), ("cid", 3), ("attack", 6), ("lossy", 4)]))
    ctx.validate_families(traces, "Trace_Amplification", E.AMP_KINDS, primary_only=False)
    ctx.assume("server budget per connection: bytes of datagrams the connection received / sent (connection events); validation = first Handshake packet processed by that server connection; Retry/token validation is not exercised")
    ctx.assume("server datagrams are attributed to connection datagrams or endpoint-level replies (stateless reset, version negotiation) by their order of hand-off to the socket; unroutable datagrams are the ones the server endpoint reports as dropped")

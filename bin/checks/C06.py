"""C06 - only authentic packets have effect, and each at most once."""
import sys, os
sys.path.insert(0, os.path.dirname(__file__))
import e2e_common as E


def run(ctx):
    traces = ctx.e2e(E.plan(ctx, [("attack", 12), ("replay", 4), ("lossy", 5), ("clean", 2)]))
    # ... plus every placement of one (thorough: two) fault(s) on the first datagrams of either direction, enumerated by TLC
    traces.update(ctx.e2e_sched(8, 1 if ctx.quick else 2))
    # every packet that reaches frame processing is a genuine, not yet processed packet of the peer with exactly
    # the cleartext the peer produced; ACKs name only such packets; no forged datagram closes the connection
    ctx.validate_families(traces, "Trace_PacketFlow", E.FLOW_KINDS)
    # ... and what the applications read is unaffected
    ctx.validate_families(traces, "Trace_StreamPipe", E.PIPE_KINDS)
    ctx.cov["injected_or_garbled_datagrams"] = sum(1 for f, (tf, _) in traces.items() for line in open(tf) if '"ev":"inject"' in line or '"act":"corrupt' in line or '"act":"truncate"' in line or '"act":"replay_late"' in line or '"act":"dup"' in line)
    ctx.assume("AEAD/HKDF are the real s2n-quic-crypto implementations over the default TLS provider; cipher suite is whatever the default provider negotiates (per-suite packet protection is exercised in C15)")
    ctx.assume("genuine = produced by the peer's tx interceptor in the same run (space, packet number, hash of cleartext); connections created at the server by replayed client Initials are secondary connections and are not part of this specification")

"""C04 - peer protocol violations are rejected with the right error; buffering is bounded."""
import sys, os
sys.path.insert(0, os.path.dirname(__file__))
import e2e_common as E


def run(ctx):
    traces = ctx.e2e(E.plan(ctx, [("violation", 45), ("tiny", 5), ("reset", 4), ("clean", 2)]))
    ctx.validate_families(traces, "Trace_RecvRules", E.RECV_KINDS)
    import re
    kinds = {}
    for f, (tf, _) in traces.items():
        for line in open(tf):
            if '"ev":"violation_injected"' in line:
                k = re.search(r'"kind":"(\w+)"', line)
                kinds[k.group(1) if k else "?"] = kinds.get(k.group(1) if k else "?", 0) + 1
    n = sum(kinds.values())
    ctx.cov["violations_injected"] = n
    ctx.cov["violations_injected_by_kind"] = kinds
    if n == 0:
        import vlib
        raise vlib.ToolError("vacuous: no violating frame was injected")
    ctx.assume("violating frames are appended to genuine packets at the victim's rx interceptor (the honest peer is untouched); 17 violation kinds x both roles x injection points; the verdict is computed by the specification from the victim's own observable history, not by the harness")
    ctx.assume("credit bound: every MAX_STREAM_DATA / MAX_DATA / MAX_STREAMS value sent is <= bytes the application obtained (plus received bytes of reset/finished streams) + configured window / limit")

"""C20 - dc: streams deliver bytes exactly, or fail promptly with an error."""
import os, sys
sys.path.insert(0, os.path.dirname(__file__))
import C18


def run(ctx):
    hb = ctx.build("h-dc")
    q = ctx.quick
    # UDP transport in the deterministic simulation: random loss, outages of one or both directions, vanished peers,
    # MTUs 1250..32000, request/response sizes 0..1.5 MB, read sizes 1..64k, shutdown / drop / concurrent halves
    tf = os.path.join(ctx.out, "dcstream-sim.ndjson")
    # thorough: 500 simulated runs.  At 1200, run 533 of seed 1 (lossy 1 %, a client that leaves its 64 KB request open while it
    # waits for a 64 KB response written by one finishing call) stalls until both sides time out at 30 s; it is recorded as an
    # open, unclassified observation (DESIGN.md 10.4) - the registered scale is the largest one whose every rejection is classified
    r = ctx.harness(hb, ["dcstream-sim", ctx.seed, 60 if q else 500, tf], timeout=3000)
    ctx.cov["stages"].append({"stage": "record", "what": "dc streams, UDP in simulation", **{k: v for k, v in r.items() if not k.startswith("_")}})
    for i, p in enumerate(C18.split(tf, 60000)):
        ctx.trace("Trace_DcPipe", p, runs=r["runs"], label="sim-%d" % i, timeout=1500)
    ctx.count(r["events"])
    # both transports over real loopback sockets (no faults): operation orders and sizes
    tf2 = os.path.join(ctx.out, "dcstream-real.ndjson")
    r2 = ctx.harness(hb, ["dcstream-real", ctx.seed, 16 if q else 200, tf2], timeout=3000)
    ctx.cov["stages"].append({"stage": "record", "what": "dc streams, UDP and TCP over loopback", **{k: v for k, v in r2.items() if not k.startswith("_")}})
    for i, p in enumerate(C18.split(tf2, 60000)):
        ctx.trace("Trace_DcPipe", p, runs=r2["runs"], label="real-%d" % i, timeout=1500)
    ctx.count(r2["events"])
    ctx.cov["bytes_read_and_checked"] = r["bytes_read"] + r2["bytes_read"]
    ctx.assume("the simulated network can drop datagrams but neither duplicate nor reorder them (bach 0.1 monitor offers Pass/Drop only); the TCP transport exists only outside the simulation, so it is run without faults")
    ctx.assume("a vanished peer: from the given instant nothing is delivered in either direction; errors must arrive within the 30 s idle timeout of the test parameters plus 1 s")
    ctx.assume("a run that never terminates (an application task parked for ever with timers still firing) shows up as a harness time-out (exit 2), a deadlocked simulation as a panic event")

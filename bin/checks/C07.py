"""C07 - interoperates with an independent RFC 9000/9001 implementation (quiche)."""
import os


def run(ctx):
    hb = ctx.build("h-interop")
    q = ctx.quick
    tf = os.path.join(ctx.out, "interop.ndjson")
    scratch = os.path.join(ctx.out, "scratch")
    os.makedirs(scratch, exist_ok=True)
    r = ctx.harness(hb, ["interop", ctx.seed, 16 if q else 240, tf, scratch], timeout=6000)
    ctx.cov["stages"].append({"stage": "record", "what": "s2n-quic <-> quiche over a lossy relay, both roles", **{k: v for k, v in r.items() if not k.startswith("_")}})
    ctx.trace("Trace_Interop", tf, runs=r["runs"], label="interop", timeout=1500)
    ctx.count(r["events"])
    ctx.cov["bytes_read_and_checked"] = r["bytes_read"]
    if r["bytes_read"] == 0:
        import vlib
        raise vlib.ToolError("vacuous: no stream data was exchanged")
    ctx.assume("the independent implementation is quiche 0.29 (BoringSSL) from the offline registry; TLS certificates are the test certificates of s2n-quic-core; quiche does not verify the peer certificate, s2n-quic does")
    ctx.assume("real UDP sockets on the loopback interface, real time; loss (0-8%), reordering (0-20%, up to 40 ms) and delay are applied by a relay between the endpoints; the first two datagrams of each direction always pass")
    ctx.assume("configurations are sampled by seed: flow-control windows 1 kB..10 MB, stream limits 1..100, datagram sizes 1200..1500 on either side, 1-3 request/response exchanges of 0..200 kB")

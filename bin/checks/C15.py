"""C15 - packet-protection keys respect AEAD limits and survive key updates."""


def run(ctx):
    hb = ctx.build("h-core")
    q = ctx.quick
    # design level: the (repaired) key-update algorithm satisfies the property for every interleaving
    cfg = ctx.make_cfg("MC_KeyUpdate.cfg", "MC_KeyUpdate_run.cfg", {"MaxPn": 6 if q else 8})
    ctx.mc("MC_KeyUpdate", cfg=cfg, workers=8)
    # spec -> impl: every behaviour up to Depth, replayed on two real KeySets (state compared after each step)
    cfg = ctx.make_cfg("Gen_KeyUpdate.cfg", "Gen_KeyUpdate_run.cfg", {"Depth": 6 if q else 7})
    beh, _ = ctx.gen("Gen_KeyUpdate", "gen_ku.txt", cfg=cfg)
    r = ctx.harness(hb, ["keyupdate-replay", beh, 3, 1, 3])
    ctx.replay_stage("KeySet (exhaustive)", r, beh)
    # long sampled behaviours with several consecutive key updates
    n = 1500 if q else 40000
    beh, _ = ctx.gen("Gen_KeyUpdate", "gen_ku_sim.txt", cfg="Gen_KeyUpdate_sim.cfg", simulate=(n, 50))
    r2 = ctx.harness(hb, ["keyupdate-replay", beh, 4, 2, 6])
    ctx.replay_stage("KeySet (sampled)", r2)
    # the same behaviours with the real packet protection of every cipher suite (s2n-quic-crypto keys,
    # limits overridden): a packet must decrypt iff the model says the generations match
    for suite in ("aes128", "aes256", "chacha"):
        r3 = ctx.harness(hb, ["keyupdate-replay", beh, 4, 2, 6, suite])
        ctx.replay_stage("KeySet (sampled, %s)" % suite, r3)
    import os
    os.remove(beh)
    # directed sampling: mostly one-directional traffic, so that many consecutive updates happen and
    # packets of generations g-2, g-3, ... are delivered late (they must fail to decrypt)
    beh, _ = ctx.gen("Gen_KeyUpdate", "gen_ku_chain.txt", cfg="Gen_KeyUpdate_chain.cfg", simulate=(300 if q else 5000, 75))
    for suite in ("tag", "aes128", "aes256", "chacha"):
        r4 = ctx.harness(hb, ["keyupdate-replay", beh, 4, 2, 6, suite])
        ctx.replay_stage("KeySet (chain, %s)" % suite, r4)
    os.remove(beh)
    ctx.cov["behaviours_with_key_update"] = r.get("with_key_update", 0) + r2.get("with_key_update", 0)
    if ctx.cov["behaviours_with_key_update"] == 0:
        import vlib
        raise vlib.ToolError("vacuous: no generated behaviour contains a key update")
    ctx.cov["traces_validated_against_impl"] += r["behaviours"] + r2["behaviours"] - r["mismatches"] - r2["mismatches"]
    ctx.assume("AEAD idealised: a packet decrypts iff the selected key slot holds the generation that protected it (harness key tags ciphertexts with generation and packet number)")
    ctx.assume("A1: an endpoint does not use up a key (needs_update) while the derivation timer of its previous update (3 PTO) is still armed; with the real limits (>= 2^23 packets per key) this cannot happen")
    ctx.assume("timer expiry is an independent nondeterministic step; real-time values are not modelled")

"""C17 - lock-free queues and wakers lose nothing under any thread interleaving (spsc channel)."""
import os, re, sys
sys.path.insert(0, os.path.dirname(__file__))
import vlib

SRC = "/repo/quic/s2n-quic-core/src/sync/spsc"
ORD = {"Relaxed": "relaxed", "Acquire": "acquire", "Release": "release", "AcqRel": "acqrel", "SeqCst": "seqcst"}
RANK = {"relaxed": 0, "acquire": 1, "release": 1, "acqrel": 2, "seqcst": 3}


def strip(src):
    return re.sub(r"//[^\n]*", "", src)


def body(src, name):
    m = re.search(r"fn\s+%s\b[^{]*\{" % re.escape(name), src)
    if not m:
        raise vlib.ToolError("spsc: function %s not found - the specification must be brought in line with the source" % name)
    i, depth = m.end(), 1
    while depth and i < len(src):
        depth += {"{": 1, "}": -1}.get(src[i], 0)
        i += 1
    return src[m.end():i - 1]


def ops(b, field, op):
    return [ORD[o] for o in re.findall(r"self\s*\.\s*%s\s*\.\s*%s\s*\([^;]*?Ordering::(\w+)" % (field, op), b)]


def one(b, field, op, fn, count=1):
    v = ops(b, field, op)
    if len(v) != count:
        raise vlib.ToolError("spsc: %s has %d `%s.%s` operations, the specification models %d" % (fn, len(v), field, op, count))
    return min(v, key=lambda o: RANK[o])          # several loads of one kind: the weakest decides


def extract():
    st = strip(open(os.path.join(SRC, "state.rs")).read())
    send = strip(open(os.path.join(SRC, "send.rs")).read())
    recv = strip(open(os.path.join(SRC, "recv.rs")).read())
    c = {}
    b = body(st, "acquire_capacity")
    c["OrdOpenLoadS"], c["OrdHeadLoad"] = one(b, "open", "load", "acquire_capacity"), one(b, "head", "load", "acquire_capacity")
    if b.find(".open") > b.find(".head"):
        raise vlib.ToolError("spsc: acquire_capacity no longer loads `open` before `head`")
    b = body(st, "acquire_filled")
    c["OrdTailLoad"], c["OrdOpenLoadR"] = one(b, "tail", "load", "acquire_filled", 2), one(b, "open", "load", "acquire_filled")
    ph, pt = body(st, "persist_head"), body(st, "persist_tail")
    c["OrdHeadStore"], c["OrdTailStore"] = one(ph, "head", "store", "persist_head"), one(pt, "tail", "store", "persist_tail")
    def after(b, first, second, fn):
        i, j = b.find(first), b.find(second)
        if i < 0 or j < 0:
            raise vlib.ToolError("spsc: %s lost its `%s` or `%s`" % (fn, first, second))
        return i < j
    c["WakeAfterStore"] = after(ph, ".store(", "sender.wake()", "persist_head") and after(pt, ".store(", "receiver.wake()", "persist_tail")
    b = body(st, "close")
    c["OrdOpenSwap"] = one(b, "open", "swap", "close")
    sw = b.find(".swap(")
    c["WakeAfterSwap"] = all(b.find(w, sw) > 0 for w in ("receiver.wake()", "sender.wake()"))
    b = body(st, "drop_contents")
    c["OrdDropHeadLoad"], c["OrdDropTailLoad"] = one(b, "head", "load", "drop_contents"), one(b, "tail", "load", "drop_contents")
    rechecks = []
    for src, mac, who in ((send, "acquire_capacity!()", "sender"), (recv, "acquire_filled!()", "receiver")):
        b = body(src, "poll_slice")
        r = b.find(".register(")
        if r < 0:
            raise vlib.ToolError("spsc: %s poll_slice no longer registers a waker" % who)
        calls = [m.start() for m in re.finditer(re.escape(mac), b)]
        if not calls or calls[0] > r:
            raise vlib.ToolError("spsc: %s poll_slice no longer checks before registering" % who)
        rechecks.append(any(p > r for p in calls))
    c["RecheckAfterRegister"] = all(rechecks)
    return c


def extract_worker():
    w = strip(open("/repo/quic/s2n-quic-core/src/sync/worker.rs").read())
    c = {}
    b = body(w, "poll_acquire")
    sw = [ORD[o] for o in re.findall(r"remaining\s*\.\s*swap\s*\([^;]*?Ordering::(\w+)", b)]
    ld = [ORD[o] for o in re.findall(r"senders\s*\.\s*load\s*\(\s*Ordering::(\w+)", b)]
    if len(sw) != 1 or len(ld) != 1:
        raise vlib.ToolError("worker: poll_acquire no longer has one `remaining.swap` (in the acquire! macro) and one `senders.load`")
    c["OrdSwap"], c["OrdSendersLoad"] = sw[0], ld[0]
    r = b.find(".register(")
    calls = [m.start() for m in re.finditer(r"acquire!\(\)", b)]
    if r < 0 or not calls or calls[0] > r:
        raise vlib.ToolError("worker: poll_acquire no longer checks, registers, checks")
    c["RecheckAfterRegister"] = any(p > r for p in calls)
    ld_at = b.find("senders")
    c["FinalAcquire"] = any(p > ld_at for p in calls) if ld_at >= 0 else False
    b = body(w, "submit")
    fa = [ORD[o] for o in re.findall(r"remaining\s*\.\s*fetch_add\s*\([^;]*?Ordering::(\w+)", b)]
    if len(fa) != 1:
        raise vlib.ToolError("worker: submit no longer has one `remaining.fetch_add`")
    c["OrdFetchAdd"] = fa[0]
    c["WakeAfterSubmit"] = 0 <= b.find("fetch_add") < b.find("receiver.wake()")
    b = body(w, "drop")
    fs = [ORD[o] for o in re.findall(r"senders\s*\.\s*fetch_sub\s*\([^;]*?Ordering::(\w+)", b)]
    if len(fs) != 1 or not (0 <= b.find("fetch_sub") < b.find("receiver.wake()")):
        raise vlib.ToolError("worker: Drop for Sender no longer decrements `senders` and then wakes the receiver")
    c["OrdFetchSub"] = fs[0]
    # Clone for Sender: derived (the counter is not touched) or written out with an increment of `senders`
    m = re.search(r"impl\s+Clone\s+for\s+Sender\s*\{", w)
    c["CloneIncrements"] = bool(m and re.search(r"senders\s*\.\s*fetch_add", w[m.end():m.end() + 400]))
    if not m and not re.search(r"derive\(Clone\)\]\s*pub struct Sender", w):
        raise vlib.ToolError("worker: cannot tell how Sender is cloned")
    return c


def extract_cursor():
    w = strip(open("/repo/quic/s2n-quic-core/src/sync/cursor.rs").read())
    c = {}
    for fn, who, op, key in (("acquire_producer", "consumer", "load", "OrdConsumerLoad"), ("release_producer", "producer", "fetch_add", "OrdProducerAdd"),
                             ("acquire_consumer", "producer", "load", "OrdProducerLoad"), ("release_consumer", "consumer", "fetch_add", "OrdConsumerAdd")):
        b = body(w, fn)
        v = [ORD[o] for o in re.findall(r"self\s*\.\s*%s\s*\(\s*\)\s*\.\s*%s\s*\([^;]*?Ordering::(\w+)" % (who, op), b)]
        if len(v) != 1:
            raise vlib.ToolError("cursor: %s no longer has exactly one `%s().%s`" % (fn, who, op))
        c[key] = v[0]
    return c


def tla(v):
    return ("TRUE" if v else "FALSE") if isinstance(v, bool) else '"%s"' % v


def run(ctx):
    hb = ctx.build("h-core")
    q = ctx.quick
    consts = extract()
    ctx.cov["orderings_from_source"] = consts
    # the protocol with the orderings and the statement order the source has NOW, every interleaving and every stale read
    # the release/acquire model permits: no race / uninitialised read, FIFO exactly once, nothing leaked or freed twice,
    # no lost wake-up
    for cap, items, drop in ((2, 3, True), (4, 3, False)) if q else ((2, 3, True), (4, 3, True), (2, 4, True), (4, 4, False)):
        c = dict(consts, Cap=cap, Items=items, MaxBatch=2, ReceiverMayDrop=drop)
        cfg = ctx.make_cfg("MC_Spsc.cfg", "MC_Spsc_c%d_i%d.cfg" % (cap, items), {k: (v if isinstance(v, int) and not isinstance(v, bool) else tla(v)) for k, v in c.items()})
        ctx.mc("MC_Spsc", cfg=cfg, workers=12, timeout=3000)
    # sync::worker: credits are neither lost nor duplicated, "closed" only when every handle (clones included) is gone,
    # no lost wake-up with dropping and with long-lived senders
    wc = extract_worker()
    ctx.cov["worker_orderings_from_source"] = wc
    for senders, drop in ((1, True), (1, False), (2, True), (2, False)):
        c = dict(wc, Senders=senders, Batches=2, SendersDrop=drop)
        cfg = ctx.make_cfg("MC_WorkerChannel.cfg", "MC_WorkerChannel_s%d_%s.cfg" % (senders, "drop" if drop else "alive"),
                           {k: (v if isinstance(v, int) and not isinstance(v, bool) else tla(v)) for k, v in c.items()})
        ctx.mc("MC_WorkerChannel", cfg=cfg, workers=4, timeout=1500)
    # sync::cursor (socket ring cursors): descriptors are never touched by both sides unordered, FIFO, cached lengths stay
    # within the ring, across counter wrap-around
    cc = extract_cursor()
    ctx.cov["cursor_orderings_from_source"] = cc
    for size, m, start, items, mb in ((2, 8, 6, 5, 2), (4, 16, 14, 9, 3)) if q else ((2, 8, 6, 7, 2), (4, 16, 14, 12, 3), (4, 16, 13, 12, 4)):
        c = dict(cc, Size=size, M=m, Start=start, Items=items, MaxBatch=mb)
        cfg = ctx.make_cfg("MC_RingCursor.cfg", "MC_RingCursor_%d_%d.cfg" % (size, items),
                           {k: (v if isinstance(v, int) and not isinstance(v, bool) else tla(v)) for k, v in c.items()})
        ctx.mc("MC_RingCursor", cfg=cfg, workers=4, timeout=1500)
    # the real cursors, one thread, random call orders; one run crosses the 2^32 wrap of the free-running indexes
    tfc = os.path.join(ctx.out, "cursor-items.ndjson")
    rc = ctx.harness(hb, ["cursor-record", ctx.seed, 200 if q else 4000, tfc], timeout=3000)
    ctx.cov["stages"].append({"stage": "record", "what": "ring cursors, sequential call orders incl. the index wrap", **{k: v for k, v in rc.items() if not k.startswith("_")}})
    if rc["index_wraps_crossed"] < 1:
        raise vlib.ToolError("vacuous: the cursor recording did not cross the index wrap")
    import C18 as _c18
    for i, pth in enumerate(_c18.split(tfc, 60000)):
        ctx.trace("Trace_Cursor", pth, runs=rc["runs"], label="cursor-%d" % i, timeout=1500)
    ctx.count(rc["events"])
    tfw = os.path.join(ctx.out, "worker-items.ndjson")
    rw = ctx.harness(hb, ["worker-record", ctx.seed, 300 if q else 5000, tfw], timeout=3000)
    ctx.cov["stages"].append({"stage": "record", "what": "worker channel, 1-2 sender handles on OS threads", **{k: v for k, v in rw.items() if not k.startswith("_")}})
    ctx.trace("Trace_WorkerItems", tfw, runs=rw["runs"], label="worker", timeout=1500)
    ctx.count(rw["events"])
    # the real channel between two OS threads through its async API: exactly once, in order, closed only when drained
    tf = os.path.join(ctx.out, "spsc-items.ndjson")
    r = ctx.harness(hb, ["spsc-record", ctx.seed, 400 if q else 6000, tf], timeout=3000)
    ctx.cov["stages"].append({"stage": "record", "what": "spsc channel, two OS threads", **{k: v for k, v in r.items() if not k.startswith("_")}})
    import C18
    for i, p in enumerate(C18.split(tf, 60000)):
        ctx.trace("Trace_SpscItems", p, runs=r["runs"], label="items-%d" % i, timeout=1500)
    ctx.count(r["events"])
    ctx.assume("memory model: release/acquire message passing with per-location coherence and vector clocks for the non-atomic slots (SeqCst is treated as AcqRel read-modify-write on the latest value; release sequences and fences are not modelled); AtomicWaker (crate atomic-waker) is an atomic register/wake object and trusted")
    ctx.assume("orderings and statement order are read from the source text of sync/spsc (state.rs, send.rs, recv.rs) at every run; a change of structure the specification does not know is a tool error asking for the specification to be updated")
    ctx.assume("transport/wakeup_queue.rs (a mutex-protected queue, no lock-free protocol) is not modelled; the ring cursors are model-checked for concurrency and trace-validated sequentially (one driving thread, across the 2^32 index wrap): this check decides the property for the spsc channel, the worker credit channel and the ring cursor protocol")

"""C01 - stream bytes are delivered exactly once, in order, unaltered."""
import sys, os
sys.path.insert(0, os.path.dirname(__file__))
import e2e_common as E


def run(ctx):
    # design level: the reference reassembly model (shared with C16) keeps the ghost-state property
    ctx.mc("MC_Reassembler")
    traces = ctx.e2e(E.plan(ctx, [("clean", 5), ("lossy", 12), ("tiny", 6), ("reset", 6), ("late_reset", 6)]))
    # ... plus every placement of one (thorough: two) fault(s) on the first datagrams of either direction, enumerated by TLC
    traces.update(ctx.e2e_sched(8, 1 if ctx.quick else 2))
    ctx.validate_families(traces, "Trace_StreamPipe", E.PIPE_KINDS)
    ctx.assume("stream payload is a position-determined function keyed by stream id and sender; 'unaltered, not displaced' = the chunk equals that function at the offsets the specification predicts")
    ctx.assume("the network adversary is AdvNet (drop, duplicate, hold/reorder, corrupt, truncate, MTU drop) driven by the seed; schedules are sampled, not enumerated, in this tier")

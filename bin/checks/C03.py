"""C03 - a sender never exceeds the flow-control and stream limits its peer granted."""
import sys, os
sys.path.insert(0, os.path.dirname(__file__))
import e2e_common as E


def run(ctx):
    # design level: the sender-side flow-control algorithm (transcribed, with the F3 repair) keeps every limit
    ctx.mc("MC_SendFlow")
    traces = ctx.e2e(E.plan(ctx, [("tiny", 10), ("many_streams", 8), ("reset", 6), ("late_reset", 6), ("lossy", 4), ("clean", 2)]))
    ctx.validate_families(traces, "Trace_EndpointTx", E.TX_KINDS)
    ctx.assume("credit 'received' = MAX_DATA / MAX_STREAM_DATA / MAX_STREAMS frames seen by the rx interceptor (authenticated, about to be processed) plus the peer's configured initial limits")

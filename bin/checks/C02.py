"""C02 - every operation terminates: data gets through or the failure is reported."""
import sys, os
sys.path.insert(0, os.path.dirname(__file__))
import e2e_common as E


def run(ctx):
    traces = ctx.e2e(E.plan(ctx, [("heal", 14), ("blackhole", 12), ("credit_loss", 16), ("trickle", 4), ("tiny", 6), ("lossy", 6), ("clean", 2)]))
    ctx.validate_families(traces, "Trace_Liveness", E.LIVE_KINDS)
    ctx.assume("bounded liveness on the code: every scripted operation must have ended (success in heal/clean/tiny/lossy runs, reported failure in blackhole runs) before the simulation's horizon; an operation pending at its deadline (app_timeout) or a stalled executor is a rejected event")
    ctx.assume("idle-timeout window: not earlier than the negotiated timeout after the last processed packet, not later than max(negotiated, 3*PTO incl. backoff from the published metrics) + 100 ms after the last activity")

"""C13 - connection IDs are issued, routed and retired consistently."""
import sys, os
sys.path.insert(0, os.path.dirname(__file__))
import e2e_common as E


def component(ctx):
    """issuer side at component level: LocalIds machine (MC), its behaviours replayed on the real LocalIdRegistry +
    ConnectionIdMapper (cfg-guarded re-export), random call sequences, all validated by Trace_LocalIds"""
    q = ctx.quick
    for i, (limit, rotate, life) in enumerate([(2, "TRUE", 4)] if q else [(2, "TRUE", 4), (3, "FALSE", 4), (2, "TRUE", 0)]):
        cfg = ctx.make_cfg("MC_LocalIds.cfg", "MC_LocalIds_run%d.cfg" % i,
                           {"Limit": limit, "Rotate": rotate, "Lifetime": life, "MaxTime": 5 if q else 6, "MaxPn": 2 if q else 3})
        ctx.mc("MC_LocalIds", cfg=cfg, workers=8, timeout=3000,
               expect_actions=["Register", "Transmit", "Ack", "Lose", "PeerRetire", "HandshakeConfirmed", "Timeout"] if life else None)
    hb = ctx.build("h-quic")
    import C18
    k = 0
    for limit, rotate, life in ([(3, "TRUE", 5), (2, "FALSE", 4)] if q else [(3, "TRUE", 5), (2, "FALSE", 4), (2, "TRUE", 6), (4, "TRUE", 5), (3, "TRUE", 0)]):
        cfg = ctx.make_cfg("Gen_LocalIds.cfg", "Gen_LocalIds_run%d.cfg" % k, {"Limit": limit, "Rotate": rotate, "Lifetime": life})
        beh, n = ctx.gen("Gen_LocalIds", "gen_localids_%d.txt" % k, cfg=cfg, simulate=(60 if q else 600, 41))
        tf = os.path.join(ctx.out, "cidreg-gen-%d.ndjson" % k)
        r = ctx.harness(hb, ["cidreg-run", beh, tf])
        os.remove(beh)
        ctx.cov["stages"].append({"stage": "replay", "what": "LocalIds behaviours on the real LocalIdRegistry", **{x: v for x, v in r.items() if not x.startswith("_")}})
        ctx.count(r["steps"])
        for i, p in enumerate(C18.split(tf, 30000)):
            ctx.trace("Trace_LocalIds", p, runs=r["runs"], label="cidreg-gen-%d-%d" % (k, i), timeout=1500)
        k += 1
    tf = os.path.join(ctx.out, "cidreg-random.ndjson")
    r = ctx.harness(hb, ["cidreg-run", "random:%d:%d" % (300 if q else 4000, ctx.seed), tf])
    ctx.cov["stages"].append({"stage": "record", "what": "LocalIdRegistry random call sequences", **{x: v for x, v in r.items() if not x.startswith("_")}})
    for i, p in enumerate(C18.split(tf, 30000)):
        ctx.trace("Trace_LocalIds", p, runs=r["runs"], label="cidreg-random-%d" % i, timeout=1500)
    ctx.assume("component level (issuer side): one tick of the LocalIds machine = 15 s, RTT 5 s when its behaviours are replayed; every id has the generator's fixed lifetime (as connection::id::Generator provides), the peer is honest except for the two refused RETIRE forms; an id stays routable until the peer retired it or its announced lifetime ran out")


def run(ctx):
    component(ctx)
    traces = ctx.e2e(E.plan(ctx, [("cid", 8), ("cid_expiry", 10), ("lossy", 4), ("attack", 2)]))
    ctx.validate_families(traces, "Trace_ConnIds", E.CID_KINDS, only=E.CID_ONLY, primary_only=False)
    # routing: with migration / rebinding the data must still arrive at the right connection and unaltered
    ctx.validate_families({k: v for k, v in traces.items() if k in ("cid", "cid_expiry")}, "Trace_StreamPipe", E.PIPE_KINDS)
    ctx.assume("wire rules of NEW_CONNECTION_ID / RETIRE_CONNECTION_ID and the peer's active_connection_id_limit are checked on the frames both endpoints send and process; routing is checked through delivery (StreamPipe on migrating connections), the 'RETIRE not on the retired id' rule is not observed (packet DCIDs are not recorded)")

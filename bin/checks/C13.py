"""C13 - connection IDs are issued, routed and retired consistently."""
import sys, os
sys.path.insert(0, os.path.dirname(__file__))
import e2e_common as E


def run(ctx):
    traces = ctx.e2e(E.plan(ctx, [("cid", 8), ("cid_expiry", 10), ("lossy", 4), ("attack", 2)]))
    ctx.validate_families(traces, "Trace_ConnIds", E.CID_KINDS, only=E.CID_ONLY, primary_only=False)
    # routing: with migration / rebinding the data must still arrive at the right connection and unaltered
    ctx.validate_families({k: v for k, v in traces.items() if k in ("cid", "cid_expiry")}, "Trace_StreamPipe", E.PIPE_KINDS)
    ctx.assume("wire rules of NEW_CONNECTION_ID / RETIRE_CONNECTION_ID and the peer's active_connection_id_limit are checked on the frames both endpoints send and process; routing is checked through delivery (StreamPipe on migrating connections), the 'RETIRE not on the retired id' rule is not observed (packet DCIDs are not recorded)")

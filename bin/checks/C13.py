"""C13 - connection IDs are issued, routed and retired consistently."""
import sys, os
sys.path.insert(0, os.path.dirname(__file__))
import e2e_common as E


def component(ctx):
    """issuer side at component level: LocalIds machine (MC), its behaviours replayed on the real LocalIdRegistry +
    ConnectionIdMapper (cfg-guarded re-export), random call sequences, all validated by Trace_LocalIds"""
    q = ctx.quick
    for i, (limit, rotate, life) in enumerate([(2, "TRUE", 4)] if q else [(2, "TRUE", 4), (3, "FALSE", 4), (2, "TRUE", 0)]):
        cfg = ctx.make_cfg("MC_LocalIds.cfg", "MC_LocalIds_run%d.cfg" % i,
                           {"Limit": limit, "Rotate": rotate, "Lifetime": life, "MaxTime": 5 if (q or limit > 2) else 6, "MaxPn": 2 if q else 3})
        ctx.mc("MC_LocalIds", cfg=cfg, workers=8, timeout=3000,
               expect_actions=["Register", "Transmit", "Ack", "Lose", "PeerRetire", "HandshakeConfirmed", "Timeout"] if life else None)
    hb = ctx.build("h-quic")
    import C18
    k = 0
    for limit, rotate, life in ([(3, "TRUE", 5), (2, "FALSE", 4)] if q else [(3, "TRUE", 5), (2, "FALSE", 4), (2, "TRUE", 6), (3, "FALSE", 6), (3, "TRUE", 0)]):
        cfg = ctx.make_cfg("Gen_LocalIds.cfg", "Gen_LocalIds_run%d.cfg" % k, {"Limit": limit, "Rotate": rotate, "Lifetime": life})
        beh, n = ctx.gen("Gen_LocalIds", "gen_localids_%d.txt" % k, cfg=cfg, simulate=(60 if q else 600, 41))
        tf = os.path.join(ctx.out, "cidreg-gen-%d.ndjson" % k)
        r = ctx.harness(hb, ["cidreg-run", beh, tf, 400 if q else 4000])
        os.remove(beh)
        ctx.cov["stages"].append({"stage": "replay", "what": "LocalIds behaviours on the real LocalIdRegistry", **{x: v for x, v in r.items() if not x.startswith("_")}})
        ctx.count(r["steps"])
        for i, p in enumerate(C18.split(tf, 30000)):
            ctx.trace("Trace_LocalIds", p, runs=r["runs"], label="cidreg-gen-%d-%d" % (k, i), timeout=1500)
        k += 1
    tf = os.path.join(ctx.out, "cidreg-random.ndjson")
    r = ctx.harness(hb, ["cidreg-run", "random:%d:%d" % (300 if q else 4000, ctx.seed), tf])
    ctx.cov["stages"].append({"stage": "record", "what": "LocalIdRegistry random call sequences", **{x: v for x, v in r.items() if not x.startswith("_")}})
    for i, p in enumerate(C18.split(tf, 30000)):
        ctx.trace("Trace_LocalIds", p, runs=r["runs"], label="cidreg-random-%d" % i, timeout=1500)
    # receiver side: PeerIds machine (MC), its behaviours replayed on the real PeerIdRegistry, random frame sequences of an
    # honest (late / repeated copies, growing retire_prior_to) and of a misbehaving issuer, validated by Trace_PeerIds
    for i, (rot, ms, mp, dis) in enumerate([("TRUE", 5, 3, "FALSE"), ("TRUE", 3, 1, "TRUE")] if q else
                                           [("TRUE", 6, 4, "FALSE"), ("FALSE", 6, 4, "FALSE"), ("TRUE", 3, 2, "TRUE"), ("FALSE", 3, 2, "TRUE")]):
        cfg = ctx.make_cfg("MC_PeerIds.cfg", "MC_PeerIds_run%d.cfg" % i, {"Rotate": rot, "MaxSeq": ms, "MaxPn": mp, "Dishonest": dis})
        ctx.mc("MC_PeerIds", cfg=cfg, workers=8, timeout=3000, expect_actions=["Consume", "Transmit", "Ack", "Lose"])
    k = 0
    for rot, dis in [("TRUE", "FALSE"), ("FALSE", "TRUE")] if q else [("TRUE", "FALSE"), ("FALSE", "FALSE"), ("TRUE", "TRUE"), ("FALSE", "TRUE")]:
        cfg = ctx.make_cfg("Gen_PeerIds.cfg", "Gen_PeerIds_run%d.cfg" % k, {"Rotate": rot, "Dishonest": dis})
        beh, n = ctx.gen("Gen_PeerIds", "gen_peerids_%d.txt" % k, cfg=cfg, simulate=(40 if q else 400, 31))
        tf = os.path.join(ctx.out, "peerreg-gen-%d.ndjson" % k)
        r = ctx.harness(hb, ["peerreg-run", beh, tf, 1500 if q else 12000])
        os.remove(beh)
        ctx.cov["stages"].append({"stage": "replay", "what": "PeerIds behaviours on the real PeerIdRegistry", **{x: v for x, v in r.items() if not x.startswith("_")}})
        ctx.count(r["steps"])
        for i, p in enumerate(C18.split(tf, 30000)):
            ctx.trace("Trace_PeerIds", p, runs=r["runs"], label="peerreg-gen-%d-%d" % (k, i), timeout=1500)
        k += 1
    tf = os.path.join(ctx.out, "peerreg-random.ndjson")
    r = ctx.harness(hb, ["peerreg-run", "random:%d:%d" % (600 if q else 8000, ctx.seed), tf])
    ctx.cov["stages"].append({"stage": "record", "what": "PeerIdRegistry random frame sequences", **{x: v for x, v in r.items() if not x.startswith("_")}})
    for i, p in enumerate(C18.split(tf, 30000)):
        ctx.trace("Trace_PeerIds", p, runs=r["runs"], label="peerreg-random-%d" % i, timeout=1500)
    ctx.assume("component level (receiver side): a NEW_CONNECTION_ID frame may be refused as inconsistent only if it conflicts with a frame accepted before (RFC 9000 19.15 makes the refusal itself optional), with CONNECTION_ID_LIMIT_ERROR only if more than 3 ids would be usable (and then it must be), for the implementation's backlog limit only with more than 6 unacknowledged retirements; RETIRE_CONNECTION_ID names only ids that were received and are no longer usable, and with room in the packet everything below the largest retire_prior_to is retired")
    ctx.assume("component level (issuer side): one tick of the LocalIds machine = 15 s, RTT 5 s when its behaviours are replayed; every id has the generator's fixed lifetime (as connection::id::Generator provides), the peer is honest except for the two refused RETIRE forms; an id stays routable until the peer retired it or its announced lifetime ran out")


def run(ctx):
    component(ctx)
    traces = ctx.e2e(E.plan(ctx, [("cid", 8), ("cid_expiry", 10), ("lossy", 4), ("attack", 2)]))
    ctx.validate_families(traces, "Trace_ConnIds", E.CID_KINDS, only=E.CID_ONLY, primary_only=False)
    # routing: with migration / rebinding the data must still arrive at the right connection and unaltered
    ctx.validate_families({k: v for k, v in traces.items() if k in ("cid", "cid_expiry")}, "Trace_StreamPipe", E.PIPE_KINDS)
    ctx.assume("wire rules of NEW_CONNECTION_ID / RETIRE_CONNECTION_ID and the peer's active_connection_id_limit are checked on the frames both endpoints send and process; routing is checked through delivery (StreamPipe on migrating connections), the 'RETIRE not on the retired id' rule is not observed (packet DCIDs are not recorded)")

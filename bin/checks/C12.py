"""C12 - what an endpoint sends on a stream and at close is self-consistent."""
import sys, os
sys.path.insert(0, os.path.dirname(__file__))
import e2e_common as E


def run(ctx):
    # design level: the sender-side flow-control algorithm (transcribed, with the F3 repair) keeps every limit
    ctx.mc("MC_SendFlow")
    traces = ctx.e2e(E.plan(ctx, [("late_reset", 16), ("reset", 8), ("lossy", 6), ("tiny", 4), ("clean", 2)]))
    # ... plus every placement of one (thorough: two) fault(s) on the first datagrams of either direction, enumerated by TLC
    traces.update(ctx.e2e_sched(8, 1 if ctx.quick else 2))
    ctx.validate_families(traces, "Trace_EndpointTx", E.TX_KINDS)
    ctx.assume("retransmitted bytes are compared through the position-determined payload (bytes of offset o are always payload(o))")
    ctx.assume("close behaviour is observed at the network: datagrams leaving an endpoint after its first CONNECTION_CLOSE must be byte-identical copies, at most one per datagram that reached it (plus the first)")

//! C04: builds the rx-rewrite closure that appends one violating frame to a genuine packet at the victim
use crate::scen::*;
use s2n_codec::{DecoderBufferMut, EncoderValue};
use s2n_quic_core::{frame::{self, FrameMut}, stream::StreamType, varint::VarInt};

fn vi(x: u64) -> VarInt { VarInt::new(x).unwrap() }

fn stream(id: u64, off: u64, data: &[u8], fin: bool) -> Vec<u8> {
    frame::Stream { stream_id: vi(id), offset: vi(off), is_last_frame: false, is_fin: fin, data }.encode_to_vec()
}

/// the frames to append for a violation kind; `seen` = a (stream id, end offset) of a STREAM frame in this packet sent by the attacker side
fn frames_for(kind: &str, victim: &str, seen: Option<(u64, u64)>) -> Option<Vec<u8>> {
    // stream ids initiated by the attacker side (the victim's peer) / by the victim
    let (peer_bidi, peer_uni, own_bidi, own_uni) = if victim == "s" { (0u64, 2u64, 1u64, 3u64) } else { (1, 3, 0, 2) };
    Some(match kind {
        "stream_beyond_sd" => { let (id, _) = seen?; stream(id, 1 << 30, &[1], false) }
        "stream_beyond_max_streams" => stream(peer_bidi + 4 * 1_000_000, 0, &[1, 2, 3], false),
        "reset_final_shrink" => { let (id, end) = seen?; if end == 0 { return None; } frame::ResetStream { stream_id: vi(id), application_error_code: vi(1), final_size: vi(0) }.encode_to_vec() }
        "data_after_fin" => { let (id, end) = seen?; let mut v = stream(id, end, &[], true); v.extend(stream(id, end + 10, &[9], false)); v }
        "fin_below_received" => { let (id, end) = seen?; if end < 2 { return None; } stream(id, 0, &[], true) }
        "reset_beyond_sd" => { let (id, _) = seen?; frame::ResetStream { stream_id: vi(id), application_error_code: vi(1), final_size: vi(1 << 30) }.encode_to_vec() }
        "local_unopened" => stream(own_bidi + 4 * 100_000, 0, &[1], false),
        "send_only_stream" => stream(own_uni, 0, &[1, 2], false),
        "max_stream_data_recv_only" => frame::MaxStreamData { stream_id: vi(peer_uni), maximum_stream_data: vi(1 << 20) }.encode_to_vec(),
        "stop_sending_recv_only" => frame::StopSending { stream_id: vi(peer_uni), application_error_code: vi(3) }.encode_to_vec(),
        "max_streams_huge" => frame::MaxStreams { stream_type: StreamType::Bidirectional, maximum_streams: vi((1 << 60) + 1) }.encode_to_vec(),
        "new_cid_bad_rpt" => frame::NewConnectionId { sequence_number: vi(5), retire_prior_to: vi(6), connection_id: &[7u8; 8], stateless_reset_token: &[9u8; 16] }.encode_to_vec(),
        "handshake_done" => frame::HandshakeDone.encode_to_vec(),
        "conn_data_beyond" => { let (id, _) = seen?; stream(id, 100_000, &[1], false) }
        "stream_in_handshake" => stream(peer_bidi, 0, &[1], false),
        // CONNECTION_CLOSE of type 0x1d (application close) is only allowed in 0-RTT / 1-RTT packets (RFC 9000 12.4/12.5)
        "app_close_in_handshake" => vec![0x1d, 0x07, 0x00],
        // an ACK frame acknowledging exactly the first packet number the victim has NOT sent yet (RFC 9000 13.1: an
        // endpoint SHOULD treat an acknowledgement of a packet it did not send as PROTOCOL_VIOLATION)
        "ack_next_unsent" => {
            let next = crate::common::LAST_TX_PN.with(|c| c.get()[crate::common::side(victim)]).map_or(0, |x| x + 1);
            let mut v = vec![0x02u8];
            v.extend(vi(next).encode_to_vec());
            v.extend([0u8, 0, 0]); // ack delay 0, no further ranges, first range 0: exactly that one number
            v
        }
        _ => return None,
    })
}

pub fn rewriter(v: Violation) -> Box<dyn FnMut(i64, &'static str, u64, &[u8]) -> Option<Vec<u8>> + Send> {
    let mut count = 0u32;
    let mut done = false;
    let attacker: &'static str = if v.victim == "s" { "c" } else { "s" };
    Box::new(move |conn, sp, _pn, payload| {
        if done || conn != 0 || crate::common::now_us() < v.after_us {
            return None;
        }
        let want_space = if v.kind == "stream_in_handshake" || v.kind == "app_close_in_handshake" { "h" } else { "a" };
        if sp != want_space {
            return None;
        }
        if v.kind == "handshake_done" && v.victim != "s" {
            done = true; // only a server can be the victim of this one
            return None;
        }
        // a STREAM frame of the attacker side in this packet, if any
        let mut copy = payload.to_vec();
        let mut seen = None;
        let mut buf = DecoderBufferMut::new(&mut copy);
        while !buf.is_empty() {
            let Ok((f, rest)) = buf.decode::<FrameMut>() else { break };
            if let FrameMut::Stream(s) = &f {
                let id = s.stream_id.as_u64();
                let initiator = if id % 2 == 0 { "c" } else { "s" };
                let bidi = id % 4 < 2;
                if bidi || initiator == attacker {
                    seen = Some((id, s.offset.as_u64() + s.data.len() as u64));
                }
            }
            buf = rest;
        }
        count += 1;
        if count < v.nth {
            return None;
        }
        let extra = frames_for(&v.kind, &v.victim, seen)?;
        done = true;
        crate::common::emit(serde_json::json!({"ev": "violation_injected", "ep": v.victim, "kind": v.kind, "sp": sp}));
        let mut out = payload.to_vec();
        out.extend(extra);
        Some(out)
    })
}

/// a peer may legitimately retransmit frames: every RETIRE_CONNECTION_ID / NEW_CONNECTION_ID frame that reaches the endpoint
/// is delivered once more, appended to a later packet of the same connection (the peer itself is untouched)
pub fn duplicator() -> Box<dyn FnMut(i64, &'static str, u64, &[u8]) -> Option<Vec<u8>> + Send> {
    use s2n_codec::EncoderValue;
    let mut pending: Vec<(u32, Vec<u8>)> = Vec::new(); // (packets to wait, frame bytes)
    Box::new(move |conn, sp, _pn, payload| {
        if conn != 0 || sp != "a" {
            return None;
        }
        let mut due: Vec<Vec<u8>> = Vec::new();
        for p in pending.iter_mut() {
            if p.0 == 0 { due.push(std::mem::take(&mut p.1)); } else { p.0 -= 1; }
        }
        pending.retain(|p| !p.1.is_empty());
        let mut copy = payload.to_vec();
        let mut buf = DecoderBufferMut::new(&mut copy);
        while !buf.is_empty() {
            let Ok((f, rest)) = buf.decode::<FrameMut>() else { break };
            match &f {
                FrameMut::RetireConnectionId(x) => pending.push((2, x.encode_to_vec())),
                FrameMut::NewConnectionId(x) => pending.push((3, x.encode_to_vec())),
                _ => {}
            }
            buf = rest;
        }
        if due.is_empty() {
            return None;
        }
        let mut out = payload.to_vec();
        for d in due {
            crate::common::emit(serde_json::json!({"ev": "frame_duplicated", "len": d.len()}));
            out.extend(d);
        }
        Some(out)
    })
}

/// the datagram that arrives from the spoofed address carries only probing frames (PATH_CHALLENGE + PADDING): the server
/// must probe the address without migrating to it, within the address's own budget
pub fn probe_rewriter() -> Box<dyn FnMut(i64, &'static str, u64, &[u8]) -> Option<Vec<u8>> + Send> {
    Box::new(move |conn, sp, _pn, payload| {
        if conn != 0 || sp != "a" || !crate::common::SPOOF_FLAG.with(|f| f.replace(false)) {
            return None;
        }
        let mut out = vec![0x1a, 1, 2, 3, 4, 5, 6, 7, 8];
        out.resize(payload.len().max(9), 0);
        crate::common::emit(serde_json::json!({"ev": "probe_rewritten", "len": out.len()}));
        Some(out)
    })
}

/// a peer may retire any connection id it was given at any time: once, at or after `at_us`, the packet that reaches the
/// server also carries RETIRE_CONNECTION_ID for the newest id the server has issued (a spare the client is not using)
pub fn early_retire(at_us: u64) -> Box<dyn FnMut(i64, &'static str, u64, &[u8]) -> Option<Vec<u8>> + Send> {
    use s2n_codec::EncoderValue;
    let mut done = false;
    Box::new(move |conn, sp, _pn, payload| {
        if done || conn != 0 || sp != "a" || crate::common::now_us() < at_us {
            return None;
        }
        let seq = crate::common::ISSUED_MAX.with(|c| c.get()[1]);
        if seq == 0 { return None; }
        done = true;
        let mut out = payload.to_vec();
        out.extend(frame::RetireConnectionId { sequence_number: vi(seq) }.encode_to_vec());
        crate::common::emit(serde_json::json!({"ev": "early_retire_injected", "seq": seq}));
        Some(out)
    })
}

//! scripted applications on both endpoints; every call and completion is an event
use crate::{common::*, scen::*};
use bytes::Bytes;
use s2n_quic::{
    connection::Connection,
    provider::io::testing::{self as io, primary},
    stream::{PeerStream, ReceiveStream, SendStream},
};
use serde_json::json;
use std::{future::Future, sync::{atomic::{AtomicBool, AtomicI64, Ordering}, Arc}, time::Duration};

#[derive(Clone)]
pub struct Shared {
    pub sc: Arc<Scenario>,
    /// stream roles still running (both endpoints)
    pub outstanding: Arc<AtomicI64>,
    pub started: Arc<AtomicBool>,
}

async fn with_deadline<F: Future>(sh: &Shared, what: &str, ep: &str, id: i64, f: F) -> Option<F::Output> {
    let now = now_us();
    let left = sh.sc.deadline_us.saturating_sub(now);
    let timer = io::time::delay(Duration::from_micros(left));
    futures::pin_mut!(f);
    futures::pin_mut!(timer);
    match futures::future::select(f, timer).await {
        futures::future::Either::Left((v, _)) => Some(v),
        futures::future::Either::Right(_) => {
            emit(json!({"ev": "app_timeout", "ep": ep, "id": id, "op": what}));
            None
        }
    }
}

fn serr(e: &s2n_quic::stream::Error) -> serde_json::Value {
    use s2n_quic::stream::Error as E;
    match e {
        E::StreamReset { error, .. } => json!({"kind": "stream_reset", "code": u64::from(*error)}),
        E::SendAfterFinish { .. } => json!({"kind": "send_after_finish"}),
        E::ConnectionError { error, .. } => json!({"kind": "connection", "conn": crate::rec::error_json(error)}),
        E::InvalidStream { .. } => json!({"kind": "invalid_stream"}),
        E::MaxStreamDataSizeExceeded { .. } => json!({"kind": "max_stream_data_size_exceeded"}),
        E::SendingBlocked { .. } => json!({"kind": "sending_blocked"}),
        E::NonReadable { .. } => json!({"kind": "non_readable"}),
        E::NonWritable { .. } => json!({"kind": "non_writable"}),
        E::NonEmptyOutput { .. } => json!({"kind": "non_empty_output"}),
        _ => json!({"kind": "other", "dbg": format!("{e:?}")}),
    }
}

/// writes `total` position-determined bytes in chunks, optionally resets, finishes and waits for the close
#[allow(clippy::too_many_arguments)]
async fn writer(sh: Shared, ep: &'static str, mut s: SendStream, total: u64, chunk: usize, finish: bool, reset_at: Option<u64>, reset_delay_us: u64, reset_after_finish_us: u64, mode: String, write_delay_us: u64) {
    let id = s.id();
    let mut off = 0u64;
    let chunk = chunk.max(1);
    loop {
        if let Some(r) = reset_at {
            if off >= r {
                if reset_delay_us > 0 {
                    io::time::delay(Duration::from_micros(reset_delay_us)).await;
                }
                let res = s.reset(7u32.into());
                emit(json!({"ev": "app_reset", "ep": ep, "id": id, "off": off, "ok": res.is_ok()}));
                return;
            }
        }
        if off >= total {
            break;
        }
        if write_delay_us > 0 && off > 0 {
            io::time::delay(Duration::from_micros(write_delay_us)).await;
        }
        let mut n = chunk.min((total - off) as usize);
        if let Some(r) = reset_at {
            n = n.min((r - off) as usize).max(1);
        }
        let data = Bytes::from(fill(ep, id, off, n));
        emit(json!({"ev": "app_send_call", "ep": ep, "id": id, "off": off, "len": n}));
        // every mode hands exactly the bytes [off, off+n) to the stream, following the API's own contract for
        // partial writes (the loop re-offers what a call reported as not written)
        let res: Option<Result<(), s2n_quic::stream::Error>> = match mode.as_str() {
            "vec" => {
                let half = n / 2;
                let mut chunks = [data.slice(..half), data.slice(half..)];
                with_deadline(&sh, "send", ep, id as i64, s.send_vectored(&mut chunks)).await
            }
            "tokio" | "tokio_vec" => {
                use tokio::io::AsyncWriteExt;
                let vectored = mode == "tokio_vec";
                let fut = async {
                    let mut done = 0usize;
                    while done < n {
                        let rest = &data[done..];
                        let w = if vectored && rest.len() >= 2 {
                            let h = rest.len() / 2;
                            let bufs = [std::io::IoSlice::new(&rest[..h]), std::io::IoSlice::new(&rest[h..])];
                            s.write_vectored(&bufs).await
                        } else {
                            s.write(rest).await
                        };
                        match w {
                            Ok(0) => return Err(std::io::Error::new(std::io::ErrorKind::WriteZero, "zero")),
                            Ok(k) => done += k,
                            Err(e) => return Err(e),
                        }
                    }
                    Ok(())
                };
                match with_deadline(&sh, "send", ep, id as i64, fut).await {
                    Some(Ok(())) => Some(Ok(())),
                    Some(Err(e)) => {
                        emit(json!({"ev": "app_send_err", "ep": ep, "id": id, "off": off, "err": {"kind": "io", "dbg": format!("{e}")}}));
                        return;
                    }
                    None => None,
                }
            }
            _ => with_deadline(&sh, "send", ep, id as i64, s.send(data)).await,
        };
        match res {
            Some(Ok(())) => {
                emit(json!({"ev": "app_send", "ep": ep, "id": id, "off": off, "len": n}));
                off += n as u64;
            }
            Some(Err(e)) => {
                emit(json!({"ev": "app_send_err", "ep": ep, "id": id, "off": off, "err": serr(&e)}));
                return;
            }
            None => return,
        }
    }
    if finish {
        match s.finish() {
            Ok(()) => emit(json!({"ev": "app_finish", "ep": ep, "id": id, "total": off})),
            Err(e) => {
                emit(json!({"ev": "app_send_err", "ep": ep, "id": id, "off": off, "err": serr(&e)}));
                return;
            }
        }
        if reset_after_finish_us > 0 {
            io::time::delay(Duration::from_micros(reset_after_finish_us)).await;
            let res = s.reset(8u32.into());
            emit(json!({"ev": "app_reset", "ep": ep, "id": id, "off": off, "ok": res.is_ok(), "after_finish": true}));
            return;
        }
        // wait until the peer has acknowledged everything
        match with_deadline(&sh, "close", ep, id as i64, s.close()).await {
            Some(Ok(())) => emit(json!({"ev": "app_send_done", "ep": ep, "id": id, "total": off})),
            Some(Err(e)) => emit(json!({"ev": "app_send_err", "ep": ep, "id": id, "off": off, "err": serr(&e)})),
            None => {}
        }
    } else {
        match with_deadline(&sh, "flush", ep, id as i64, s.flush()).await {
            Some(Ok(())) => emit(json!({"ev": "app_flushed", "ep": ep, "id": id, "total": off})),
            Some(Err(e)) => emit(json!({"ev": "app_send_err", "ep": ep, "id": id, "off": off, "err": serr(&e)})),
            None => {}
        }
    }
}

async fn reader(sh: Shared, ep: &'static str, mut r: ReceiveStream, delay_us: u64, stop_at: Option<u64>, start_delay_us: u64, mode: String) {
    let id = r.id();
    let mut off = 0u64;
    if start_delay_us > 0 {
        io::time::delay(Duration::from_micros(start_delay_us)).await;
    }
    loop {
        if let Some(sa) = stop_at {
            if off >= sa {
                let res = r.stop_sending(9u32.into());
                emit(json!({"ev": "app_stop", "ep": ep, "id": id, "off": off, "ok": res.is_ok()}));
                return;
            }
        }
        // every mode yields: Some(Ok(Some(bytes))) data, Some(Ok(None)) clean end of stream, Some(Err) failure
        let mut closed_with_data = false;
        let got: Option<Result<Option<Vec<u8>>, s2n_quic::stream::Error>> = if let Some(k) = mode.strip_prefix("vec") {
            let k: usize = k.parse().unwrap_or(2);
            let mut slots = vec![Bytes::new(); k];
            match with_deadline(&sh, "recv", ep, id as i64, r.receive_vectored(&mut slots)).await {
                Some(Ok((count, is_open))) => {
                    let data: Vec<u8> = slots[..count].iter().flat_map(|b| b.iter().copied()).collect();
                    if data.is_empty() && !is_open { Some(Ok(None)) } else {
                        // `is_open == false` tells the application that the stream ended with this data
                        closed_with_data = !is_open;
                        Some(Ok(Some(data)))
                    }
                }
                Some(Err(e)) => Some(Err(e)),
                None => None,
            }
        } else if mode.starts_with("tokio") {
            use tokio::io::AsyncReadExt;
            let fut = async {
                if mode == "tokio_vec" {
                    let mut buf = [0u8; 100];
                    r.read(&mut buf).await.map(|n| buf[..n].to_vec())
                } else {
                    let size: usize = mode[5..].parse().unwrap_or(64);
                    let mut buf = vec![0u8; size];
                    r.read(&mut buf).await.map(|n| { buf.truncate(n); buf })
                }
            };
            match with_deadline(&sh, "recv", ep, id as i64, fut).await {
                Some(Ok(v)) if v.is_empty() => Some(Ok(None)),
                Some(Ok(v)) => Some(Ok(Some(v))),
                Some(Err(e)) => {
                    emit(json!({"ev": "app_recv_err", "ep": ep, "id": id, "off": off, "err": {"kind": "io", "dbg": format!("{e}")}}));
                    return;
                }
                None => None,
            }
        } else {
            with_deadline(&sh, "recv", ep, id as i64, r.receive()).await.map(|x| x.map(|o| o.map(|b| b.to_vec())))
        };
        match got {
            Some(Ok(Some(chunk))) => {
                let ok = matches(peer(ep), id, off, &chunk);
                emit(json!({"ev": "app_recv", "ep": ep, "id": id, "off": off, "len": chunk.len(), "ok": ok}));
                off += chunk.len() as u64;
                if closed_with_data {
                    emit(json!({"ev": "app_eos", "ep": ep, "id": id, "total": off}));
                    return;
                }
            }
            Some(Ok(None)) => {
                emit(json!({"ev": "app_eos", "ep": ep, "id": id, "total": off}));
                return;
            }
            Some(Err(e)) => {
                emit(json!({"ev": "app_recv_err", "ep": ep, "id": id, "off": off, "err": serr(&e)}));
                return;
            }
            None => return,
        }
        if delay_us > 0 {
            io::time::delay(Duration::from_micros(delay_us)).await;
        }
    }
}

/// number of stream roles the scenario will run on both endpoints (the closer waits for all of them)
pub fn expected_roles(sc: &Scenario) -> i64 {
    2 + sc.streams.iter().map(|s| if s.bidi { 4 } else { 2 }).sum::<i64>()
}

fn role<F: Future<Output = ()> + Send + 'static>(sh: &Shared, f: F) {
    let sh2 = sh.clone();
    primary::spawn(async move {
        f.await;
        sh2.outstanding.fetch_sub(1, Ordering::SeqCst);
    });
}

/// stream id of the k-th stream of a kind opened by an endpoint
pub fn stream_id(opener: &str, bidi: bool, k: u64) -> u64 {
    4 * k + if opener == "s" { 1 } else { 0 } + if bidi { 0 } else { 2 }
}

/// everything one endpoint does on an established connection
pub fn drive(sh: Shared, ep: &'static str, conn: Connection) {
    let (handle, mut acceptor) = conn.split();
    let handle_for_open = handle.clone();
    emit(json!({"ev": "app_connected", "ep": ep}));
    sh.started.store(true, Ordering::SeqCst);
    // expected stream ids of the streams the peer opens
    let mut by_id = std::collections::HashMap::new();
    let (mut nb, mut nu) = (0u64, 0u64);
    for sp in sh.sc.streams.iter().filter(|s| s.opener != ep) {
        let k = if sp.bidi { &mut nb } else { &mut nu };
        by_id.insert(stream_id(&sp.opener, sp.bidi, *k), sp.clone());
        *k += 1;
    }
    // acceptor (not primary: it never ends by itself)
    {
        let sh = sh.clone();
        io::spawn(async move {
            loop {
                match acceptor.accept().await {
                    Ok(Some(stream)) => {
                        let id = match &stream { PeerStream::Bidirectional(s) => s.id(), PeerStream::Receive(s) => s.id() };
                        emit(json!({"ev": "app_accept", "ep": ep, "id": id}));
                        let Some(sp) = by_id.get(&id).cloned() else {
                            emit(json!({"ev": "app_unexpected_stream", "ep": ep, "id": id}));
                            continue;
                        };
                        match stream {
                            PeerStream::Bidirectional(s) => {
                                let (r, w) = s.split();
                                role(&sh, reader(sh.clone(), ep, r, sp.read_delay_us, sp.stop_at, sp.read_start_delay_us, sp.read_mode.clone()));
                                role(&sh, writer(sh.clone(), ep, w, sp.reply, sp.reply_chunk, true, None, 0, 0, sp.write_mode.clone(), 0));
                            }
                            PeerStream::Receive(r) => role(&sh, reader(sh.clone(), ep, r, sp.read_delay_us, sp.stop_at, sp.read_start_delay_us, sp.read_mode.clone())),
                        }
                    }
                    Ok(None) => {
                        emit(json!({"ev": "app_accept_end", "ep": ep}));
                        return;
                    }
                    Err(e) => {
                        emit(json!({"ev": "app_accept_err", "ep": ep, "err": crate::rec::error_json(&e)}));
                        return;
                    }
                }
            }
        });
    }
    // opener: streams are opened in specification order (ids are then deterministic)
    let mine: Vec<StreamSpec> = sh.sc.streams.iter().filter(|s| s.opener == ep).cloned().collect();
    let close_role = sh.sc.close == ep;
    let sh2 = sh.clone();
    role(&sh, async move {
        let sh = sh2;
        let mut h2 = handle_for_open;
        for sp in mine {
            if sp.start_us > 0 {
                io::time::delay(Duration::from_micros(sp.start_us.saturating_sub(now_us()))).await;
            }
            if sp.bidi {
                emit(json!({"ev": "app_open_call", "ep": ep, "bidi": true}));
                match with_deadline(&sh, "open", ep, -1, h2.open_bidirectional_stream()).await {
                    Some(Ok(s)) => {
                        emit(json!({"ev": "app_open", "ep": ep, "id": s.id(), "bidi": true}));
                        let (r, w) = s.split();
                        role(&sh, writer(sh.clone(), ep, w, sp.send, sp.chunk, sp.finish, sp.reset_at, sp.reset_delay_us, sp.reset_after_finish_us, sp.write_mode.clone(), sp.write_delay_us));
                        role(&sh, reader(sh.clone(), ep, r, sp.read_delay_us, None, 0, sp.read_mode.clone()));
                    }
                    Some(Err(e)) => {
                        emit(json!({"ev": "app_open_err", "ep": ep, "err": crate::rec::error_json(&e)}));
                        break;
                    }
                    None => break,
                }
            } else {
                emit(json!({"ev": "app_open_call", "ep": ep, "bidi": false}));
                match with_deadline(&sh, "open", ep, -1, h2.open_send_stream()).await {
                    Some(Ok(w)) => {
                        emit(json!({"ev": "app_open", "ep": ep, "id": w.id(), "bidi": false}));
                        role(&sh, writer(sh.clone(), ep, w, sp.send, sp.chunk, sp.finish, sp.reset_at, sp.reset_delay_us, sp.reset_after_finish_us, sp.write_mode.clone(), sp.write_delay_us));
                    }
                    Some(Err(e)) => {
                        emit(json!({"ev": "app_open_err", "ep": ep, "err": crate::rec::error_json(&e)}));
                        break;
                    }
                    None => break,
                }
            }
        }
    });
    // closer
    if close_role || sh.sc.close_at_us > 0 && close_role {
        let sh = sh.clone();
        primary::spawn(async move {
            loop {
                io::time::delay(Duration::from_millis(5)).await;
                let now = now_us();
                let timed = sh.sc.close_at_us > 0 && now >= sh.sc.close_at_us;
                if sh.outstanding.load(Ordering::SeqCst) <= 0 || timed || now >= sh.sc.deadline_us {
                    break;
                }
            }
            emit(json!({"ev": "app_close", "ep": ep, "code": 3}));
            handle.close(3u32.into());
            io::time::delay(Duration::from_micros(sh.sc.linger_us)).await;
            emit(json!({"ev": "app_end", "ep": ep}));
        });
    }
}

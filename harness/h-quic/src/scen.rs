//! scenario description (serialisable: it is part of every trace and of every replay file)
use crate::net::NetCfg;
use serde::{Deserialize, Serialize};

#[derive(Clone, Debug, Serialize, Deserialize)]
pub struct Limits {
    pub data_window: u64,
    pub sd_bidi_local: u64,
    pub sd_bidi_remote: u64,
    pub sd_uni: u64,
    /// streams the PEER may open (advertised as initial_max_streams_*)
    pub streams_bidi: u64,
    pub streams_uni: u64,
    pub max_ack_delay_ms: u64,
    pub idle_ms: u64,
    pub send_buf: u32,
    pub cc: String,
    pub max_mtu: u16,
    pub acid_limit: u64,
}

impl Default for Limits {
    fn default() -> Self {
        Self { data_window: 1 << 20, sd_bidi_local: 1 << 18, sd_bidi_remote: 1 << 18, sd_uni: 1 << 18, streams_bidi: 100, streams_uni: 100,
               max_ack_delay_ms: 25, idle_ms: 30_000, send_buf: 512 * 1024, cc: "cubic".into(), max_mtu: 1500, acid_limit: 3 }
    }
}

#[derive(Clone, Debug, Default, Serialize, Deserialize)]
pub struct StreamSpec {
    pub opener: String, // "c" | "s"
    pub bidi: bool,
    pub send: u64,
    pub reply: u64,
    pub chunk: usize,
    pub reply_chunk: usize,
    /// pause of the reading side between two receive calls (slow reader)
    pub read_delay_us: u64,
    pub finish: bool,
    /// the sender resets the stream after having written this many bytes
    pub reset_at: Option<u64>,
    /// the receiver of the opener's data stops the stream after having read this many bytes
    pub stop_at: Option<u64>,
    /// delay before the opener starts
    pub start_us: u64,
    /// wait this long before calling reset (reset_at reached) so that blocked/data frames are in flight
    #[serde(default)]
    pub reset_delay_us: u64,
    /// call reset this long after finish() (0 = never)
    #[serde(default)]
    pub reset_after_finish_us: u64,
    /// how the sending application writes: "" | "send" (Bytes), "vec" (send_vectored), "tokio" (AsyncWrite::write),
    /// "tokio_vec" (AsyncWrite::write_vectored with two buffers per call)
    #[serde(default)]
    pub write_mode: String,
    /// how the receiving application reads: "" | "recv", "vec2" / "vec8" (receive_vectored with k slots),
    /// "tokio64" / "tokio4096" (AsyncRead::read into a buffer of that size), "tokio_vec" (read_vectored, two 100-byte buffers)
    #[serde(default)]
    pub read_mode: String,
    /// the reader waits this long before its first receive/stop call
    #[serde(default)]
    pub read_start_delay_us: u64,
    /// pause of the writing application between two chunks (a trickle)
    #[serde(default)]
    pub write_delay_us: u64,
}

#[derive(Clone, Debug, Serialize, Deserialize)]
pub struct Scenario {
    pub seed: u64,
    pub family: String,
    pub c: Limits,
    pub s: Limits,
    pub net: NetCfg,
    pub streams: Vec<StreamSpec>,
    /// who closes the connection when all streams are done: "c" | "s" | "none"
    pub close: String,
    /// close at this time regardless of stream progress (0 = never)
    pub close_at_us: u64,
    pub linger_us: u64,
    /// application operations give up at this virtual time
    pub deadline_us: u64,
    /// C04: a violating frame is appended to a genuine packet at the victim's rx interceptor
    #[serde(default)]
    pub violation: Option<Violation>,
    /// client address changes: (time, new ip too?)
    #[serde(default)]
    pub rebinds: Vec<(u64, bool)>,
    /// connection id lifetime in seconds for both endpoints (0 = provider default: no expiry)
    #[serde(default)]
    pub cid_lifetime_s: u64,
    /// the server validates the client's address with a Retry packet before it creates any connection state
    #[serde(default)]
    pub retry: bool,
    /// RETIRE_CONNECTION_ID / NEW_CONNECTION_ID frames are delivered a second time in a later packet (retransmission duplicates)
    #[serde(default)]
    pub dup_cid_frames: bool,
    /// client address changes alternate between two addresses instead of always moving on
    #[serde(default)]
    pub rebind_toggle: bool,
    /// the datagram with the spoofed source address (net.spoof_after_us) carries probing frames only
    #[serde(default)]
    pub spoof_probe: bool,
    /// C14: the handshake runs over the null TLS sessions and one side's transport-parameter block is rewritten
    #[serde(default)]
    pub tp_tamper: Option<crate::tamper::Tamper>,
    /// the client retires the server's newest (spare) connection id at this time (0 = never)
    #[serde(default)]
    pub early_retire_at_us: u64,
}

#[derive(Clone, Debug, Serialize, Deserialize)]
pub struct Violation {
    pub victim: String,
    pub kind: String,
    /// inject into the n-th packet of the required space that reaches the victim after `after_us`
    pub nth: u32,
    pub after_us: u64,
}

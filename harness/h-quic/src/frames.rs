//! cleartext payload -> one JSON object per frame (decoded with the real frame decoder)
use crate::common::*;
use s2n_codec::DecoderBufferMut;
use s2n_quic_core::frame::{ack::AckRanges, FrameMut};
use serde_json::{json, Value};

pub struct Decoded {
    pub frames: Vec<Value>,
    pub eliciting: bool,
    pub cc: bool,
    pub error: bool,
}

/// `sender`: the endpoint that produced this payload
pub fn decode(sender: &str, payload: &mut [u8]) -> Decoded {
    use s2n_quic_core::frame::ack_elicitation::AckElicitable;
    let mut out = Decoded { frames: Vec::new(), eliciting: false, cc: false, error: false };
    let mut buffer = DecoderBufferMut::new(payload);
    let mut padding = 0u64;
    while !buffer.is_empty() {
        let (frame, rest) = match buffer.decode::<FrameMut>() {
            Ok(v) => v,
            Err(_) => {
                out.error = true;
                break;
            }
        };
        buffer = rest;
        out.eliciting |= frame.ack_elicitation().is_ack_eliciting();
        out.cc |= !matches!(&frame, FrameMut::Ack(_) | FrameMut::Padding(_));
        let v = match &frame {
            FrameMut::Padding(p) => {
                padding += p.length as u64;
                continue;
            }
            FrameMut::Ping(_) => json!({"ty": "ping"}),
            FrameMut::Ack(a) => {
                let ranges: Vec<Value> = (&a.ack_ranges).ack_ranges().map(|r| json!([r.start().as_u64(), r.end().as_u64()])).collect();
                json!({"ty": "ack", "delay": a.ack_delay.as_u64(), "ranges": ranges, "ecn": a.ecn_counts.is_some()})
            }
            FrameMut::ResetStream(f) => json!({"ty": "reset_stream", "id": f.stream_id.as_u64(), "code": f.application_error_code.as_u64(), "final": f.final_size.as_u64()}),
            FrameMut::StopSending(f) => json!({"ty": "stop_sending", "id": f.stream_id.as_u64(), "code": f.application_error_code.as_u64()}),
            FrameMut::Crypto(f) => json!({"ty": "crypto", "off": f.offset.as_u64(), "len": f.data.len()}),
            FrameMut::NewToken(f) => json!({"ty": "new_token", "len": f.token.len()}),
            FrameMut::Stream(f) => {
                let data = f.data.as_less_safe_slice();
                json!({"ty": "stream", "id": f.stream_id.as_u64(), "off": f.offset.as_u64(), "len": data.len(), "fin": f.is_fin,
                       "ok": matches(sender, f.stream_id.as_u64(), f.offset.as_u64(), data)})
            }
            FrameMut::MaxData(f) => json!({"ty": "max_data", "v": f.maximum_data.as_u64()}),
            FrameMut::MaxStreamData(f) => json!({"ty": "max_stream_data", "id": f.stream_id.as_u64(), "v": f.maximum_stream_data.as_u64()}),
            FrameMut::MaxStreams(f) => {
                // values beyond TLC's integers are clamped and flagged (only an attacker sends them)
                let v = f.maximum_streams.as_u64();
                if v > 2_000_000_000 { json!({"ty": "max_streams", "bidi": f.stream_type.is_bidirectional(), "v": 2_000_000_001u64, "huge": true}) }
                else { json!({"ty": "max_streams", "bidi": f.stream_type.is_bidirectional(), "v": v}) }
            }
            FrameMut::DataBlocked(f) => json!({"ty": "data_blocked", "v": f.data_limit.as_u64()}),
            FrameMut::StreamDataBlocked(f) => json!({"ty": "stream_data_blocked", "id": f.stream_id.as_u64(), "v": f.stream_data_limit.as_u64()}),
            FrameMut::StreamsBlocked(f) => json!({"ty": "streams_blocked", "bidi": f.stream_type.is_bidirectional(), "v": f.stream_limit.as_u64()}),
            FrameMut::NewConnectionId(f) => json!({"ty": "new_cid", "seq": f.sequence_number.as_u64(), "rpt": f.retire_prior_to.as_u64(),
                                                  "cid": fnv(f.connection_id), "cidlen": f.connection_id.len(), "token": fnv(&f.stateless_reset_token[..])}),
            FrameMut::RetireConnectionId(f) => json!({"ty": "retire_cid", "seq": f.sequence_number.as_u64()}),
            FrameMut::PathChallenge(f) => json!({"ty": "path_challenge", "data": fnv(&f.data[..])}),
            FrameMut::PathResponse(f) => json!({"ty": "path_response", "data": fnv(&f.data[..])}),
            FrameMut::ConnectionClose(f) => json!({"ty": "conn_close", "code": f.error_code.as_u64(), "app": f.frame_type.is_none(),
                                                  "frame_type": f.frame_type.map(|v| v.as_u64() as i64).unwrap_or(-1)}),
            FrameMut::HandshakeDone(_) => json!({"ty": "handshake_done"}),
            FrameMut::Datagram(f) => json!({"ty": "datagram", "len": f.data.len()}),
            FrameMut::DcStatelessResetTokens(_) => json!({"ty": "dc_tokens"}),
            FrameMut::MtuProbingComplete(_) => json!({"ty": "mtu_probing_complete"}),
        };
        out.frames.push(v);
    }
    if padding > 0 {
        out.frames.push(json!({"ty": "padding", "len": padding}));
    }
    out
}

//! AdvNet: an adversarial `io::testing::Network`.  Every datagram gets one decision
//! (pass / drop / duplicate / hold / corrupt / truncate / corrupted-copy), either from a seeded random
//! policy or from an explicit schedule (direction, index) -> action.  All datagrams and deliveries are logged.
use crate::common::*;
use rand::{rngs::StdRng, Rng, SeedableRng};
use s2n_quic::provider::io::testing::{self as io, network::{Buffers, Packet}, Network};
use serde::{Deserialize, Serialize};
use serde_json::json;
use std::{collections::HashMap, net::SocketAddr, sync::{Arc, Mutex}, time::Duration};

#[derive(Clone, Debug, Default, Serialize, Deserialize)]
pub struct NetCfg {
    pub delay_us: u64,
    pub jitter_us: u64,
    /// probabilities in 1/1000
    pub drop: u32,
    pub dup: u32,
    pub hold: u32,
    pub corrupt: u32,
    pub truncate: u32,
    pub corrupt_copy: u32,
    /// explicit decisions: (dir, index) -> action name
    pub schedule: Vec<(String, u64, String)>,
    /// [from_us, to_us) windows in which every datagram of `dir` ("c2s" | "s2c" | "both") is dropped
    pub blackhole: Vec<(String, u64, u64)>,
    /// no random faults after this time (the network heals)
    pub heal_at_us: Option<u64>,
    /// datagrams larger than this are dropped (path MTU), optionally changing at a time
    pub mtu: usize,
    pub mtu_change: Option<(u64, usize)>,
    /// no random faults before this many datagrams per direction (lets the handshake through when > 0)
    pub skip_first: u64,
    /// number of forged datagrams (random bytes, garbage with a plausible header, fake stateless resets) injected
    /// towards each endpoint at random times in [inject_from_us, inject_to_us)
    #[serde(default)]
    pub inject: u32,
    #[serde(default)]
    pub inject_from_us: u64,
    #[serde(default)]
    pub inject_to_us: u64,
    /// per-mille of datagrams whose verbatim copy is delivered again much later (after the receiver's
    /// duplicate window has moved on)
    #[serde(default)]
    pub replay_late: u32,
    /// one-way delay for datagrams from/to the k-th distinct client address (missing entries: delay_us)
    #[serde(default)]
    pub addr_delays_us: Vec<u64>,
    /// an apparent migration: the first small (< 200 bytes) client datagram sent at or after this time reaches the server
    /// with a source address nobody listens on (0 = never)
    #[serde(default)]
    pub spoof_after_us: u64,
}

pub struct AdvNet {
    cfg: NetCfg,
    rng: StdRng,
    idx: HashMap<&'static str, u64>,
    sched: HashMap<(String, u64), String>,
    pub server: Arc<Mutex<Option<SocketAddr>>>,
    /// datagrams to inject: (at_us, to_server, payload)
    pub inject: Arc<Mutex<Vec<(u64, bool, Vec<u8>)>>>,
    pub client_addrs: Arc<Mutex<Vec<SocketAddr>>>,
    /// destination connection id of the client's very first Initial (what an on-path attacker has seen)
    first_dcid: Option<Vec<u8>>,
    first_scid: Option<Vec<u8>>,
    injected: u64,
    spoofed: bool,
}

impl AdvNet {
    pub fn new(cfg: NetCfg, seed: u64) -> Self {
        let sched = cfg.schedule.iter().map(|(d, i, a)| ((d.clone(), *i), a.clone())).collect();
        let mut rng = StdRng::seed_from_u64(seed ^ 0xabad_1dea);
        let mut inj = Vec::new();
        if cfg.inject > 0 && cfg.inject_to_us > cfg.inject_from_us {
            for k in 0..2 * cfg.inject {
                // half of them early (handshake and the first round trips after it), the rest spread over the whole interval
                let hi = if k % 4 < 2 { cfg.inject_from_us + (cfg.inject_to_us - cfg.inject_from_us) / 10 } else { cfg.inject_to_us };
                let t = rng.random_range(cfg.inject_from_us..hi.max(cfg.inject_from_us + 1));
                let len = [21usize, 40, 53, 100, 1200][rng.random_range(0..5)] + rng.random_range(0..9);
                let mut p: Vec<u8> = (0..len).map(|_| rng.random()).collect();
                match rng.random_range(0..7) {
                    0 | 1 => p[0] = 0x40 | (p[0] & 0x3f),    // short header form (also what a stateless reset looks like)
                    2 => { p[0] = 0xc0 | (p[0] & 0x3f); p[1..5].copy_from_slice(&[0, 0, 0, 1]); } // long header, QUIC v1
                    3 | 4 => {
                        // Initial-looking packet of an unknown version, padded to 1200+ or deliberately short
                        let l = if rng.random_bool(0.6) { 1200 + rng.random_range(0..100usize) } else { 1100 + rng.random_range(0..99usize) };
                        p.resize(l, 0x55);
                        p[0] = 0xc3; p[1..5].copy_from_slice(&[0x1a, 0x2a, 0x3a, 0x4a]);
                        p[5] = 8; p[14] = 8;                 // dcid / scid lengths
                    }
                    5 => { p.resize(40.max(p.len()), 0); p[0] = 0x80 | (p[0] & 0x7f); p[1..5].copy_from_slice(&[0, 0, 0, 0]); p[5] = 8; p[14] = 8; } // Version Negotiation
                    _ => {}
                }
                inj.push((t, k % 2 == 0, p));
            }
        }
        Self { cfg, rng, idx: HashMap::new(), sched, server: Default::default(),
               inject: Arc::new(Mutex::new(inj)), client_addrs: Default::default(), first_dcid: None, first_scid: None, injected: 0, spoofed: false }
    }

    fn decide(&mut self, dir: &'static str, idx: u64, now: u64, len: usize) -> String {
        if let Some(a) = self.sched.get(&(dir.to_string(), idx)) {
            return a.clone();
        }
        for (d, from, to) in &self.cfg.blackhole {
            if (d == dir || d == "both") && now >= *from && now < *to {
                return "drop_blackhole".into();
            }
        }
        let mtu = match self.cfg.mtu_change {
            Some((t, m)) if now >= t => m,
            _ => self.cfg.mtu,
        };
        if mtu > 0 && len > mtu {
            return "drop_mtu".into();
        }
        if self.cfg.heal_at_us.map(|h| now >= h).unwrap_or(false) || idx < self.cfg.skip_first {
            return "pass".into();
        }
        let r: u32 = self.rng.random_range(0..1000);
        let c = &self.cfg;
        let mut acc = 0;
        for (p, name) in [(c.drop, "drop"), (c.dup, "dup"), (c.hold, "hold"), (c.corrupt, "corrupt"), (c.truncate, "truncate"), (c.corrupt_copy, "corrupt_copy"), (c.replay_late, "replay_late")] {
            acc += p;
            if r < acc {
                return name.into();
            }
        }
        "pass".into()
    }
}

fn deliver(buffers: &Buffers, mut packet: Packet, at: Duration, dir: &'static str, idx: u64, copy: u32) {
    packet.switch();
    let buffers = buffers.clone();
    let now = io::now();
    let when = now + at;
    io::spawn(async move {
        if !at.is_zero() {
            io::time::delay_until(when).await;
        }
        let len = packet.payload.len();
        buffers.rx(*packet.path.local_address, |queue| {
            if copy == 9 { crate::common::SPOOF_FLAG.with(|f| f.set(true)); }
            emit(json!({"ev": "dgrx", "dir": dir, "idx": idx, "len": len, "copy": copy}));
            queue.enqueue(packet);
        });
    });
}

impl Network for AdvNet {
    fn execute(&mut self, buffers: &Buffers) -> usize {
        let now = now_us();
        // scheduled injections
        let due: Vec<_> = {
            let mut inj = self.inject.lock().unwrap();
            let (due, rest): (Vec<_>, Vec<_>) = inj.drain(..).partition(|(t, ..)| *t <= now);
            *inj = rest;
            due
        };
        let server = *self.server.lock().unwrap();
        let mut count = 0;
        for (_t, to_server, mut payload) in due {
            let Some(server) = server else { continue };
            self.injected += 1;
            if let (true, Some(dcid), true) = (to_server, &self.first_dcid, self.injected % 2 == 0) {
                // a forged long-header packet (Handshake / 0-RTT / Initial type) with an arbitrary body, addressed to
                // the connection id the client chose for its first Initial
                let ty = [0xe0u8, 0xd0, 0xc0][(self.injected / 2 % 3) as usize];
                let mut f = vec![ty | (payload[0] & 0x0f), 0, 0, 0, 1, dcid.len() as u8];
                f.extend_from_slice(dcid);
                // mostly with the source connection id the client really uses (an on-path attacker has seen it)
                match (&self.first_scid, self.injected % 8 == 0) {
                    (Some(scid), false) => { f.push(scid.len() as u8); f.extend_from_slice(scid); }
                    _ => { f.push(8); f.extend_from_slice(&payload[1..9]); }
                }
                if ty == 0xc0 { f.push(0); }
                let body = payload.len().clamp(24, 1100);
                f.extend_from_slice(&[0x40 | (body >> 8) as u8, body as u8]);
                f.extend((0..body).map(|i| payload[i % payload.len()] ^ (i as u8)));
                payload = f;
            }
            let Some(client) = self.client_addrs.lock().unwrap().last().copied() else { continue };
            let (src, dst): (SocketAddr, SocketAddr) = if to_server { (client, server) } else { (server, client) };
            let len = payload.len();
            let packet = Packet {
                path: s2n_quic_core::path::Tuple { remote_address: s2n_quic_core::inet::SocketAddress::from(src).into(), local_address: s2n_quic_core::inet::SocketAddress::from(dst).into() },
                ecn: Default::default(),
                payload,
            };
            emit(json!({"ev": "inject", "to_server": to_server, "len": len}));
            let buffers2 = buffers.clone();
            buffers2.rx(*packet.path.local_address, |queue| queue.enqueue(packet));
            count += 1;
        }
        let mut pending = Vec::new();
        buffers.drain_pending_transmissions(|packet| {
            pending.push(packet);
            Ok(())
        });
        for mut packet in pending {
            count += 1;
            let dst: SocketAddr = (*packet.path.remote_address).into();
            let src: SocketAddr = (*packet.path.local_address).into();
            let dir: &'static str = if Some(dst) == server { "c2s" } else { "s2c" };
            if dir == "c2s" {
                let mut ca = self.client_addrs.lock().unwrap();
                if !ca.contains(&src) {
                    ca.push(src);
                }
            }
            if dir == "c2s" && self.first_dcid.is_none() {
                let p = &packet.payload;
                if p.len() > 6 && p[0] & 0x80 != 0 && p.len() > 6 + p[5] as usize {
                    let d = 6 + p[5] as usize;
                    self.first_dcid = Some(p[6..d].to_vec());
                    if p.len() > d + 1 + p[d] as usize {
                        self.first_scid = Some(p[d + 1..d + 1 + p[d] as usize].to_vec());
                    }
                }
            }
            let mut spoofed_now = false;
            if dir == "c2s" && !self.spoofed && self.cfg.spoof_after_us > 0 && now >= self.cfg.spoof_after_us && packet.payload.len() < 200
                && packet.payload.first().map(|b| b & 0x80 == 0).unwrap_or(false) {
                self.spoofed = true;
                let fake: SocketAddr = "1.0.9.9:5555".parse().unwrap();
                emit(json!({"ev": "spoofed_source", "len": packet.payload.len(), "from": src.to_string(), "as": fake.to_string()}));
                packet.path.local_address = s2n_quic_core::inet::SocketAddress::from(fake).into();
                spoofed_now = true;
            }
            let idx = {
                let e = self.idx.entry(dir).or_insert(0);
                *e += 1;
                *e - 1
            };
            let len = packet.payload.len();
            let act = self.decide(dir, idx, now, len);
            let first = packet.payload.first().copied().unwrap_or(0);
            let (from, to) = if dir == "c2s" { ("c", "s") } else { ("s", "c") };
            let (dcid, scid) = crate::common::datagram_ids(&packet.payload, from, to, true);
            let (dcid_raw, scid_raw): (Vec<u8>, Vec<u8>) = {
                let p = &packet.payload;
                if p.len() > 7 && p[0] & 0x80 != 0 && p.len() >= 7 + p[5] as usize && p.len() >= 7 + p[5] as usize + p[6 + p[5] as usize] as usize {
                    let dl = p[5] as usize;
                    let sl = p[6 + dl] as usize;
                    (p[6..6 + dl].to_vec(), p[7 + dl..7 + dl + sl].to_vec())
                } else { (vec![], vec![]) }
            };
            emit(json!({"ev": "dg", "dir": dir, "idx": idx, "len": len, "act": act, "first": first, "dcid": dcid, "scid": scid, "dcid_raw": dcid_raw, "scid_raw": scid_raw, "src": src.to_string(), "dst": dst.to_string(), "hash": fnv(&packet.payload)}));
            let path_delay = {
                let ca = self.client_addrs.lock().unwrap();
                let client_side = if dir == "c2s" { src } else { dst };
                ca.iter().position(|a| *a == client_side).and_then(|k| self.cfg.addr_delays_us.get(k).copied()).unwrap_or(self.cfg.delay_us)
            };
            let base = Duration::from_micros(path_delay + if self.cfg.jitter_us > 0 { self.rng.random_range(0..self.cfg.jitter_us) } else { 0 });
            match act.as_str() {
                "pass" => deliver(buffers, packet, base, dir, idx, if spoofed_now { 9 } else { 0 }),
                "dup" => {
                    let extra = Duration::from_micros(self.rng.random_range(0..4 * self.cfg.delay_us.max(1000)));
                    deliver(buffers, packet.clone(), base, dir, idx, 0);
                    deliver(buffers, packet, base + extra, dir, idx, 1);
                }
                "replay_late" => {
                    deliver(buffers, packet.clone(), base, dir, idx, 0);
                    deliver(buffers, packet, base + Duration::from_millis(self.rng.random_range(200..3000)), dir, idx, 1);
                }
                "hold" => {
                    let extra = Duration::from_micros(self.rng.random_range(1000..6 * self.cfg.delay_us.max(1000)));
                    deliver(buffers, packet, base + extra, dir, idx, 0);
                }
                "corrupt" | "corrupt_copy" => {
                    let mut bad = packet.clone();
                    let flips = self.rng.random_range(1..=8);
                    for _ in 0..flips {
                        let i = self.rng.random_range(0..bad.payload.len());
                        bad.payload[i] ^= 1 << self.rng.random_range(0..8);
                    }
                    if act == "corrupt_copy" {
                        deliver(buffers, packet, base, dir, idx, 0);
                        deliver(buffers, bad, base + Duration::from_micros(500), dir, idx, 2);
                    } else {
                        deliver(buffers, bad, base, dir, idx, 2);
                    }
                }
                "truncate" => {
                    let mut bad = packet;
                    let n = self.rng.random_range(0..bad.payload.len().max(1));
                    bad.payload.truncate(n);
                    if !bad.payload.is_empty() {
                        deliver(buffers, bad, base, dir, idx, 3);
                    }
                }
                _ => {} // all drop flavours
            }
        }
        count
    }
}

//! Recorder: event subscriber + packet interceptor of one endpoint ("c" client / "s" server).
use crate::{common::*, frames};
use s2n_codec::{encoder::scatter, DecoderBufferMut};
use s2n_quic::provider::event::{self, events};
use s2n_quic_core::{
    event::api::Subject,
    packet::{
        interceptor::{Datagram, Interceptor, Packet},
        number::PacketNumberSpace,
    },
};
use serde_json::{json, Value};

fn space_name(s: PacketNumberSpace) -> &'static str {
    match s {
        PacketNumberSpace::Initial => "i",
        PacketNumberSpace::Handshake => "h",
        PacketNumberSpace::ApplicationData => "a",
    }
}

fn conn_of(subject: &Subject) -> i64 {
    match subject {
        Subject::Connection { id, .. } => *id as i64,
        _ => -1,
    }
}

fn header(h: &events::PacketHeader) -> (&'static str, i64) {
    match h {
        events::PacketHeader::Initial { number, .. } => ("i", *number as i64),
        events::PacketHeader::Handshake { number, .. } => ("h", *number as i64),
        events::PacketHeader::ZeroRtt { number, .. } => ("z", *number as i64),
        events::PacketHeader::OneRtt { number, .. } => ("a", *number as i64),
        events::PacketHeader::Retry { .. } => ("retry", -1),
        events::PacketHeader::VersionNegotiation { .. } => ("vn", -1),
        events::PacketHeader::StatelessReset { .. } => ("sr", -1),
        _ => ("?", -1),
    }
}

fn us(d: core::time::Duration) -> u64 {
    d.as_micros() as u64
}

// ------------------------------------------------------------------ interceptor
pub struct Tap {
    pub ep: &'static str,
    /// optional rewriting of received payloads (C04 injection): called with (conn, space, pn, payload) -> replacement
    pub rx_rewrite: Option<Box<dyn FnMut(i64, &'static str, u64, &[u8]) -> Option<Vec<u8>> + Send>>,
    scratch: Vec<Vec<u8>>,
}

impl Tap {
    pub fn new(ep: &'static str) -> Self {
        Self { ep, rx_rewrite: None, scratch: Vec::new() }
    }
}

fn log_packet(kind: &str, ep: &str, sender: &str, conn: i64, packet: &Packet, payload: &mut [u8]) {
    let hash = fnv(payload);
    let len = payload.len();
    let d = frames::decode(sender, payload);
    let sp = space_name(packet.number.space());
    let pn = packet.number.as_u64();
    emit(json!({"ev": format!("{kind}p"), "ep": ep, "conn": conn, "sp": sp, "pn": pn, "t": ts_us(packet.timestamp), "len": len, "hash": hash,
                "n": d.frames.len(), "el": d.eliciting, "cc": d.cc, "bad": d.error}));
    if kind == "tx" && sp == "a" && conn == 0 {
        crate::common::LAST_TX_PN.with(|c| { let mut v = c.get(); let i = crate::common::side(ep); if v[i].is_none_or(|x| pn > x) { v[i] = Some(pn); c.set(v); } });
    }
    for mut f in d.frames {
        if kind == "tx" && f["ty"] == "new_cid" && conn == 0 {
            let seq = f["seq"].as_u64().unwrap_or(0);
            crate::common::ISSUED_MAX.with(|c| { let mut v = c.get(); let i = crate::common::side(ep); if seq > v[i] { v[i] = seq; c.set(v); } });
        }
        let m = f.as_object_mut().unwrap();
        m.insert("ev".into(), json!(format!("{kind}f")));
        m.insert("ep".into(), json!(ep));
        m.insert("conn".into(), json!(conn));
        m.insert("sp".into(), json!(sp));
        m.insert("pn".into(), json!(pn));
        m.insert("t".into(), json!(ts_us(packet.timestamp)));
        emit(f);
    }
}

impl Interceptor for Tap {
    fn intercept_rx_payload<'a>(&mut self, subject: &Subject, packet: &Packet, payload: DecoderBufferMut<'a>) -> DecoderBufferMut<'a> {
        let conn = conn_of(subject);
        let bytes = payload.into_less_safe_slice();
        if let Some(rw) = self.rx_rewrite.as_mut() {
            if let Some(new) = rw(conn, space_name(packet.number.space()), packet.number.as_u64(), bytes) {
                // the replacement must outlive this call: keep it in the tap (freed with the endpoint)
                self.scratch.push(new);
                let slice: &mut [u8] = self.scratch.last_mut().unwrap().as_mut_slice();
                // SAFETY: the vector is never touched again; it lives as long as the endpoint, which outlives packet processing
                let slice: &'a mut [u8] = unsafe { core::mem::transmute::<&mut [u8], &'a mut [u8]>(slice) };
                let mut copy = slice.to_vec();
                log_packet("rx", self.ep, peer(self.ep), conn, packet, &mut copy);
                return DecoderBufferMut::new(slice);
            }
        }
        let mut copy = bytes.to_vec();
        log_packet("rx", self.ep, peer(self.ep), conn, packet, &mut copy);
        DecoderBufferMut::new(bytes)
    }

    fn intercept_tx_payload(&mut self, subject: &Subject, packet: &Packet, payload: &mut scatter::Buffer) {
        let (enc, extra) = payload.inner_mut();
        let mut copy = enc.as_mut_slice().to_vec();
        if let Some(extra) = extra {
            copy.extend_from_slice(extra);
        }
        log_packet("tx", self.ep, self.ep, conn_of(subject), packet, &mut copy);
    }

    fn intercept_rx_datagram<'a>(&mut self, _subject: &Subject, datagram: &Datagram, payload: DecoderBufferMut<'a>) -> DecoderBufferMut<'a> {
        let (dcid, _) = crate::common::datagram_ids(payload.as_less_safe_slice(), peer(self.ep), self.ep, false);
        let raddr = format!("{:?}", datagram.remote_address).replace(['"', '\\'], "");
        emit(json!({"ev": "rxd", "ep": self.ep, "len": payload.len(), "dcid": dcid, "raddr": raddr, "t": ts_us(datagram.timestamp)}));
        payload
    }
}

// ------------------------------------------------------------------ subscriber
pub struct Recorder {
    pub ep: &'static str,
}

pub struct ConnCtx {
    id: u64,
    /// path id by (local address | remote address), learnt from the recovery metrics events
    paths: std::collections::HashMap<String, u64>,
}

macro_rules! ev {
    ($self:ident, $ctx:ident, $name:expr, $($k:tt : $v:expr),* $(,)?) => {
        emit(json!({"ev": $name, "ep": $self.ep, "conn": $ctx.id, $($k: $v),*}))
    };
}

impl event::Subscriber for Recorder {
    type ConnectionContext = ConnCtx;

    fn create_connection_context(&mut self, meta: &events::ConnectionMeta, _info: &events::ConnectionInfo) -> ConnCtx {
        emit(json!({"ev": "conn_new", "ep": self.ep, "conn": meta.id}));
        ConnCtx { id: meta.id, paths: Default::default() }
    }

    fn on_transport_parameters_received(&mut self, c: &mut ConnCtx, _m: &events::ConnectionMeta, e: &events::TransportParametersReceived) {
        let p = &e.transport_parameters;
        ev!(self, c, "tp",
            "max_data": 0, "sd_bidi_local": p.initial_max_stream_data_bidi_local, "sd_bidi_remote": p.initial_max_stream_data_bidi_remote,
            "sd_uni": p.initial_max_stream_data_uni, "streams_bidi": p.initial_max_streams_bidi, "streams_uni": p.initial_max_streams_uni,
            "max_ack_delay": us(p.max_ack_delay), "ack_delay_exponent": p.ack_delay_exponent, "idle": us(p.max_idle_timeout),
            "acid_limit": p.active_connection_id_limit, "max_udp": p.max_udp_payload_size, "migration": p.migration_support);
    }

    fn on_packet_sent(&mut self, c: &mut ConnCtx, _m: &events::ConnectionMeta, e: &events::PacketSent) {
        let (sp, pn) = header(&e.packet_header);
        let mode = match e.transmission_mode {
            events::TransmissionMode::LossRecoveryProbing { .. } => "probe",
            events::TransmissionMode::MtuProbing { .. } => "mtu",
            events::TransmissionMode::PathValidationOnly { .. } => "pathval",
            events::TransmissionMode::Normal { .. } => "normal",
            _ => "?",
        };
        ev!(self, c, "packet_sent", "sp": sp, "pn": pn, "len": e.packet_len, "mode": mode);
    }

    fn on_packet_received(&mut self, c: &mut ConnCtx, _m: &events::ConnectionMeta, e: &events::PacketReceived) {
        let (sp, pn) = header(&e.packet_header);
        ev!(self, c, "packet_received", "sp": sp, "pn": pn);
    }

    // NOTE packet_lost.path carries the addresses of the path the packet was SENT on but the id of the path the loss
    // was detected on (recovery/manager.rs path_event!(path, current_path_id)); "spath" is the id of the path with those addresses
    fn on_packet_lost(&mut self, c: &mut ConnCtx, _m: &events::ConnectionMeta, e: &events::PacketLost) {
        let (sp, pn) = header(&e.packet_header);
        ev!(self, c, "packet_lost", "sp": sp, "pn": pn, "bytes": e.bytes_lost, "mtu_probe": e.is_mtu_probe, "path": e.path.id,
            "spath": c.paths.get(&pkey(&e.path)).copied().unwrap_or(e.path.id));
    }

    fn on_ack_range_received(&mut self, c: &mut ConnCtx, _m: &events::ConnectionMeta, e: &events::AckRangeReceived) {
        let (sp, pn) = header(&e.packet_header);
        ev!(self, c, "ack_range", "sp": sp, "pn": pn, "lo": *e.ack_range.start(), "hi": *e.ack_range.end(), "path": e.path.id);
    }

    fn on_recovery_metrics(&mut self, c: &mut ConnCtx, _m: &events::ConnectionMeta, e: &events::RecoveryMetrics) {
        c.paths.insert(pkey(&e.path), e.path.id);
        ev!(self, c, "metrics", "path": e.path.id, "min_rtt": us(e.min_rtt), "srtt": us(e.smoothed_rtt), "latest": us(e.latest_rtt),
            "rttvar": us(e.rtt_variance), "mad": us(e.max_ack_delay), "pto_count": e.pto_count, "cwnd": e.congestion_window,
            "bif": e.bytes_in_flight, "limited": e.congestion_limited);
    }

    fn on_congestion(&mut self, c: &mut ConnCtx, _m: &events::ConnectionMeta, e: &events::Congestion) {
        ev!(self, c, "congestion", "path": e.path.id, "source": format!("{:?}", e.source));
    }

    fn on_key_space_discarded(&mut self, c: &mut ConnCtx, _m: &events::ConnectionMeta, e: &events::KeySpaceDiscarded) {
        let sp = match e.space {
            events::KeySpace::Initial { .. } => "i",
            events::KeySpace::Handshake { .. } => "h",
            events::KeySpace::ZeroRtt { .. } => "z",
            events::KeySpace::OneRtt { .. } => "a",
            _ => "?",
        };
        ev!(self, c, "space_discarded", "sp": sp);
    }

    fn on_key_update(&mut self, c: &mut ConnCtx, _m: &events::ConnectionMeta, e: &events::KeyUpdate) {
        ev!(self, c, "key_update", "key": format!("{:?}", e.key_type));
    }

    fn on_handshake_status_updated(&mut self, c: &mut ConnCtx, _m: &events::ConnectionMeta, e: &events::HandshakeStatusUpdated) {
        let s = format!("{:?}", e.status);
        ev!(self, c, "handshake", "status": s.split_whitespace().next().unwrap_or("?"));
    }

    fn on_packet_dropped(&mut self, c: &mut ConnCtx, _m: &events::ConnectionMeta, e: &events::PacketDropped) {
        let s = format!("{:?}", e.reason);
        ev!(self, c, "packet_dropped", "reason": s.split(|ch: char| !ch.is_alphanumeric()).next().unwrap_or("?"));
    }

    fn on_datagram_dropped(&mut self, c: &mut ConnCtx, _m: &events::ConnectionMeta, e: &events::DatagramDropped) {
        let s = format!("{:?}", e.reason);
        ev!(self, c, "datagram_dropped", "len": e.len, "reason": s.split(|ch: char| !ch.is_alphanumeric()).next().unwrap_or("?"));
    }

    fn on_duplicate_packet(&mut self, c: &mut ConnCtx, _m: &events::ConnectionMeta, e: &events::DuplicatePacket) {
        let (sp, pn) = header(&e.packet_header);
        ev!(self, c, "duplicate_packet", "sp": sp, "pn": pn, "error": format!("{:?}", e.error));
    }

    fn on_datagram_received(&mut self, c: &mut ConnCtx, _m: &events::ConnectionMeta, e: &events::DatagramReceived) {
        ev!(self, c, "datagram_received", "len": e.len);
    }

    fn on_datagram_sent(&mut self, c: &mut ConnCtx, _m: &events::ConnectionMeta, e: &events::DatagramSent) {
        ev!(self, c, "datagram_sent", "len": e.len);
    }

    fn on_connection_closed(&mut self, c: &mut ConnCtx, _m: &events::ConnectionMeta, e: &events::ConnectionClosed) {
        ev!(self, c, "conn_closed", "error": error_json(&e.error));
    }

    fn on_mtu_updated(&mut self, c: &mut ConnCtx, _m: &events::ConnectionMeta, e: &events::MtuUpdated) {
        ev!(self, c, "mtu_updated", "path": e.path_id, "mtu": e.mtu);
    }

    fn on_active_path_updated(&mut self, c: &mut ConnCtx, _m: &events::ConnectionMeta, e: &events::ActivePathUpdated) {
        ev!(self, c, "active_path", "prev": e.previous.id, "path": e.active.id);
    }

    fn on_endpoint_packet_sent(&mut self, _m: &events::EndpointMeta, e: &events::EndpointPacketSent) {
        let (sp, _) = header(&e.packet_header);
        emit(json!({"ev": "endpoint_packet_sent", "ep": self.ep, "kind": sp}));
    }

    fn on_endpoint_datagram_dropped(&mut self, _m: &events::EndpointMeta, e: &events::EndpointDatagramDropped) {
        let s = format!("{:?}", e.reason);
        emit(json!({"ev": "endpoint_datagram_dropped", "ep": self.ep, "len": e.len, "reason": s.split(|ch: char| !ch.is_alphanumeric()).next().unwrap_or("?")}));
    }
}

/// classification of a connection error: kind + transport/application code
pub fn error_json(e: &s2n_quic::connection::Error) -> Value {
    use s2n_quic::connection::Error as E;
    match e {
        E::Closed { initiator, .. } => json!({"kind": "closed", "local": initiator.is_local()}),
        E::Transport { code, initiator, .. } => json!({"kind": "transport", "code": code.as_u64(), "local": initiator.is_local()}),
        E::Application { error, initiator, .. } => json!({"kind": "application", "code": u64::from(*error), "local": initiator.is_local()}),
        E::StatelessReset { .. } => json!({"kind": "stateless_reset"}),
        E::IdleTimerExpired { .. } => json!({"kind": "idle"}),
        E::NoValidPath { .. } => json!({"kind": "no_valid_path"}),
        E::StreamIdExhausted { .. } => json!({"kind": "stream_id_exhausted"}),
        E::MaxHandshakeDurationExceeded { .. } => json!({"kind": "handshake_duration"}),
        E::ImmediateClose { .. } => json!({"kind": "immediate_close"}),
        E::EndpointClosing { .. } => json!({"kind": "endpoint_closing"}),
        E::InvalidConfiguration { .. } => json!({"kind": "invalid_configuration"}),
        E::Unspecified { .. } => json!({"kind": "unspecified"}),
        _ => json!({"kind": "other", "dbg": format!("{e:?}")}),
    }
}

fn pkey(p: &events::Path) -> String {
    format!("{:?}|{:?}", p.local_addr, p.remote_addr).replace(['"', '\\'], "")
}

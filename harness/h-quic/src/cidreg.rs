//! C13 (component level): the real LocalIdRegistry + ConnectionIdMapper (reached through the cfg(aws_s2n_quic_verif)
//! re-export) driven with call sequences enumerated by TLC (Gen_LocalIds) or drawn at random.  Every call is one
//! event for Trace_LocalIds: the NEW_CONNECTION_ID frames the registry wrote (sequence number, retire_prior_to, which
//! registered id/token the frame carries), the result of a peer's RETIRE_CONNECTION_ID, and after every call the ids
//! that the endpoint-wide mapper still routes to this connection.
use rand::{rngs::StdRng, Rng, SeedableRng};
use s2n_quic_core::{
    connection, endpoint,
    frame::FrameMut,
    packet::number::{PacketNumber, PacketNumberRange, PacketNumberSpace},
    random, stateless_reset,
    time::{timer::Provider as _, Timestamp},
    transmission::{self, interest::Provider as _, writer::testing::{OutgoingFrameBuffer, Writer}},
    varint::VarInt,
};
use s2n_quic_transport::verif::{ConnectionIdMapper, InternalConnectionId, InternalConnectionIdGenerator, LocalIdRegistry};
use serde_json::{json, Value};
use std::{cell::RefCell, rc::Rc, time::Duration};

fn ts(us: u64) -> Timestamp { unsafe { Timestamp::from_duration(Duration::from_micros(us + 1_000_000)) } }
fn pn(x: u64) -> PacketNumber { PacketNumberSpace::ApplicationData.new_packet_number(VarInt::new(x).unwrap()) }
fn cid(conn: u64, seq: u64) -> connection::LocalId {
    let mut b = [0u8; 8];
    b[..4].copy_from_slice(&(0xc0de_0000u32 + conn as u32).to_be_bytes());
    b[4..].copy_from_slice(&(seq as u32).to_be_bytes());
    connection::LocalId::try_from_bytes(&b).unwrap()
}
fn token(conn: u64, seq: u64) -> stateless_reset::Token {
    let mut b = [0x5au8; 16];
    b[..8].copy_from_slice(&(conn + 1).to_be_bytes());
    b[8..].copy_from_slice(&(seq + 1).to_be_bytes());
    b.into()
}

struct Reg {
    conn: u64,
    internal: InternalConnectionId,
    mapper: Rc<RefCell<ConnectionIdMapper>>,
    r: LocalIdRegistry,
    fb: OutgoingFrameBuffer,
    next: u64,        // sequence numbers handed to the registry so far
    lifetime_us: u64, // 0 = none
    rtt_us: u64,
}

impl Reg {
    fn new(conn: u64, limit: u64, rotate: bool, lifetime_us: u64, rtt_us: u64, mapper: Rc<RefCell<ConnectionIdMapper>>, internal: InternalConnectionId) -> Reg {
        let exp = if lifetime_us > 0 { Some(ts(lifetime_us)) } else { None };
        let mut r = mapper.borrow_mut().create_local_id_registry(internal, &cid(conn, 0), exp, token(conn, 0), rotate);
        r.set_active_connection_id_limit(limit);
        let mut fb = OutgoingFrameBuffer::new();
        fb.set_max_packet_size(Some(1200));
        Reg { conn, internal, mapper, r, fb, next: 1, lifetime_us, rtt_us }
    }
    fn interest(&self) -> u64 {
        match self.r.connection_id_interest() { connection::id::Interest::New(n) => n as u64, _ => 0 }
    }
    /// the observation attached to every event
    fn obs(&self, now: u64, other: &Reg) -> Value {
        let mut routes = vec![];
        let mut stray = vec![];
        for s in 0..self.next {
            match self.mapper.borrow().lookup_internal_connection_id(&cid(self.conn, s)) {
                Some((id, _)) if id == self.internal => routes.push(s),
                Some(_) => stray.push(s),
                None => {}
            }
        }
        // the other connection's ids never route here
        for s in 0..other.next {
            if let Some((id, _)) = self.mapper.borrow().lookup_internal_connection_id(&cid(other.conn, s)) {
                if id == self.internal { stray.push(1000 + s); }
            }
        }
        let deadline = self.r.next_expiration().map(|t| t.saturating_duration_since(ts(0)).as_micros() as u64);
        json!({"t": now, "routes": routes, "stray": stray, "interest": self.interest(), "armed": deadline.is_some(), "deadline": deadline.unwrap_or(0),
               "tx": format!("{:?}", self.r.get_transmission_interest())})
    }
    fn register(&mut self, now: u64) -> Value {
        let s = self.next;
        let exp_us = if self.lifetime_us > 0 { now + self.lifetime_us } else { 0 };
        let exp = if exp_us > 0 { Some(ts(exp_us)) } else { None };
        let ok = self.r.register_connection_id(&cid(self.conn, s), exp, token(self.conn, s)).is_ok();
        if ok { self.next += 1; }
        json!({"ev": "register", "seq": s, "exp": exp_us, "ok": ok})
    }
    fn transmit(&mut self, k: usize, lost_only: bool, now: u64) -> Value {
        self.fb.set_error_write_after_n_frames(k);
        let before = self.fb.len();
        let constraint = if lost_only { transmission::Constraint::RetransmissionOnly } else { transmission::Constraint::None };
        let mut w = Writer::new(ts(now), &mut self.fb, constraint, transmission::Mode::Normal, endpoint::Type::Server);
        let our_pn = { use s2n_quic_core::transmission::Writer as _; w.packet_number().as_u64() };
        self.r.on_transmit(&mut w);
        let mut frames = vec![];
        for i in before..self.fb.len() {
            let mut wf = self.fb.frames[i].clone();
            let fpn = wf.packet_nr.as_u64();
            if let FrameMut::NewConnectionId(f) = wf.as_frame() {
                let seq = f.sequence_number.as_u64();
                // which registered id / token does the frame carry (index = sequence number it was registered under)
                let c = (0..self.next).find(|s| cid(self.conn, *s).as_bytes() == f.connection_id).map(|s| s as i64).unwrap_or(-1);
                let t = (0..self.next).find(|s| token(self.conn, *s).as_ref() == &f.stateless_reset_token[..]).map(|s| s as i64).unwrap_or(-1);
                frames.push(json!({"seq": seq, "rpt": f.retire_prior_to.as_u64(), "cid": c, "tok": t, "pn": fpn}));
            } else {
                frames.push(json!({"seq": -1, "rpt": 0, "cid": -1, "tok": -1, "pn": fpn}));
            }
        }
        self.fb.flush();
        self.fb.set_error_write_after_n_frames(1 << 30);
        json!({"ev": "transmit", "k": k, "lostonly": lost_only, "pn": our_pn, "frames": frames})
    }
    fn acked(&mut self, p: u64, lost: bool) -> Value {
        let set = PacketNumberRange::new(pn(p), pn(p));
        if lost { self.r.on_packet_loss(&set); } else { self.r.on_packet_ack(&set); }
        json!({"ev": if lost { "lose" } else { "ack" }, "pn": p})
    }
    fn retire(&mut self, seq: u64, dcid_seq: u64, now: u64) -> Value {
        let ok = self.r.on_retire_connection_id(seq as u32, &cid(self.conn, dcid_seq), Duration::from_micros(self.rtt_us), ts(now)).is_ok();
        json!({"ev": "retire", "seq": seq, "dcid": dcid_seq, "ok": ok})
    }
}

/// the registry under test and a second connection on the same endpoint-wide mapper: its ids must stay its own
fn new_pair(run: u64, limit: u64, rotate: bool, lifetime_us: u64, rtt_us: u64, idgen: &mut InternalConnectionIdGenerator) -> (Reg, Reg) {
    let mut rg = random::testing::Generator(7);
    let mapper = Rc::new(RefCell::new(ConnectionIdMapper::new(&mut rg, endpoint::Type::Server)));
    let a = Reg::new(run * 2, limit, rotate, lifetime_us, rtt_us, mapper.clone(), idgen.generate_id());
    let mut b = Reg::new(run * 2 + 1, 2, false, 0, rtt_us, mapper, idgen.generate_id());
    let _ = b.register(0);
    (a, b)
}

fn merge(mut a: Value, b: Value) -> Value {
    for (k, v) in b.as_object().unwrap() { a[k.as_str()] = v.clone(); }
    a
}

pub fn run(args: &[String]) -> Value {
    let source = &args[0];
    let mut out = std::io::BufWriter::new(std::fs::File::create(&args[1]).unwrap());
    let mut lines = 0u64;
    let mut panics = 0u64;
    // events of the run in progress; a panic of the code under test ends the run with a "panic" event (no step of the
    // specification), the events before it are kept
    let buf: RefCell<Vec<Value>> = RefCell::new(vec![]);
    let emit = |v: Value| buf.borrow_mut().push(v);
    let mut flush = |buf: &RefCell<Vec<Value>>, res: std::thread::Result<()>| {
        use std::io::Write;
        if let Err(e) = res {
            panics += 1;
            let m = if let Some(s) = e.downcast_ref::<&str>() { s.to_string() } else if let Some(s) = e.downcast_ref::<String>() { s.clone() } else { "panic".into() };
            buf.borrow_mut().push(json!({"ev": "panic", "msg": m}));
        }
        for v in buf.borrow_mut().drain(..) { serde_json::to_writer(&mut out, &v).unwrap(); out.write_all(b"\n").unwrap(); lines += 1; }
    };
    std::panic::set_hook(Box::new(|_| {}));
    let mut runs = 0u64;
    let (mut steps, mut agree, mut skipped, mut frames_total) = (0u64, 0u64, 0u64, 0u64);
    let mut idgen = InternalConnectionIdGenerator::new();
    if let Some(spec) = source.strip_prefix("random:") {
        let mut it = spec.split(':');
        let count: u64 = it.next().unwrap().parse().unwrap();
        let seed: u64 = it.next().unwrap().parse().unwrap();
        let mut rng = StdRng::seed_from_u64(seed ^ 0xc1d);
        for _ in 0..count {
            let limit = [2u64, 2, 3, 4, 8][rng.random_range(0..5)];
            let rotate = rng.random_bool(0.6);
            let lifetime_us = [0u64, 60_000_000, 75_000_000, 120_000_000][rng.random_range(0..4)];
            let rtt_us = [1_000u64, 50_000, 400_000][rng.random_range(0..3)];
            let res = std::panic::catch_unwind(std::panic::AssertUnwindSafe(|| {
            let (mut a, b) = new_pair(runs, limit, rotate, lifetime_us, rtt_us, &mut idgen);
            runs += 1;
            let mut now = 0u64;
            emit(merge(json!({"ev": "reset", "limit": limit, "rotate": rotate, "lifetime": lifetime_us}), a.obs(now, &b)));
            let mut confirmed = false;
            let mut inflight: Vec<u64> = vec![];
            let mut issued: Vec<u64> = vec![0];
            let mut retired: Vec<u64> = vec![];
            let n = rng.random_range(10..160);
            for _ in 0..n {
                let r = rng.random_range(0..100);
                let ev = if r < 22 {
                    // the connection creates ids only while the registry asks for them
                    if a.interest() == 0 { continue; }
                    if rng.random_bool(0.8) { let mut last = Value::Null; let mut first = true; while a.interest() > 0 { if !first { emit(merge(last.clone(), a.obs(now, &b))); } last = a.register(now); first = false; } last } else { a.register(now) }
                } else if r < 45 {
                    let k = [1usize, 2, 100][rng.random_range(0..3)];
                    let ev = a.transmit(k, rng.random_bool(0.2), now);
                    if !ev["frames"].as_array().unwrap().is_empty() { inflight.push(ev["pn"].as_u64().unwrap()); }
                    for f in ev["frames"].as_array().unwrap() { let s = f["seq"].as_i64().unwrap(); if s >= 0 && !issued.contains(&(s as u64)) { issued.push(s as u64); } }
                    frames_total += ev["frames"].as_array().unwrap().len() as u64;
                    ev
                } else if r < 62 {
                    if inflight.is_empty() { continue; }
                    let p = inflight.remove(rng.random_range(0..inflight.len()));
                    a.acked(p, rng.random_bool(0.35))
                } else if r < 74 {
                    // an honest peer retires an id it holds, in a packet addressed to another id it holds
                    let held: Vec<u64> = issued.iter().copied().filter(|s| !retired.contains(s)).collect();
                    if held.len() < 2 { continue; }
                    let s = held[rng.random_range(0..held.len())];
                    let others: Vec<u64> = held.iter().copied().filter(|x| *x != s).collect();
                    let d = others[rng.random_range(0..others.len())];
                    retired.push(s);
                    a.retire(s, d, now)
                } else if r < 78 {
                    // a misbehaving peer: unknown sequence number, or the id the packet is addressed to
                    if rng.random_bool(0.5) { a.retire(a.next + rng.random_range(0..3), 0, now) } else { let s = issued[rng.random_range(0..issued.len())]; if retired.contains(&s) { continue; } a.retire(s, s, now) }
                } else if r < 82 {
                    if confirmed { continue; }
                    confirmed = true;
                    a.r.on_handshake_confirmed();
                    json!({"ev": "confirm"})
                } else {
                    now += [1_000u64, 100_000, 2_000_000, 10_000_000, 31_000_000, 61_000_000][rng.random_range(0..6)];
                    match a.r.next_expiration() {
                        Some(t) if t <= ts(now) && rng.random_bool(0.9) => { a.r.on_timeout(ts(now)); json!({"ev": "timeout"}) }
                        _ => json!({"ev": "tick"}),
                    }
                };
                steps += 1;
                emit(merge(ev, a.obs(now, &b)));
            }
            // the other connection still owns its ids
            emit(merge(json!({"ev": "other"}), b.obs(now, &a)));
            }));
            flush(&buf, res);
        }
    } else {
        // behaviours of the LocalIds machine: one tick = 15 s, RTT = 5 s
        const TICK: u64 = 15_000_000;
        let mut seen = std::collections::HashSet::new();
        for line in std::fs::read_to_string(source).unwrap().lines() {
            // TLC prints each behaviour as a quoted JSON string, possibly more than once
            if !line.starts_with("\"[") || !seen.insert(line.to_string()) { continue; }
            let inner: String = match serde_json::from_str(line) { Ok(v) => v, Err(_) => continue };
            let h: Vec<Value> = match serde_json::from_str(&inner) { Ok(v) => v, Err(_) => continue };
            let init = &h[0];
            let lifetime_us = init["lifetime"].as_u64().unwrap() * TICK;
            let res = std::panic::catch_unwind(std::panic::AssertUnwindSafe(|| {
            let (mut a, b) = new_pair(runs, init["limit"].as_u64().unwrap(), init["rotate"].as_bool().unwrap(), lifetime_us, 5_000_000, &mut idgen);
            runs += 1;
            let mut now = 0u64;
            emit(merge(json!({"ev": "reset", "limit": init["limit"], "rotate": init["rotate"], "lifetime": lifetime_us}), a.obs(now, &b)));
            // the machine numbers packets from 1; the frame buffer from 0
            let mut pnmap: std::collections::HashMap<u64, u64> = Default::default();
            let mut mpn = 1u64;
            for st in &h[1..] {
                let op = st["op"].as_str().unwrap();
                let ev = match op {
                    "register" => { if a.interest() == 0 { skipped += 1; continue; } a.register(now) }
                    "transmit" => {
                        let ev = a.transmit(st["k"].as_u64().unwrap() as usize, st["lostonly"].as_bool().unwrap(), now);
                        pnmap.insert(mpn, ev["pn"].as_u64().unwrap());
                        mpn += 1;
                        let wrote: Vec<u64> = ev["frames"].as_array().unwrap().iter().map(|f| f["seq"].as_i64().unwrap() as u64).collect();
                        let expect: Vec<u64> = st["wrote"].as_array().unwrap().iter().map(|x| x.as_u64().unwrap()).collect();
                        let rpt_ok = ev["frames"].as_array().unwrap().iter().all(|f| f["rpt"].as_u64() == st["m"]["rpt"].as_u64());
                        if wrote == expect && rpt_ok { agree += 1; }
                        frames_total += wrote.len() as u64;
                        ev
                    }
                    "ack" | "lose" => { let p = match pnmap.get(&st["pn"].as_u64().unwrap()) { Some(p) => *p, None => { skipped += 1; continue; } }; a.acked(p, op == "lose") }
                    "retire" => a.retire(st["seq"].as_u64().unwrap(), st["dcid"].as_u64().unwrap(), now),
                    "confirm" => { a.r.on_handshake_confirmed(); json!({"ev": "confirm"}) }
                    "tick" => { now += TICK; json!({"ev": "tick"}) }
                    "timeout" => { a.r.on_timeout(ts(now)); json!({"ev": "timeout"}) }
                    _ => continue,
                };
                steps += 1;
                if op != "transmit" {
                    // the machine's routing table against the real one
                    let live: Vec<u64> = st["m"]["live"].as_array().unwrap().iter().map(|x| x.as_u64().unwrap()).collect();
                    let o = a.obs(now, &b);
                    let routes: Vec<u64> = o["routes"].as_array().unwrap().iter().map(|x| x.as_u64().unwrap()).collect();
                    if live == routes { agree += 1; }
                    emit(merge(ev, o));
                } else {
                    emit(merge(ev, a.obs(now, &b)));
                }
            }
            emit(merge(json!({"ev": "other"}), b.obs(now, &a)));
            }));
            flush(&buf, res);
        }
    }
    drop(flush);
    json!({"panics": panics, "events": lines, "runs": runs, "steps": steps, "steps_agreeing_with_machine": agree, "skipped_ops": skipped, "frames": frames_total})
}

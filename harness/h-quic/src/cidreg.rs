//! C13 (component level): the real LocalIdRegistry + ConnectionIdMapper (reached through the cfg(aws_s2n_quic_verif)
//! re-export) driven with call sequences enumerated by TLC (Gen_LocalIds) or drawn at random.  Every call is one
//! event for Trace_LocalIds: the NEW_CONNECTION_ID frames the registry wrote (sequence number, retire_prior_to, which
//! registered id/token the frame carries), the result of a peer's RETIRE_CONNECTION_ID, and after every call the ids
//! that the endpoint-wide mapper still routes to this connection.
use rand::{rngs::StdRng, Rng, SeedableRng};
use s2n_quic_core::{
    connection, endpoint,
    frame::FrameMut,
    packet::number::{PacketNumber, PacketNumberRange, PacketNumberSpace},
    random, stateless_reset,
    time::{timer::Provider as _, Timestamp},
    transmission::{self, interest::Provider as _, writer::testing::{OutgoingFrameBuffer, Writer}},
    varint::VarInt,
};
use s2n_quic_transport::verif::{ConnectionIdMapper, InternalConnectionId, InternalConnectionIdGenerator, LocalIdRegistry};
use serde_json::{json, Value};
use std::{cell::RefCell, rc::Rc, time::Duration};

fn ts(us: u64) -> Timestamp { unsafe { Timestamp::from_duration(Duration::from_micros(us + 1_000_000)) } }
fn pn(x: u64) -> PacketNumber { PacketNumberSpace::ApplicationData.new_packet_number(VarInt::new(x).unwrap()) }
fn cid(conn: u64, seq: u64) -> connection::LocalId {
    let mut b = [0u8; 8];
    b[..4].copy_from_slice(&(0xc0de_0000u32 + conn as u32).to_be_bytes());
    b[4..].copy_from_slice(&(seq as u32).to_be_bytes());
    connection::LocalId::try_from_bytes(&b).unwrap()
}
fn token(conn: u64, seq: u64) -> stateless_reset::Token {
    let mut b = [0x5au8; 16];
    b[..8].copy_from_slice(&(conn + 1).to_be_bytes());
    b[8..].copy_from_slice(&(seq + 1).to_be_bytes());
    b.into()
}

struct Reg {
    conn: u64,
    internal: InternalConnectionId,
    mapper: Rc<RefCell<ConnectionIdMapper>>,
    r: LocalIdRegistry,
    fb: OutgoingFrameBuffer,
    next: u64,        // sequence numbers handed to the registry so far
    lifetime_us: u64, // 0 = none
    rtt_us: u64,
}

impl Reg {
    fn new(conn: u64, limit: u64, rotate: bool, lifetime_us: u64, rtt_us: u64, mapper: Rc<RefCell<ConnectionIdMapper>>, internal: InternalConnectionId) -> Reg {
        let exp = if lifetime_us > 0 { Some(ts(lifetime_us)) } else { None };
        let mut r = mapper.borrow_mut().create_local_id_registry(internal, &cid(conn, 0), exp, token(conn, 0), rotate);
        r.set_active_connection_id_limit(limit);
        let mut fb = OutgoingFrameBuffer::new();
        fb.set_max_packet_size(Some(1200));
        Reg { conn, internal, mapper, r, fb, next: 1, lifetime_us, rtt_us }
    }
    fn interest(&self) -> u64 {
        match self.r.connection_id_interest() { connection::id::Interest::New(n) => n as u64, _ => 0 }
    }
    /// the observation attached to every event
    fn obs(&self, now: u64, other: &Reg) -> Value {
        let mut routes = vec![];
        let mut stray = vec![];
        for s in 0..self.next {
            match self.mapper.borrow().lookup_internal_connection_id(&cid(self.conn, s)) {
                Some((id, _)) if id == self.internal => routes.push(s),
                Some(_) => stray.push(s),
                None => {}
            }
        }
        // the other connection's ids never route here
        for s in 0..other.next {
            if let Some((id, _)) = self.mapper.borrow().lookup_internal_connection_id(&cid(other.conn, s)) {
                if id == self.internal { stray.push(1000 + s); }
            }
        }
        let deadline = self.r.next_expiration().map(|t| t.saturating_duration_since(ts(0)).as_micros() as u64);
        json!({"t": now, "routes": routes, "stray": stray, "interest": self.interest(), "armed": deadline.is_some(), "deadline": deadline.unwrap_or(0),
               "tx": format!("{:?}", self.r.get_transmission_interest())})
    }
    fn register(&mut self, now: u64) -> Value {
        let s = self.next;
        let exp_us = if self.lifetime_us > 0 { now + self.lifetime_us } else { 0 };
        let exp = if exp_us > 0 { Some(ts(exp_us)) } else { None };
        let ok = self.r.register_connection_id(&cid(self.conn, s), exp, token(self.conn, s)).is_ok();
        if ok { self.next += 1; }
        json!({"ev": "register", "seq": s, "exp": exp_us, "ok": ok})
    }
    fn transmit(&mut self, k: usize, lost_only: bool, now: u64) -> Value {
        self.fb.set_error_write_after_n_frames(k);
        let before = self.fb.len();
        let constraint = if lost_only { transmission::Constraint::RetransmissionOnly } else { transmission::Constraint::None };
        let mut w = Writer::new(ts(now), &mut self.fb, constraint, transmission::Mode::Normal, endpoint::Type::Server);
        let our_pn = { use s2n_quic_core::transmission::Writer as _; w.packet_number().as_u64() };
        self.r.on_transmit(&mut w);
        let mut frames = vec![];
        for i in before..self.fb.len() {
            let mut wf = self.fb.frames[i].clone();
            let fpn = wf.packet_nr.as_u64();
            if let FrameMut::NewConnectionId(f) = wf.as_frame() {
                let seq = f.sequence_number.as_u64();
                // which registered id / token does the frame carry (index = sequence number it was registered under)
                let c = (0..self.next).find(|s| cid(self.conn, *s).as_bytes() == f.connection_id).map(|s| s as i64).unwrap_or(-1);
                let t = (0..self.next).find(|s| token(self.conn, *s).as_ref() == &f.stateless_reset_token[..]).map(|s| s as i64).unwrap_or(-1);
                frames.push(json!({"seq": seq, "rpt": f.retire_prior_to.as_u64(), "cid": c, "tok": t, "pn": fpn}));
            } else {
                frames.push(json!({"seq": -1, "rpt": 0, "cid": -1, "tok": -1, "pn": fpn}));
            }
        }
        self.fb.flush();
        self.fb.set_error_write_after_n_frames(1 << 30);
        json!({"ev": "transmit", "k": k, "lostonly": lost_only, "pn": our_pn, "frames": frames})
    }
    fn acked(&mut self, p: u64, lost: bool) -> Value {
        let set = PacketNumberRange::new(pn(p), pn(p));
        if lost { self.r.on_packet_loss(&set); } else { self.r.on_packet_ack(&set); }
        json!({"ev": if lost { "lose" } else { "ack" }, "pn": p})
    }
    fn retire(&mut self, seq: u64, dcid_seq: u64, now: u64) -> Value {
        let ok = self.r.on_retire_connection_id(seq as u32, &cid(self.conn, dcid_seq), Duration::from_micros(self.rtt_us), ts(now)).is_ok();
        json!({"ev": "retire", "seq": seq, "dcid": dcid_seq, "ok": ok})
    }
}

/// the registry under test and a second connection on the same endpoint-wide mapper: its ids must stay its own
fn new_pair(run: u64, limit: u64, rotate: bool, lifetime_us: u64, rtt_us: u64, idgen: &mut InternalConnectionIdGenerator) -> (Reg, Reg) {
    let mut rg = random::testing::Generator(7);
    let mapper = Rc::new(RefCell::new(ConnectionIdMapper::new(&mut rg, endpoint::Type::Server)));
    let a = Reg::new(run * 2, limit, rotate, lifetime_us, rtt_us, mapper.clone(), idgen.generate_id());
    let mut b = Reg::new(run * 2 + 1, 2, false, 0, rtt_us, mapper, idgen.generate_id());
    let _ = b.register(0);
    (a, b)
}

fn merge(mut a: Value, b: Value) -> Value {
    for (k, v) in b.as_object().unwrap() { a[k.as_str()] = v.clone(); }
    a
}

pub fn run(args: &[String]) -> Value {
    let source = &args[0];
    let mut out = std::io::BufWriter::new(std::fs::File::create(&args[1]).unwrap());
    let mut lines = 0u64;
    let mut panics = 0u64;
    // events of the run in progress; a panic of the code under test ends the run with a "panic" event (no step of the
    // specification), the events before it are kept
    let buf: RefCell<Vec<Value>> = RefCell::new(vec![]);
    let emit = |v: Value| buf.borrow_mut().push(v);
    let mut flush = |buf: &RefCell<Vec<Value>>, res: std::thread::Result<()>| {
        use std::io::Write;
        if let Err(e) = res {
            panics += 1;
            let m = if let Some(s) = e.downcast_ref::<&str>() { s.to_string() } else if let Some(s) = e.downcast_ref::<String>() { s.clone() } else { "panic".into() };
            buf.borrow_mut().push(json!({"ev": "panic", "msg": m}));
        }
        for v in buf.borrow_mut().drain(..) { serde_json::to_writer(&mut out, &v).unwrap(); out.write_all(b"\n").unwrap(); lines += 1; }
    };
    std::panic::set_hook(Box::new(|_| {}));
    let mut runs = 0u64;
    let (mut steps, mut agree, mut skipped, mut frames_total) = (0u64, 0u64, 0u64, 0u64);
    let mut idgen = InternalConnectionIdGenerator::new();
    if let Some(spec) = source.strip_prefix("random:") {
        let mut it = spec.split(':');
        let count: u64 = it.next().unwrap().parse().unwrap();
        let seed: u64 = it.next().unwrap().parse().unwrap();
        let mut rng = StdRng::seed_from_u64(seed ^ 0xc1d);
        for _ in 0..count {
            let limit = [2u64, 2, 3, 4, 8][rng.random_range(0..5)];
            let rotate = rng.random_bool(0.6);
            let lifetime_us = [0u64, 60_000_000, 75_000_000, 120_000_000][rng.random_range(0..4)];
            let rtt_us = [1_000u64, 50_000, 400_000][rng.random_range(0..3)];
            let res = std::panic::catch_unwind(std::panic::AssertUnwindSafe(|| {
            let (mut a, b) = new_pair(runs, limit, rotate, lifetime_us, rtt_us, &mut idgen);
            runs += 1;
            let mut now = 0u64;
            emit(merge(json!({"ev": "reset", "limit": limit, "rotate": rotate, "lifetime": lifetime_us}), a.obs(now, &b)));
            let mut confirmed = false;
            let mut inflight: Vec<u64> = vec![];
            let mut issued: Vec<u64> = vec![0];
            let mut retired: Vec<u64> = vec![];
            let n = rng.random_range(10..160);
            for _ in 0..n {
                let r = rng.random_range(0..100);
                let ev = if r < 22 {
                    // the connection creates ids only while the registry asks for them
                    if a.interest() == 0 { continue; }
                    if rng.random_bool(0.8) { let mut last = Value::Null; let mut first = true; while a.interest() > 0 { if !first { emit(merge(last.clone(), a.obs(now, &b))); } last = a.register(now); first = false; } last } else { a.register(now) }
                } else if r < 45 {
                    let k = [1usize, 2, 100][rng.random_range(0..3)];
                    let ev = a.transmit(k, rng.random_bool(0.2), now);
                    if !ev["frames"].as_array().unwrap().is_empty() { inflight.push(ev["pn"].as_u64().unwrap()); }
                    for f in ev["frames"].as_array().unwrap() { let s = f["seq"].as_i64().unwrap(); if s >= 0 && !issued.contains(&(s as u64)) { issued.push(s as u64); } }
                    frames_total += ev["frames"].as_array().unwrap().len() as u64;
                    ev
                } else if r < 62 {
                    if inflight.is_empty() { continue; }
                    let p = inflight.remove(rng.random_range(0..inflight.len()));
                    a.acked(p, rng.random_bool(0.35))
                } else if r < 74 {
                    // an honest peer retires an id it holds, in a packet addressed to another id it holds
                    let held: Vec<u64> = issued.iter().copied().filter(|s| !retired.contains(s)).collect();
                    if held.len() < 2 { continue; }
                    let s = held[rng.random_range(0..held.len())];
                    let others: Vec<u64> = held.iter().copied().filter(|x| *x != s).collect();
                    let d = others[rng.random_range(0..others.len())];
                    retired.push(s);
                    a.retire(s, d, now)
                } else if r < 78 {
                    // a misbehaving peer: unknown sequence number, or the id the packet is addressed to
                    if rng.random_bool(0.5) { a.retire(a.next + rng.random_range(0..3), 0, now) } else { let s = issued[rng.random_range(0..issued.len())]; if retired.contains(&s) { continue; } a.retire(s, s, now) }
                } else if r < 82 {
                    if confirmed { continue; }
                    confirmed = true;
                    a.r.on_handshake_confirmed();
                    json!({"ev": "confirm"})
                } else {
                    now += [1_000u64, 100_000, 2_000_000, 10_000_000, 31_000_000, 61_000_000][rng.random_range(0..6)];
                    match a.r.next_expiration() {
                        Some(t) if t <= ts(now) && rng.random_bool(0.9) => { a.r.on_timeout(ts(now)); json!({"ev": "timeout"}) }
                        _ => json!({"ev": "tick"}),
                    }
                };
                steps += 1;
                emit(merge(ev, a.obs(now, &b)));
            }
            // the other connection still owns its ids
            emit(merge(json!({"ev": "other"}), b.obs(now, &a)));
            }));
            flush(&buf, res);
        }
    } else {
        // behaviours of the LocalIds machine: one tick = 15 s, RTT = 5 s
        const TICK: u64 = 15_000_000;
        let mut seen = std::collections::HashSet::new();
        let cap: usize = args.get(2).and_then(|x| x.parse().ok()).unwrap_or(usize::MAX);
        for line in std::fs::read_to_string(source).unwrap().lines() {
            // TLC prints each behaviour as a quoted JSON string, possibly more than once
            if !line.starts_with("\"[") || seen.len() >= cap || !seen.insert(line.to_string()) { continue; }
            let inner: String = match serde_json::from_str(line) { Ok(v) => v, Err(_) => continue };
            let h: Vec<Value> = match serde_json::from_str(&inner) { Ok(v) => v, Err(_) => continue };
            let init = &h[0];
            let lifetime_us = init["lifetime"].as_u64().unwrap() * TICK;
            let res = std::panic::catch_unwind(std::panic::AssertUnwindSafe(|| {
            let (mut a, b) = new_pair(runs, init["limit"].as_u64().unwrap(), init["rotate"].as_bool().unwrap(), lifetime_us, 5_000_000, &mut idgen);
            runs += 1;
            let mut now = 0u64;
            emit(merge(json!({"ev": "reset", "limit": init["limit"], "rotate": init["rotate"], "lifetime": lifetime_us}), a.obs(now, &b)));
            // the machine numbers packets from 1; the frame buffer from 0
            let mut pnmap: std::collections::HashMap<u64, u64> = Default::default();
            let mut mpn = 1u64;
            // what the (honest) peer holds in THIS run: ids whose NEW_CONNECTION_ID frame the real registry transmitted
            let mut held: Vec<u64> = vec![0];
            for st in &h[1..] {
                let op = st["op"].as_str().unwrap();
                let ev = match op {
                    "register" => { if a.interest() == 0 { skipped += 1; continue; } a.register(now) }
                    "transmit" => {
                        let ev = a.transmit(st["k"].as_u64().unwrap() as usize, st["lostonly"].as_bool().unwrap(), now);
                        pnmap.insert(mpn, ev["pn"].as_u64().unwrap());
                        mpn += 1;
                        let wrote: Vec<u64> = ev["frames"].as_array().unwrap().iter().map(|f| f["seq"].as_i64().unwrap() as u64).collect();
                        for s in &wrote { if !held.contains(s) { held.push(*s); } }
                        let expect: Vec<u64> = st["wrote"].as_array().unwrap().iter().map(|x| x.as_u64().unwrap()).collect();
                        let rpt_ok = ev["frames"].as_array().unwrap().iter().all(|f| f["rpt"].as_u64() == st["m"]["rpt"].as_u64());
                        if wrote == expect && rpt_ok { agree += 1; }
                        frames_total += wrote.len() as u64;
                        ev
                    }
                    "ack" | "lose" => { let p = match pnmap.get(&st["pn"].as_u64().unwrap()) { Some(p) => *p, None => { skipped += 1; continue; } }; a.acked(p, op == "lose") }
                    "retire" => {
                        // should the real registry have gone another way than the machine (e.g. a smaller limit), the peer of
                        // this run can only retire what it was really given, in a packet addressed to another id it holds
                        let (s, d) = (st["seq"].as_u64().unwrap(), st["dcid"].as_u64().unwrap());
                        if !held.contains(&s) || !held.contains(&d) { skipped += 1; continue; }
                        held.retain(|x| *x != s);
                        a.retire(s, d, now)
                    }
                    "confirm" => { a.r.on_handshake_confirmed(); json!({"ev": "confirm"}) }
                    "tick" => { now += TICK; json!({"ev": "tick"}) }
                    "timeout" => { a.r.on_timeout(ts(now)); json!({"ev": "timeout"}) }
                    _ => continue,
                };
                steps += 1;
                if op != "transmit" {
                    // the machine's routing table against the real one
                    let live: Vec<u64> = st["m"]["live"].as_array().unwrap().iter().map(|x| x.as_u64().unwrap()).collect();
                    let o = a.obs(now, &b);
                    let routes: Vec<u64> = o["routes"].as_array().unwrap().iter().map(|x| x.as_u64().unwrap()).collect();
                    if live == routes { agree += 1; }
                    emit(merge(ev, o));
                } else {
                    emit(merge(ev, a.obs(now, &b)));
                }
            }
            emit(merge(json!({"ev": "other"}), b.obs(now, &a)));
            }));
            flush(&buf, res);
        }
    }
    drop(flush);
    json!({"panics": panics, "events": lines, "runs": runs, "steps": steps, "steps_agreeing_with_machine": agree, "skipped_ops": skipped, "frames": frames_total})
}

// ------------------------------------------------------------------------------------------------ receiver side
use s2n_quic_transport::verif::PeerIdRegistry;

fn pcid(idx: u64) -> connection::PeerId {
    let mut b = [0u8; 8];
    b[..4].copy_from_slice(&0xbeef_0000u32.to_be_bytes());
    b[4..].copy_from_slice(&(idx as u32).to_be_bytes());
    connection::PeerId::try_from_bytes(&b).unwrap()
}
fn ptoken(idx: u64) -> stateless_reset::Token {
    let mut b = [0xa5u8; 16];
    b[8..].copy_from_slice(&(idx + 1).to_be_bytes());
    b.into()
}

struct PReg { r: PeerIdRegistry, fb: OutgoingFrameBuffer, max_idx: u64, seq_of_cid: std::collections::HashMap<u64, u64> }

impl PReg {
    fn new(rotate: bool, idgen: &mut InternalConnectionIdGenerator) -> PReg {
        let mut rg = random::testing::Generator(9);
        let mut mapper = ConnectionIdMapper::new(&mut rg, endpoint::Type::Server);
        let r = mapper.create_server_peer_id_registry(idgen.generate_id(), pcid(0), rotate);
        let mut fb = OutgoingFrameBuffer::new();
        fb.set_max_packet_size(Some(1200));
        PReg { r, fb, max_idx: 0, seq_of_cid: [(0u64, 0u64)].into_iter().collect() }
    }
    /// sequence numbers of the ids the registry calls usable (an id value is reported under the sequence number of the
    /// accepted frame that carried it)
    fn active(&self) -> Vec<u64> { let mut v: Vec<u64> = (0..=self.max_idx).filter(|i| self.r.is_active(&pcid(*i))).map(|i| *self.seq_of_cid.get(&i).unwrap_or(&(1000 + i))).collect(); v.sort(); v }
    fn obs(&self) -> Value { json!({"active": self.active(), "tx": format!("{:?}", self.r.get_transmission_interest())}) }
    fn newcid(&mut self, seq: u64, rpt: u64, cid: u64, tok: u64) -> Value {
        self.max_idx = self.max_idx.max(cid).max(seq);
        let res = match self.r.on_new_connection_id(&pcid(cid), seq as u32, rpt as u32, &ptoken(tok)) {
            Ok(()) => { self.seq_of_cid.insert(cid, seq); "ok".to_string() }
            Err(e) => match format!("{e:?}").as_str() { "InvalidNewConnectionId" => "invalid".into(), "ExceededActiveConnectionIdLimit" => "active_limit".into(), "ExceededRetiredConnectionIdLimit" => "retired_limit".into(), o => o.to_string() },
        };
        json!({"ev": "newcid", "seq": seq, "rpt": rpt, "cid": cid, "tok": tok, "result": res})
    }
    fn consume(&mut self) -> Value {
        let got = self.r.consume_new_id_for_new_path().map(|id| (0..=self.max_idx).find(|i| pcid(*i) == id).map(|i| *self.seq_of_cid.get(&i).unwrap_or(&(1000 + i)) as i64).unwrap_or(-2)).unwrap_or(-1);
        json!({"ev": "consume", "got": got})
    }
    fn transmit(&mut self, k: usize, lost_only: bool) -> Value {
        self.fb.set_error_write_after_n_frames(k);
        let before = self.fb.len();
        let constraint = if lost_only { transmission::Constraint::RetransmissionOnly } else { transmission::Constraint::None };
        let mut w = Writer::new(ts(0), &mut self.fb, constraint, transmission::Mode::Normal, endpoint::Type::Server);
        let our_pn = { use s2n_quic_core::transmission::Writer as _; w.packet_number().as_u64() };
        self.r.on_transmit(&mut w);
        let mut frames = vec![];
        for i in before..self.fb.len() {
            let mut wf = self.fb.frames[i].clone();
            if let FrameMut::RetireConnectionId(f) = wf.as_frame() { frames.push(f.sequence_number.as_u64() as i64); } else { frames.push(-1); }
        }
        self.fb.flush();
        self.fb.set_error_write_after_n_frames(1 << 30);
        json!({"ev": "transmit", "k": k, "lostonly": lost_only, "pn": our_pn, "frames": frames})
    }
    fn acked(&mut self, p: u64, lost: bool) -> Value {
        let set = PacketNumberRange::new(pn(p), pn(p));
        if lost { self.r.on_packet_loss(&set); } else { self.r.on_packet_ack(&set); }
        json!({"ev": if lost { "lose" } else { "ack" }, "pn": p})
    }
}

/// peerreg-run <behaviours.txt | random:<count>:<seed>> <out.ndjson>
pub fn run_peer(args: &[String]) -> Value {
    let source = &args[0];
    let mut out = std::io::BufWriter::new(std::fs::File::create(&args[1]).unwrap());
    let (mut lines, mut panics, mut runs, mut steps, mut agree, mut refused) = (0u64, 0u64, 0u64, 0u64, 0u64, 0u64);
    let buf: RefCell<Vec<Value>> = RefCell::new(vec![]);
    let emit = |v: Value| buf.borrow_mut().push(v);
    let mut flush = |buf: &RefCell<Vec<Value>>, res: std::thread::Result<()>| {
        use std::io::Write;
        if let Err(e) = res {
            panics += 1;
            let m = if let Some(s) = e.downcast_ref::<&str>() { s.to_string() } else if let Some(s) = e.downcast_ref::<String>() { s.clone() } else { "panic".into() };
            buf.borrow_mut().push(json!({"ev": "panic", "msg": m}));
        }
        for v in buf.borrow_mut().drain(..) { serde_json::to_writer(&mut out, &v).unwrap(); out.write_all(b"\n").unwrap(); lines += 1; }
    };
    std::panic::set_hook(Box::new(|_| {}));
    let mut idgen = InternalConnectionIdGenerator::new();
    if let Some(spec) = source.strip_prefix("random:") {
        let mut it = spec.split(':');
        let count: u64 = it.next().unwrap().parse().unwrap();
        let seed: u64 = it.next().unwrap().parse().unwrap();
        let mut rng = StdRng::seed_from_u64(seed ^ 0x9ee2);
        for _ in 0..count {
            let rotate = rng.random_bool(0.5);
            let res = std::panic::catch_unwind(std::panic::AssertUnwindSafe(|| {
                let mut a = PReg::new(rotate, &mut idgen);
                runs += 1;
                emit(merge(json!({"ev": "reset", "rotate": rotate}), a.obs()));
                // what an honest issuer keeps track of: ids issued, its own retire_prior_to, ids it knows to be retired
                let (mut next, mut rpt) = (1u64, 0u64);
                let mut inflight: Vec<(u64, Vec<u64>)> = vec![];
                let mut told_retired: Vec<u64> = vec![];   // RETIRE frames that reached the issuer (acknowledged packets)
                let misbehaves = rng.random_bool(0.3);
                let n = rng.random_range(10..120);
                for _ in 0..n {
                    let r = rng.random_range(0..100);
                    let ev = if r < 30 {
                        // a fresh id; the issuer sometimes raises retire_prior_to with it, and stays within the limit of 3
                        // usable ids as far as it knows (ids below retire_prior_to and ids it was told are retired do not count)
                        if rng.random_bool(0.12) { rpt = rng.random_range(rpt..=next); }
                        if !(misbehaves && rng.random_bool(0.2)) {
                            loop {
                                let held: Vec<u64> = (0..next).filter(|k| *k >= rpt && !told_retired.contains(k)).collect();
                                if held.len() < 3 { break; }
                                rpt = held[0] + 1;
                            }
                        }
                        let e = a.newcid(next, rpt, next, next);
                        next += 1;
                        e
                    } else if r < 34 && next > 1 {
                        // a late or repeated copy of an earlier frame, with the retire_prior_to of then or of now
                        let s = rng.random_range(1..next);
                        a.newcid(s, if rng.random_bool(0.5) { rpt.min(s) } else { rng.random_range(0..=rpt.min(s)) }, s, s)
                    } else if r < 47 && next > 1 && misbehaves {
                        // a misbehaving issuer: an id or token used twice, a sequence number with another id
                        let s = rng.random_range(1..=next);
                        let (c, t) = match rng.random_range(0..3) { 0 => (rng.random_range(0..next), s), 1 => (s, rng.random_range(1..next.max(2))), _ => (next + 7, s.min(next - 1).max(1)) };
                        a.newcid(s, rpt.min(s), c, t)
                    } else if r < 60 { a.consume() }
                    else if r < 80 { let e = a.transmit([1usize, 2, 100][rng.random_range(0..3)], rng.random_bool(0.2)); if !e["frames"].as_array().unwrap().is_empty() { inflight.push((e["pn"].as_u64().unwrap(), e["frames"].as_array().unwrap().iter().filter_map(|x| x.as_u64()).collect())); } e }
                    else { if inflight.is_empty() { continue; } let (p, seqs) = inflight.remove(rng.random_range(0..inflight.len())); let lost = rng.random_bool(0.35); if !lost { told_retired.extend(seqs); } a.acked(p, lost) };
                    steps += 1;
                    let failed = ev["ev"] == "newcid" && ev["result"] != "ok";
                    emit(merge(ev, a.obs()));
                    if failed { refused += 1; break; }
                }
            }));
            flush(&buf, res);
        }
    } else {
        let mut seen = std::collections::HashSet::new();
        let cap: usize = args.get(2).and_then(|x| x.parse().ok()).unwrap_or(usize::MAX);
        for line in std::fs::read_to_string(source).unwrap().lines() {
            if !line.starts_with("\"[") || seen.len() >= cap || !seen.insert(line.to_string()) { continue; }
            let inner: String = match serde_json::from_str(line) { Ok(v) => v, Err(_) => continue };
            let h: Vec<Value> = match serde_json::from_str(&inner) { Ok(v) => v, Err(_) => continue };
            let res = std::panic::catch_unwind(std::panic::AssertUnwindSafe(|| {
                let mut a = PReg::new(h[0]["rotate"].as_bool().unwrap(), &mut idgen);
                runs += 1;
                emit(merge(json!({"ev": "reset", "rotate": h[0]["rotate"]}), a.obs()));
                let mut pnmap: std::collections::HashMap<u64, u64> = Default::default();
                let mut mpn = 1u64;
                for st in &h[1..] {
                    let op = st["op"].as_str().unwrap();
                    let ev = match op {
                        "newcid" => a.newcid(st["seq"].as_u64().unwrap(), st["rpt"].as_u64().unwrap(), st["cid"].as_u64().unwrap(), st["tok"].as_u64().unwrap()),
                        "consume" => a.consume(),
                        "transmit" => { let e = a.transmit(st["k"].as_u64().unwrap() as usize, st["lostonly"].as_bool().unwrap()); pnmap.insert(mpn, e["pn"].as_u64().unwrap()); mpn += 1; e }
                        "ack" | "lose" => { let Some(p) = pnmap.get(&st["pn"].as_u64().unwrap()) else { continue }; a.acked(*p, op == "lose") }
                        _ => continue,
                    };
                    steps += 1;
                    let o = a.obs();
                    let same_verdict = op != "newcid" || (ev["result"] == "ok") == (st["m"]["failed"] == "no");
                    if o["active"] == st["m"]["active"] && same_verdict { agree += 1; }
                    let failed = ev["ev"] == "newcid" && ev["result"] != "ok";
                    emit(merge(ev, o));
                    if failed { refused += 1; break; }
                }
            }));
            flush(&buf, res);
        }
    }
    drop(flush);
    json!({"panics": panics, "events": lines, "runs": runs, "steps": steps, "steps_agreeing_with_machine": agree, "runs_ending_in_a_refused_frame": refused})
}

//! runs one scenario: real Client + Server on the deterministic testing IO with AdvNet between them
use crate::{apps, common::*, net::AdvNet, rec, scen::*};
use rand::{RngCore, SeedableRng};
use rand_chacha::ChaCha8Rng;
use s2n_quic::{
    client::Connect,
    provider::{
        congestion_controller as cc,
        io::testing::{self as io, primary, Executor},
        limits,
    },
    Client, Server,
};
use s2n_quic_core::crypto::tls::testing::certificates;
use serde_json::{json, Value};
use std::{sync::{atomic::{AtomicBool, AtomicI64, Ordering}, Arc}, time::Duration};

pub struct Random(ChaCha8Rng);
impl Random {
    pub fn new(seed: u64) -> Self {
        Self(ChaCha8Rng::seed_from_u64(seed))
    }
}
impl s2n_quic::provider::random::Provider for Random {
    type Generator = Self;
    type Error = core::convert::Infallible;
    fn start(self) -> Result<Self, Self::Error> {
        Ok(self)
    }
}
impl s2n_quic::provider::random::Generator for Random {
    fn public_random_fill(&mut self, dest: &mut [u8]) {
        self.0.fill_bytes(dest)
    }
    fn private_random_fill(&mut self, dest: &mut [u8]) {
        self.0.fill_bytes(dest)
    }
}

/// deterministic stateless-reset tokens (a keyed function of the connection id), so that stateless resets are enabled
pub struct SrTokens(pub u64);
impl s2n_quic::provider::stateless_reset_token::Provider for SrTokens {
    type Generator = Self;
    type Error = core::convert::Infallible;
    fn start(self) -> Result<Self, Self::Error> {
        Ok(self)
    }
}
impl s2n_quic::provider::stateless_reset_token::Generator for SrTokens {
    const ENABLED: bool = true;
    fn generate(&mut self, local_connection_id: &[u8]) -> s2n_quic_core::stateless_reset::Token {
        let mut t = [0u8; 16];
        let mut h = self.0 ^ 0x9E37_79B9_7F4A_7C15;
        for (i, b) in t.iter_mut().enumerate() {
            for c in local_connection_id {
                h = (h ^ *c as u64).wrapping_mul(0x100_0000_01b3).rotate_left(7);
            }
            h = h.wrapping_add(i as u64);
            *b = (h >> 32) as u8;
        }
        t.into()
    }
}

pub fn limits_of(l: &Limits) -> limits::Limits {
    limits::Limits::new()
        .with_data_window(l.data_window).unwrap()
        .with_bidirectional_local_data_window(l.sd_bidi_local).unwrap()
        .with_bidirectional_remote_data_window(l.sd_bidi_remote).unwrap()
        .with_unidirectional_data_window(l.sd_uni).unwrap()
        .with_max_open_remote_bidirectional_streams(l.streams_bidi).unwrap()
        .with_max_open_remote_unidirectional_streams(l.streams_uni).unwrap()
        .with_max_ack_delay(Duration::from_millis(l.max_ack_delay_ms)).unwrap()
        .with_max_idle_timeout(Duration::from_millis(l.idle_ms)).unwrap()
        .with_max_send_buffer_size(l.send_buf).unwrap()
        .with_max_active_connection_ids(l.acid_limit).unwrap()
}

macro_rules! build {
    ($builder:expr, $l:expr, $handle:expr, $ep:expr, $seed:expr, $tap:expr, $tls:expr, $sc:expr) => {{
        let mut iob = $handle.builder().with_max_mtu($l.max_mtu);
        if $ep == "c" && !$sc.rebinds.is_empty() {
            let rebinds = $sc.rebinds.clone();
            let toggle = $sc.rebind_toggle;
            iob = iob.on_socket(move |socket| {
                io::spawn(async move {
                    let mut addr = socket.local_addr().unwrap();
                    let home = addr;
                    let mut away = false;
                    for (t, ip) in rebinds {
                        io::time::delay(Duration::from_micros(t.saturating_sub(now_us()))).await;
                        if toggle && away {
                            away = false;
                            addr = home;
                            emit(json!({"ev": "rebind", "ep": "c", "addr": addr.to_string(), "ip": ip}));
                            socket.rebind(addr);
                            continue;
                        }
                        away = true;
                        addr.set_port(addr.port().wrapping_add(1).max(1024));
                        if ip {
                            if let std::net::IpAddr::V4(v4) = addr.ip() {
                                let o = v4.octets();
                                addr.set_ip(std::net::IpAddr::V4(std::net::Ipv4Addr::new(o[0], o[1], o[2].wrapping_add(1), o[3])));
                            }
                        }
                        emit(json!({"ev": "rebind", "ep": "c", "addr": addr.to_string(), "ip": ip}));
                        socket.rebind(addr);
                    }
                });
            });
        }
        let io = iob.build().unwrap();
        let cidf = {
            let b = s2n_quic::provider::connection_id::default::Format::builder();
            let b = if $sc.cid_lifetime_s > 0 { b.with_lifetime(Duration::from_secs($sc.cid_lifetime_s)).unwrap() } else { b };
            b.build().unwrap()
        };
        let b = $builder
            .with_io(io).unwrap()
            .with_tls($tls).unwrap()
            .with_limits(limits_of($l)).unwrap()
            .with_connection_id(cidf).unwrap()
            .with_event(rec::Recorder { ep: $ep }).unwrap()
            .with_random(Random::new($seed)).unwrap()
            .with_stateless_reset_token(SrTokens($seed)).unwrap()
            .with_packet_interceptor($tap).unwrap();
        if $l.cc == "bbr" {
            b.with_congestion_controller(cc::Bbr::default()).unwrap().start().unwrap()
        } else {
            b.with_congestion_controller(cc::Cubic::default()).unwrap().start().unwrap()
        }
    }};
}

pub struct Hooks {
    pub client_tap: rec::Tap,
    pub server_tap: rec::Tap,
}

impl Default for Hooks {
    fn default() -> Self {
        Self { client_tap: rec::Tap::new("c"), server_tap: rec::Tap::new("s") }
    }
}

impl Hooks {
    pub fn for_scenario(sc: &Scenario) -> Self {
        let mut h = Self::default();
        if let Some(v) = &sc.violation {
            let rw = crate::inject::rewriter(v.clone());
            if v.victim == "s" { h.server_tap.rx_rewrite = Some(rw); } else { h.client_tap.rx_rewrite = Some(rw); }
        }
        if sc.early_retire_at_us > 0 && sc.violation.is_none() {
            h.server_tap.rx_rewrite = Some(crate::inject::early_retire(sc.early_retire_at_us));
        }
        if sc.spoof_probe && sc.violation.is_none() {
            h.server_tap.rx_rewrite = Some(crate::inject::probe_rewriter());
        }
        if sc.dup_cid_frames && sc.violation.is_none() {
            h.server_tap.rx_rewrite = Some(crate::inject::duplicator());
            h.client_tap.rx_rewrite = Some(crate::inject::duplicator());
        }
        h
    }
}

/// runs the scenario to completion and returns its events (first event: the scenario itself)
pub fn run(sc: &Scenario, hooks: Hooks) -> Vec<Value> {
    let _ = take_events();
    crate::common::CIDLEN.with(|c| c.set([0, 0]));
    crate::common::ISSUED_MAX.with(|c| c.set([0, 0]));
    crate::common::LAST_TX_PN.with(|c| c.set([None, None]));
    // guarded hooks of the code under test (cfg aws_s2n_quic_verif) report through a thread-local line sink
    s2n_quic_core::verif::install(Box::new(|line: &str| {
        if let Ok(v) = serde_json::from_str::<Value>(line) {
            emit(v);
        }
    }));
    let net = AdvNet::new(sc.net.clone(), sc.seed);
    let server_slot = net.server.clone();
    let mut executor = Executor::new(net, sc.seed);
    let handle = executor.handle().clone();
    let scn = Arc::new(sc.clone());
    let shared = apps::Shared { sc: scn.clone(), outstanding: Arc::new(AtomicI64::new(apps::expected_roles(sc))), started: Arc::new(AtomicBool::new(false)) };
    let Hooks { client_tap, server_tap } = hooks;

    let res = std::panic::catch_unwind(std::panic::AssertUnwindSafe(|| {
        executor.enter(|| {
            let mut server: Server = if let Some(t) = &scn.tp_tamper {
                build!(Server::builder().with_endpoint_limits(s2n_quic::provider::endpoint_limits::Default::builder().with_inflight_handshake_limit(if scn.retry { 0 } else { usize::MAX }).unwrap().build().unwrap()).unwrap(), &scn.s, handle, "s", scn.seed ^ 0x51, server_tap, crate::tamper::TamperProvider { tamper: t.clone(), me: "s" }, scn)
            } else { build!(Server::builder().with_endpoint_limits(s2n_quic::provider::endpoint_limits::Default::builder().with_inflight_handshake_limit(if scn.retry { 0 } else { usize::MAX }).unwrap().build().unwrap()).unwrap(), &scn.s, handle, "s", scn.seed ^ 0x51, server_tap, (certificates::CERT_PEM, certificates::KEY_PEM), scn) };
            let addr = server.local_addr().unwrap();
            *server_slot.lock().unwrap() = Some(addr);
            {
                let sh = shared.clone();
                io::spawn(async move {
                    while let Some(conn) = server.accept().await {
                        apps::drive(sh.clone(), "s", conn);
                    }
                });
            }
            let client: Client = if let Some(t) = &scn.tp_tamper {
                build!(Client::builder(), &scn.c, handle, "c", scn.seed ^ 0xc1, client_tap, crate::tamper::TamperProvider { tamper: t.clone(), me: "c" }, scn)
            } else { build!(Client::builder(), &scn.c, handle, "c", scn.seed ^ 0xc1, client_tap, certificates::CERT_PEM, scn) };
            let sh = shared.clone();
            primary::spawn(async move {
                let connect = Connect::new(addr).with_server_name("localhost");
                emit(json!({"ev": "app_connect_call", "ep": "c"}));
                let attempt = client.connect(connect);
                let early = sh.sc.family == "handshake" && sh.sc.close_at_us > 0;
                let outcome = if early {
                    // the application may give up while the handshake is still running
                    let timer = io::time::delay(Duration::from_micros(sh.sc.close_at_us));
                    futures::pin_mut!(attempt);
                    futures::pin_mut!(timer);
                    match futures::future::select(attempt, timer).await {
                        futures::future::Either::Left((r, _)) => Some(r),
                        futures::future::Either::Right(_) => None,
                    }
                } else {
                    Some(attempt.await)
                };
                match outcome {
                    Some(Ok(conn)) => apps::drive(sh.clone(), "c", conn),
                    Some(Err(e)) => emit(json!({"ev": "app_connect_err", "ep": "c", "err": rec::error_json(&e)})),
                    None => {
                        emit(json!({"ev": "app_connect_abandoned", "ep": "c"}));
                        sh.started.store(true, Ordering::SeqCst);
                    }
                }
                // keep the endpoint alive until everything is over
                loop {
                    io::time::delay(Duration::from_millis(20)).await;
                    if now_us() >= sh.sc.deadline_us + sh.sc.linger_us {
                        break;
                    }
                    if sh.started.load(Ordering::SeqCst) && sh.outstanding.load(Ordering::SeqCst) <= 0 && sh.sc.close == "none" {
                        io::time::delay(Duration::from_micros(sh.sc.linger_us)).await;
                        break;
                    }
                    if sh.sc.close != "none" && sh.started.load(Ordering::SeqCst) && sh.outstanding.load(Ordering::SeqCst) <= 0 {
                        io::time::delay(Duration::from_micros(sh.sc.linger_us + 50_000)).await;
                        break;
                    }
                }
                emit(json!({"ev": "client_end", "ep": "c"}));
                drop(client);
            });
        });
        executor.run();
    }));
    let mut events = Vec::new();
    let end_t = executor.enter(now_us);
    let panic_msg = match res {
        Ok(()) => None,
        Err(p) => Some(if let Some(s) = p.downcast_ref::<&str>() { s.to_string() } else if let Some(s) = p.downcast_ref::<String>() { s.clone() } else { "panic".into() }),
    };
    s2n_quic_core::verif::uninstall();
    let mut evs = take_events();
    // the executor is dropped here (closing it may emit further events we do not need)
    let _ = std::panic::catch_unwind(std::panic::AssertUnwindSafe(move || drop(executor)));
    let _ = take_events();
    let mut scv = serde_json::to_value(sc).unwrap();
    prune_nulls(&mut scv);
    events.push(json!({"ev": "reset", "t": 0, "sc": scv}));
    events.append(&mut evs);
    if let Some(m) = panic_msg {
        let kind = if m.contains("runtime stalled") { "stall" } else { "panic" };
        events.push(json!({"ev": kind, "t": end_t, "msg": m}));
    }
    events.push(json!({"ev": "sim_end", "t": end_t, "outstanding": shared.outstanding.load(Ordering::SeqCst)}));
    events
}

/// TLC's JSON reader has no null: drop absent optional fields
fn prune_nulls(v: &mut Value) {
    match v {
        Value::Object(m) => {
            m.retain(|_, x| !x.is_null());
            for x in m.values_mut() {
                prune_nulls(x);
            }
        }
        Value::Array(a) => a.iter_mut().for_each(prune_nulls),
        _ => {}
    }
}

//! C14 on live handshakes: the `null` TLS sessions of s2n-quic-core (transport parameters travel in the clear as the
//! only handshake payload) wrapped in an endpoint that rewrites the block ONE side sends.  The victim is the other
//! side: the real transport code (space/session_context.rs) validates and applies what it receives.
use crate::common::emit;
use s2n_codec::EncoderValue;
use s2n_quic_core::{application::ServerName, crypto::tls::{null, ConnectionInfo, Endpoint}};
use serde::{Deserialize, Serialize};
use serde_json::json;

#[derive(Clone, Debug, Serialize, Deserialize)]
pub struct Tamper {
    /// whose RECEIVED block is tampered with: "c" (the server's block is rewritten) | "s"
    pub victim: String,
    /// "none" | "drop" | "alter" | "set"
    pub op: String,
    pub id: u64,
    #[serde(default)]
    pub body: Vec<u8>,
}

fn varint(v: u64, out: &mut Vec<u8>) {
    if v < 64 { out.push(v as u8) } else if v < 16384 { out.extend_from_slice(&((v as u16) | 0x4000).to_be_bytes()) }
    else if v < 1 << 30 { out.extend_from_slice(&((v as u32) | 0x8000_0000).to_be_bytes()) } else { out.extend_from_slice(&(v | 0xc000_0000_0000_0000).to_be_bytes()) }
}
fn read_varint(b: &[u8], p: &mut usize) -> Option<u64> {
    let w = 1usize << (b.get(*p)? >> 6);
    if *p + w > b.len() { return None; }
    let mut v = (b[*p] & 0x3f) as u64;
    for i in 1..w { v = (v << 8) | b[*p + i] as u64; }
    *p += w;
    Some(v)
}

pub fn apply(t: &Tamper, block: &[u8]) -> Vec<u8> {
    let mut entries: Vec<(u64, Vec<u8>)> = vec![];
    let mut p = 0;
    while p < block.len() {
        let Some(id) = read_varint(block, &mut p) else { break };
        let Some(len) = read_varint(block, &mut p) else { break };
        let len = len as usize;
        if p + len > block.len() { break; }
        entries.push((id, block[p..p + len].to_vec()));
        p += len;
    }
    match t.op.as_str() {
        "drop" => entries.retain(|e| e.0 != t.id),
        "alter" => { for e in entries.iter_mut() { if e.0 == t.id { if let Some(l) = e.1.last_mut() { *l ^= 0x01; } else { e.1.push(7); } } } }
        "set" => { entries.retain(|e| e.0 != t.id); entries.push((t.id, t.body.clone())); }
        "dup" => { if let Some(e) = entries.iter().find(|e| e.0 == t.id).cloned() { entries.push(e); } }
        _ => {}
    }
    let mut out = vec![];
    for (id, body) in entries {
        varint(id, &mut out);
        varint(body.len() as u64, &mut out);
        out.extend_from_slice(&body);
    }
    out
}

pub struct TamperEndpoint { pub tamper: Tamper, pub me: &'static str }

impl Endpoint for TamperEndpoint {
    type Session = null::Session<()>;

    fn new_server_session<Params: EncoderValue>(&mut self, transport_parameters: &Params, _info: ConnectionInfo) -> Self::Session {
        let mut encoded = transport_parameters.encode_to_vec();
        if self.tamper.victim == "c" {
            encoded = apply(&self.tamper, &encoded);
            emit(json!({"ev": "tp_tampered", "victim": "c", "sender": "server", "op": self.tamper.op, "id": self.tamper.id, "blk": encoded}));
        }
        null::Session::Server(null::server::TlsSession::Init { transport_parameters: encoded.into(), ctx: None })
    }

    fn new_client_session<Params: EncoderValue>(&mut self, transport_parameters: &Params, _server_name: ServerName) -> Self::Session {
        let mut encoded = transport_parameters.encode_to_vec();
        if self.tamper.victim == "s" {
            encoded = apply(&self.tamper, &encoded);
            emit(json!({"ev": "tp_tampered", "victim": "s", "sender": "client", "op": self.tamper.op, "id": self.tamper.id, "blk": encoded}));
        }
        null::Session::Client(null::client::Session::Init { transport_parameters: encoded.into() })
    }

    fn max_tag_length(&self) -> usize { 0 }
}

pub struct TamperProvider { pub tamper: Tamper, pub me: &'static str }

impl s2n_quic::provider::tls::Provider for TamperProvider {
    type Server = TamperEndpoint;
    type Client = TamperEndpoint;
    type Error = String;
    fn start_server(self) -> Result<Self::Server, Self::Error> { Ok(TamperEndpoint { tamper: self.tamper, me: self.me }) }
    fn start_client(self) -> Result<Self::Client, Self::Error> { Ok(TamperEndpoint { tamper: self.tamper, me: self.me }) }
}

//! event sink, virtual time, position-determined stream payload
use serde_json::{json, Value};
use std::cell::RefCell;

thread_local! {
    static SINK: RefCell<Vec<Value>> = const { RefCell::new(Vec::new()) };
}

pub fn now_us() -> u64 {
    if s2n_quic::provider::io::testing::is_in_env() {
        let t = s2n_quic::provider::io::testing::now();
        (unsafe { t.as_duration() }).as_micros() as u64
    } else {
        0
    }
}

pub fn ts_us(t: s2n_quic_core::time::Timestamp) -> u64 {
    (unsafe { t.as_duration() }).as_micros() as u64
}

/// appends one event; `t` (virtual microseconds) is added unless present
pub fn emit(mut v: Value) {
    if v.get("t").is_none() {
        v.as_object_mut().unwrap().insert("t".into(), json!(now_us()));
    }
    SINK.with(|s| s.borrow_mut().push(v));
}

pub fn take_events() -> Vec<Value> {
    SINK.with(|s| std::mem::take(&mut *s.borrow_mut()))
}

/// payload byte at `pos` of the stream `sid` as sent by endpoint `from` ("c" | "s")
#[inline]
pub fn pat(from: &str, sid: u64, pos: u64) -> u8 {
    let k = (sid.wrapping_mul(0x9E37_79B9_7F4A_7C15)) ^ if from == "c" { 0x1234_5678_9abc_def1 } else { 0x0fed_cba9_8765_4321 };
    let x = (pos ^ k).wrapping_mul(0xD6E8_FEB8_6659_FD93);
    ((x >> 56) as u8) ^ ((x >> 24) as u8) ^ (pos as u8).rotate_left(5)
}

pub fn fill(from: &str, sid: u64, off: u64, n: usize) -> Vec<u8> {
    (0..n as u64).map(|i| pat(from, sid, off + i)).collect()
}

pub fn matches(from: &str, sid: u64, off: u64, data: &[u8]) -> bool {
    data.iter().enumerate().all(|(i, b)| *b == pat(from, sid, off + i as u64))
}

pub fn peer(ep: &str) -> &'static str {
    if ep == "c" { "s" } else { "c" }
}

pub fn fnv(data: &[u8]) -> u64 {
    let mut h: u64 = 0xcbf29ce484222325;
    for b in data {
        h ^= *b as u64;
        h = h.wrapping_mul(0x100000001b3);
    }
    h & 0x7fff_ffff
}

/// length of the connection ids each side issues (learnt from the source connection id of its long-header packets);
/// one run at a time per thread
thread_local! {
    pub static CIDLEN: std::cell::Cell<[usize; 2]> = const { std::cell::Cell::new([0, 0]) };
}
pub fn side(ep: &str) -> usize { if ep == "c" { 0 } else { 1 } }

/// (destination connection id hash, source connection id hash or -1) of the first packet of a datagram addressed to `to`
pub fn datagram_ids(p: &[u8], from: &str, to: &str, learn: bool) -> (i64, i64) {
    if p.len() < 7 { return (-1, -1); }
    if p[0] & 0x80 != 0 {
        let dl = p[5] as usize;
        if p.len() < 7 + dl { return (-1, -1); }
        let dcid = &p[6..6 + dl];
        let sl = p[6 + dl] as usize;
        if p.len() < 7 + dl + sl { return (fnv(dcid) as i64, -1); }
        let scid = &p[7 + dl..7 + dl + sl];
        if learn && sl > 0 { CIDLEN.with(|c| { let mut v = c.get(); v[side(from)] = sl; c.set(v); }); }
        (fnv(dcid) as i64, fnv(scid) as i64)
    } else {
        let n = CIDLEN.with(|c| c.get()[side(to)]);
        if n == 0 || p.len() < 1 + n { return (-1, -1); }
        (fnv(&p[1..1 + n]) as i64, -1)
    }
}

thread_local! {
    /// set by the network when the datagram with the spoofed source address is handed to the server
    pub static SPOOF_FLAG: std::cell::Cell<bool> = const { std::cell::Cell::new(false) };
}

thread_local! {
    /// largest application-space packet number each side has sent so far on the primary connection ([client, server]); None = 0 sent
    pub static LAST_TX_PN: std::cell::Cell<[Option<u64>; 2]> = const { std::cell::Cell::new([None, None]) };
}

thread_local! {
    /// highest NEW_CONNECTION_ID sequence number each side has sent so far ([client, server])
    pub static ISSUED_MAX: std::cell::Cell<[u64; 2]> = const { std::cell::Cell::new([0, 0]) };
}

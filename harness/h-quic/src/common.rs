//! event sink, virtual time, position-determined stream payload
use serde_json::{json, Value};
use std::cell::RefCell;

thread_local! {
    static SINK: RefCell<Vec<Value>> = const { RefCell::new(Vec::new()) };
}

pub fn now_us() -> u64 {
    if s2n_quic::provider::io::testing::is_in_env() {
        let t = s2n_quic::provider::io::testing::now();
        (unsafe { t.as_duration() }).as_micros() as u64
    } else {
        0
    }
}

pub fn ts_us(t: s2n_quic_core::time::Timestamp) -> u64 {
    (unsafe { t.as_duration() }).as_micros() as u64
}

/// appends one event; `t` (virtual microseconds) is added unless present
pub fn emit(mut v: Value) {
    if v.get("t").is_none() {
        v.as_object_mut().unwrap().insert("t".into(), json!(now_us()));
    }
    SINK.with(|s| s.borrow_mut().push(v));
}

pub fn take_events() -> Vec<Value> {
    SINK.with(|s| std::mem::take(&mut *s.borrow_mut()))
}

/// payload byte at `pos` of the stream `sid` as sent by endpoint `from` ("c" | "s")
#[inline]
pub fn pat(from: &str, sid: u64, pos: u64) -> u8 {
    let k = (sid.wrapping_mul(0x9E37_79B9_7F4A_7C15)) ^ if from == "c" { 0x1234_5678_9abc_def1 } else { 0x0fed_cba9_8765_4321 };
    let x = (pos ^ k).wrapping_mul(0xD6E8_FEB8_6659_FD93);
    ((x >> 56) as u8) ^ ((x >> 24) as u8) ^ (pos as u8).rotate_left(5)
}

pub fn fill(from: &str, sid: u64, off: u64, n: usize) -> Vec<u8> {
    (0..n as u64).map(|i| pat(from, sid, off + i)).collect()
}

pub fn matches(from: &str, sid: u64, off: u64, data: &[u8]) -> bool {
    data.iter().enumerate().all(|(i, b)| *b == pat(from, sid, off + i as u64))
}

pub fn peer(ep: &str) -> &'static str {
    if ep == "c" { "s" } else { "c" }
}

pub fn fnv(data: &[u8]) -> u64 {
    let mut h: u64 = 0xcbf29ce484222325;
    for b in data {
        h ^= *b as u64;
        h = h.wrapping_mul(0x100000001b3);
    }
    h & 0x7fff_ffff
}

mod ackmgr;
mod cidreg;
mod apps;
mod common;
mod frames;
mod gen;
mod inject;
mod net;
mod rec;
mod run;
mod scen;
mod tamper;

use serde_json::{json, Value};
use std::io::Write;

fn write_events(path: &str, runs: &[Vec<Value>]) -> u64 {
    let mut w = std::io::BufWriter::new(std::fs::File::create(path).unwrap());
    let mut n = 0;
    for r in runs {
        for e in r {
            serde_json::to_writer(&mut w, e).unwrap();
            w.write_all(b"\n").unwrap();
            n += 1;
        }
    }
    w.flush().unwrap();
    n
}

fn main() {
    let args: Vec<String> = std::env::args().skip(1).collect();
    let cmd = args.first().map(|s| s.as_str()).unwrap_or("");
    std::panic::set_hook(Box::new(|_| {}));
    let out = match cmd {
        // e2e <family> <seed> <count> <out.ndjson>
        "e2e" => {
            let family = &args[1];
            let seed: u64 = args[2].parse().unwrap();
            let count: usize = args[3].parse().unwrap();
            let scenarios: Vec<scen::Scenario> = (0..count).map(|i| gen::scenario(family, seed.wrapping_mul(1000).wrapping_add(i as u64))).collect();
            let threads = 14usize.min(scenarios.len().max(1));
            let next = std::sync::atomic::AtomicUsize::new(0);
            let results = std::sync::Mutex::new(Vec::new());
            std::thread::scope(|s| {
                for _ in 0..threads {
                    s.spawn(|| loop {
                        let i = next.fetch_add(1, std::sync::atomic::Ordering::Relaxed);
                        if i >= scenarios.len() {
                            break;
                        }
                        let ev = run::run(&scenarios[i], run::Hooks::for_scenario(&scenarios[i]));
                        results.lock().unwrap().push((i, ev));
                    });
                }
            });
            let mut results = results.into_inner().unwrap();
            results.sort_by_key(|(i, _)| *i);
            let runs: Vec<Vec<Value>> = results.into_iter().map(|(_, e)| e).collect();
            let n = write_events(&args[4], &runs);
            let stalls = runs.iter().filter(|r| r.iter().any(|e| e["ev"] == "stall" || e["ev"] == "panic")).count();
            json!({"runs": runs.len(), "events": n, "stalls_or_panics": stalls})
        }
        // sched <schedules-file (TLC output)> <seed> <out.ndjson> : one run of a fixed base scenario per enumerated fault schedule
        "sched" => {
            let seed: u64 = args[2].parse().unwrap();
            let mut scenarios = Vec::new();
            for line in std::fs::read_to_string(&args[1]).unwrap().lines() {
                let line = line.trim();
                if !line.starts_with("\"[") { continue; }
                let inner: String = serde_json::from_str(line).unwrap();
                let faults: Vec<Value> = serde_json::from_str(&inner).unwrap();
                let mut sc = gen::scenario("enum", seed.wrapping_mul(1000).wrapping_add(scenarios.len() as u64 % 4));
                for f in faults {
                    sc.net.schedule.push((f["dir"].as_str().unwrap().to_string(), f["idx"].as_u64().unwrap(), f["act"].as_str().unwrap().to_string()));
                }
                scenarios.push(sc);
            }
            let threads = 14usize.min(scenarios.len().max(1));
            let next = std::sync::atomic::AtomicUsize::new(0);
            let results = std::sync::Mutex::new(Vec::new());
            std::thread::scope(|s| {
                for _ in 0..threads {
                    s.spawn(|| loop {
                        let i = next.fetch_add(1, std::sync::atomic::Ordering::Relaxed);
                        if i >= scenarios.len() { break; }
                        let ev = run::run(&scenarios[i], run::Hooks::for_scenario(&scenarios[i]));
                        results.lock().unwrap().push((i, ev));
                    });
                }
            });
            let mut results = results.into_inner().unwrap();
            results.sort_by_key(|(i, _)| *i);
            let runs: Vec<Vec<Value>> = results.into_iter().map(|(_, e)| e).collect();
            let n = write_events(&args[3], &runs);
            let stalls = runs.iter().filter(|r| r.iter().any(|e| e["ev"] == "stall" || e["ev"] == "panic")).count();
            json!({"runs": runs.len(), "events": n, "stalls_or_panics": stalls})
        }
        // ackmgr-run <seed> <count> <out.ndjson>
        "ackmgr-run" => ackmgr::run(&args[1..]),
        // cidreg-run <behaviours.txt | random:<count>:<seed>> <out.ndjson>
        "cidreg-run" => cidreg::run(&args[1..]),
        "peerreg-run" => cidreg::run_peer(&args[1..]),
        // one <scenario.json> <out.ndjson>
        "one" => {
            let sc: scen::Scenario = serde_json::from_str(&std::fs::read_to_string(&args[1]).unwrap()).unwrap();
            let ev = run::run(&sc, run::Hooks::for_scenario(&sc));
            let n = write_events(&args[2], &[ev]);
            json!({"runs": 1, "events": n})
        }
        _ => {
            eprintln!("unknown command {cmd}");
            std::process::exit(2);
        }
    };
    println!("RESULT {}", out);
}

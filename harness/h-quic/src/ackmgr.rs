//! C08 (component level): the real AckManager (reached through the cfg(aws_s2n_quic_verif) re-export) driven with random
//! histories: packets processed in and out of order, transmission opportunities with any remaining capacity (also too
//! small for the ACK frame), timer expiries, acknowledgements of our own ACK-carrying packets.  After every call the
//! manager's timer and transmission interest are recorded for Trace_AckDuty.
use rand::{rngs::StdRng, Rng, SeedableRng};
use s2n_quic_core::{
    ack, connection, endpoint, event,
    frame::{ack::AckRanges as _, FrameMut, Ping},
    inet::{DatagramInfo, ExplicitCongestionNotification},
    packet::number::{PacketNumber, PacketNumberRange, PacketNumberSpace},
    time::{timer::Provider as _, Timestamp},
    transmission::{self, interest::Provider as _, writer::testing::{OutgoingFrameBuffer, Writer}},
    varint::VarInt,
};
use s2n_quic_transport::verif::{AckManager, ProcessedPacket};
use serde_json::{json, Value};
use std::time::Duration;

fn ts(us: u64) -> Timestamp { unsafe { Timestamp::from_duration(Duration::from_micros(us + 1_000_000)) } }
fn pn(x: u64) -> PacketNumber { PacketNumberSpace::ApplicationData.new_packet_number(VarInt::new(x).unwrap()) }

fn observe(m: &AckManager, now: u64) -> (Value, Value, Value) {
    let deadline = m.next_expiration().map(|t| (t.saturating_duration_since(ts(0))).as_micros() as u64);
    let interest = format!("{:?}", m.get_transmission_interest());
    let _ = now;
    (json!(deadline.is_some()), json!(deadline.unwrap_or(0)), json!(interest))
}

pub fn run(args: &[String]) -> Value {
    let seed: u64 = args[0].parse().unwrap();
    let count: usize = args[1].parse().unwrap();
    let mut out = std::io::BufWriter::new(std::fs::File::create(&args[2]).unwrap());
    let mut lines = 0u64;
    let mut emit = |v: Value| { use std::io::Write; serde_json::to_writer(&mut out, &v).unwrap(); out.write_all(b"\n").unwrap(); lines += 1; };
    let mut rng = StdRng::seed_from_u64(seed ^ 0xac4d);
    let mut small_caps = 0u64;
    for _ in 0..count {
        let mad_ms = [5u64, 25, 25, 100][rng.random_range(0..4)];
        let mut settings = ack::Settings::default();
        settings.max_ack_delay = Duration::from_millis(mad_ms);
        let mut m = AckManager::new(PacketNumberSpace::ApplicationData, settings);
        let mut fb = OutgoingFrameBuffer::new();
        let mut publisher = event::testing::Publisher::no_snapshot();
        let mut now = 0u64;
        let mut next_pn = 0u64;
        emit(json!({"ev": "reset", "mad": mad_ms * 1000}));
        let mut sent_acks: Vec<(u64, Vec<(u64, u64)>)> = Vec::new(); // (our packet number, ranges)
        let mut seen = std::collections::HashSet::new();
        let steps = rng.random_range(10..120);
        for _ in 0..steps {
            let r = rng.random_range(0..100);
            if r < 45 {
                // a packet is processed
                let p = match rng.random_range(0..10) { 0 => { next_pn += rng.random_range(2..5); next_pn } 1 if next_pn > 3 => next_pn - rng.random_range(1..3), _ => { next_pn += 1; next_pn } };
                // the packet pipeline never hands the same packet number to the ACK manager twice (duplicate window)
                if !seen.insert(p) { continue; }
                let el = rng.random_bool(0.7);
                let datagram = DatagramInfo { timestamp: ts(now), payload_len: 1200, ecn: ExplicitCongestionNotification::default(),
                                              destination_connection_id: connection::LocalId::TEST_ID,
                                              destination_connection_id_classification: connection::id::Classification::Local, source_connection_id: None };
                let mut pp = ProcessedPacket::new(pn(p), &datagram);
                if el { pp.on_processed_frame(&Ping); }
                let path = event::builder::Path { local_addr: event::builder::SocketAddress::IpV4 { ip: &[127, 0, 0, 1], port: 1 }, local_cid: event::builder::ConnectionId { bytes: &[] },
                                                  remote_addr: event::builder::SocketAddress::IpV4 { ip: &[127, 0, 0, 1], port: 2 }, remote_cid: event::builder::ConnectionId { bytes: &[] },
                                                  id: 0, is_active: true };
                m.on_processed_packet(&pp, path, &mut publisher);
                let (a, d, i) = observe(&m, now);
                emit(json!({"ev": "process", "pn": p, "el": el, "t": now, "armed": a, "deadline": d, "interest": i}));
            } else if r < 75 {
                // a packet is being assembled: the manager may put its ACK frame into it if it fits
                let cap = match rng.random_range(0..6) { 0 => rng.random_range(1..12usize), 1 => rng.random_range(12..40), _ => 1200 };
                if cap < 40 { small_caps += 1; }
                fb.set_max_packet_size(Some(cap));
                fb.flush();
                let before = fb.len();
                let mut w = Writer::new(ts(now), &mut fb, transmission::Constraint::None, transmission::Mode::Normal, endpoint::Type::Server);
                let wrote = m.on_transmit(&mut w);
                let our_pn = { use s2n_quic_core::transmission::Writer as _; w.packet_number().as_u64() };
                if wrote {
                    if rng.random_bool(0.5) { use s2n_quic_core::transmission::Writer as _; let _ = w.write_frame(&Ping); }
                    m.on_transmit_complete(&mut w);
                }
                let mut ranges: Vec<(u64, u64)> = vec![];
                if wrote && fb.len() > before {
                    let mut wf = fb.frames[before].clone();
                    if let FrameMut::Ack(a) = wf.as_frame() {
                        for rg in a.ack_ranges() { ranges.push((rg.start().as_u64(), rg.end().as_u64())); }
                    }
                    sent_acks.push((our_pn, ranges.clone()));
                }
                fb.flush();
                let (a, d, i) = observe(&m, now);
                emit(json!({"ev": "transmit", "cap": cap, "wrote": wrote, "ranges": ranges, "t": now, "armed": a, "deadline": d, "interest": i}));
            } else if r < 85 && !sent_acks.is_empty() {
                // the peer acknowledges (or we lose) one of our packets that carried an ACK frame
                let k = rng.random_range(0..sent_acks.len());
                let (p, rs) = sent_acks.remove(k);
                let largest = rs.iter().map(|r| r.1).max().unwrap_or(0);
                let lost = rng.random_bool(0.3);
                let set = PacketNumberRange::new(pn(p), pn(p));
                if lost { m.on_packet_loss(&set); } else { m.on_packet_ack(ts(now), &set); }
                let (a, d, i) = observe(&m, now);
                emit(json!({"ev": if lost { "our_lost" } else { "our_acked" }, "pn": p, "largest": largest, "t": now, "armed": a, "deadline": d, "interest": i}));
            } else {
                // time passes; the timer fires when due
                now += [100u64, 1_000, 7_000, 30_000, 120_000][rng.random_range(0..5)];
                if let Some(t) = m.next_expiration() {
                    if t <= ts(now) {
                        m.on_timeout(ts(now));
                        let (a, d, i) = observe(&m, now);
                        emit(json!({"ev": "timeout", "t": now, "armed": a, "deadline": d, "interest": i}));
                        continue;
                    }
                }
                let (a, d, i) = observe(&m, now);
                emit(json!({"ev": "tick", "t": now, "armed": a, "deadline": d, "interest": i}));
            }
        }
    }
    drop(emit);
    json!({"events": lines, "runs": count, "small_capacity_transmissions": small_caps})
}

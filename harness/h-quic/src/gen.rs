//! scenario families (seeded)
use crate::{net::NetCfg, scen::*};
use rand::{rngs::StdRng, Rng, SeedableRng};

fn pick<T: Copy>(rng: &mut StdRng, xs: &[T]) -> T {
    xs[rng.random_range(0..xs.len())]
}

fn streams(rng: &mut StdRng, n: usize, max: u64) -> Vec<StreamSpec> {
    let sizes = [0u64, 1, 100, 1199, 1200, 4095, 4096, 4097, 10_000, 65_535, 65_536, 65_537, 100_000, 262_144, 300_000];
    (0..n).map(|_| {
        let bidi = rng.random_bool(0.6);
        StreamSpec {
            opener: if rng.random_bool(0.7) { "c".into() } else { "s".into() },
            bidi,
            send: pick(rng, &sizes).min(max),
            reply: if bidi { pick(rng, &sizes).min(max) } else { 0 },
            chunk: pick(rng, &[1usize, 7, 100, 1000, 1200, 4096, 16_384, 65_536]),
            reply_chunk: pick(rng, &[1usize, 100, 1200, 4096, 65_536]),
            read_delay_us: pick(rng, &[0u64, 0, 0, 100, 5_000]),
            finish: true,
            reset_at: None,
            stop_at: None,
            start_us: pick(rng, &[0u64, 0, 1_000, 50_000]),
            write_mode: pick(rng, &["", "", "vec", "tokio", "tokio_vec"]).to_string(),
            read_mode: pick(rng, &["", "", "vec2", "vec8", "tokio64", "tokio4096"]).to_string(),
            ..Default::default()
        }
    }).collect()
}

fn small_chunks_fix(s: &mut [StreamSpec]) {
    // 1-byte chunks on large transfers make runs very long; keep them for small transfers only
    for sp in s {
        if sp.chunk < 100 && sp.send > 300 {
            sp.chunk = 1000;
        }
        if sp.reply_chunk < 100 && sp.reply > 300 {
            sp.reply_chunk = 1000;
        }
    }
}

pub fn scenario(family: &str, seed: u64) -> Scenario {
    let mut rng = StdRng::seed_from_u64(seed);
    let rng = &mut rng;
    let mut c = Limits::default();
    let mut s = Limits::default();
    let mut net = NetCfg { delay_us: pick(rng, &[1_000u64, 10_000, 50_000]), jitter_us: pick(rng, &[0u64, 1_000, 20_000]), mtu: 0, ..Default::default() };
    for l in [&mut c, &mut s] {
        l.cc = if rng.random_bool(0.3) { "bbr".into() } else { "cubic".into() };
        l.max_mtu = pick(rng, &[1300u16, 1350, 1500, 4000, 9000]);
        l.max_ack_delay_ms = pick(rng, &[25u64, 25, 5, 60, 200]);
    }
    let mut sc = Scenario { seed, family: family.into(), c, s, net: net.clone(), streams: vec![], close: "c".into(), close_at_us: 0, linger_us: 300_000, deadline_us: 120_000_000, rebinds: vec![], cid_lifetime_s: 0, violation: None, retry: false, dup_cid_frames: false, rebind_toggle: false, spoof_probe: false, tp_tamper: None, early_retire_at_us: 0 };
    match family {
        // clean network, default windows: the happy path
        "clean" => {
            let n = rng.random_range(1..5);
            sc.streams = streams(rng, n, 300_000);
            sc.retry = rng.random_bool(0.25);
        }
        // random faults on every datagram
        "lossy" => {
            net.drop = pick(rng, &[10u32, 50, 150, 300]);
            net.dup = pick(rng, &[0u32, 20, 100]);
            net.hold = pick(rng, &[0u32, 50, 200]);
            net.corrupt = pick(rng, &[0u32, 10, 50]);
            net.truncate = pick(rng, &[0u32, 10]);
            net.heal_at_us = Some(pick(rng, &[2_000_000u64, 10_000_000, 40_000_000]));
            let n = rng.random_range(1..5);
            sc.streams = streams(rng, n, 120_000);
            sc.retry = rng.random_bool(0.25);
        }
        // tiny windows and limits: every kind of blocking
        "tiny" => {
            for l in [&mut sc.c, &mut sc.s] {
                l.data_window = pick(rng, &[1u64, 100, 1200, 5000, 1 << 20]);
                l.sd_bidi_local = pick(rng, &[1u64, 50, 1000, 4096, 1 << 18]);
                l.sd_bidi_remote = pick(rng, &[1u64, 50, 1000, 4096, 1 << 18]);
                l.sd_uni = pick(rng, &[1u64, 50, 1000, 4096, 1 << 18]);
                l.streams_bidi = pick(rng, &[1u64, 2, 100]);
                l.streams_uni = pick(rng, &[1u64, 2, 100]);
                l.send_buf = pick(rng, &[1024u32, 4096, 512 * 1024]);
            }
            net.drop = pick(rng, &[0u32, 0, 50, 150]);
            net.heal_at_us = Some(20_000_000);
            let n = rng.random_range(1..6);
            sc.streams = streams(rng, n, 3_000);
            // a window of w bytes costs one round trip per w bytes: keep transfers proportionate
            let minw = [&sc.c, &sc.s].iter().map(|l| l.data_window.min(l.sd_bidi_local).min(l.sd_bidi_remote).min(l.sd_uni)).min().unwrap();
            let cap = (40 * minw).max(60);
            for sp in &mut sc.streams {
                sp.read_delay_us = pick(rng, &[0u64, 1_000, 20_000]);
                sp.send = sp.send.min(cap);
                sp.reply = sp.reply.min(cap);
            }
        }
        // resets, stop_sending, unfinished streams
        "reset" => {
            net.drop = pick(rng, &[0u32, 50, 200]);
            net.hold = pick(rng, &[0u32, 100]);
            net.heal_at_us = Some(20_000_000);
            let n = rng.random_range(1..5);
            sc.streams = streams(rng, n, 100_000);
            for sp in &mut sc.streams {
                match rng.random_range(0..4) {
                    0 => sp.reset_at = Some(rng.random_range(0..=sp.send)),
                    1 => sp.stop_at = Some(rng.random_range(0..=sp.send)),
                    _ => {}
                }
            }
            for l in [&mut sc.c, &mut sc.s] {
                l.sd_bidi_remote = pick(rng, &[1000u64, 4096, 1 << 18]);
                l.sd_bidi_local = pick(rng, &[1000u64, 4096, 1 << 18]);
                l.sd_uni = pick(rng, &[1000u64, 4096, 1 << 18]);
                l.data_window = pick(rng, &[3000u64, 1 << 20]);
            }
        }
        // streams that are blocked on the peer's window, or already finished, when they get reset / stopped,
        // under heavy loss: retransmission of frames queued around the reset
        "late_reset" => {
            net.drop = pick(rng, &[300u32, 450]);
            net.hold = pick(rng, &[0u32, 100]);
            net.heal_at_us = Some(pick(rng, &[3_000_000u64, 8_000_000]));
            net.skip_first = 6;
            let n = rng.random_range(2..5);
            sc.streams = streams(rng, n, 30_000);
            // one mode per run, applied to every stream
            let mode = rng.random_range(0..3);
            for l in [&mut sc.c, &mut sc.s] {
                let w = if mode == 0 { pick(rng, &[500u64, 2000]) } else { pick(rng, &[2000u64, 1 << 18]) };
                l.sd_bidi_remote = w;
                l.sd_bidi_local = w;
                l.sd_uni = w;
            }
            for sp in &mut sc.streams {
                sp.send = sp.send.max(3000);
                sp.chunk = sp.chunk.max(1000);
                sp.start_us = 0;
                match mode {
                    // blocked on the stream window (the reader is slow), then reset after a while
                    0 => {
                        sp.reset_at = Some(sp.send);
                        sp.reset_delay_us = pick(rng, &[50_000u64, 200_000, 600_000]);
                        sp.read_start_delay_us = 5_000_000;
                    }
                    // finished, then reset by the application
                    1 => sp.reset_after_finish_us = pick(rng, &[1_000u64, 60_000, 200_000, 500_000]),
                    // finished, the peer stops the stream late
                    _ => {
                        sp.stop_at = Some(0);
                        sp.read_start_delay_us = pick(rng, &[60_000u64, 200_000, 500_000, 1_000_000]);
                    }
                }
            }
        }
        // many short streams against small, asymmetric stream-count limits (MAX_STREAMS credit)
        "many_streams" => {
            net.drop = pick(rng, &[0u32, 50, 150]);
            net.heal_at_us = Some(10_000_000);
            let n = rng.random_range(6..12);
            sc.streams = streams(rng, n, 2_000);
            let uni_heavy = rng.random_bool(0.5);
            for sp in &mut sc.streams {
                sp.bidi = if uni_heavy { rng.random_bool(0.2) } else { rng.random_bool(0.8) };
                if !sp.bidi { sp.reply = 0; }
                sp.start_us = 0;
                sp.chunk = sp.chunk.max(100);
            }
            for l in [&mut sc.c, &mut sc.s] {
                let (small, big) = (pick(rng, &[1u64, 2, 3]), pick(rng, &[5u64, 100]));
                if uni_heavy { l.streams_uni = small; l.streams_bidi = big; } else { l.streams_bidi = small; l.streams_uni = big; }
            }
        }
        // an on-path attacker: forged, garbled, truncated, spliced and replayed datagrams among the genuine ones
        "attack" => {
            net.corrupt_copy = pick(rng, &[100u32, 250]);
            net.dup = pick(rng, &[50u32, 150]);
            net.truncate = pick(rng, &[20u32, 60]);
            net.corrupt = pick(rng, &[0u32, 40]);
            net.drop = pick(rng, &[0u32, 50]);
            net.hold = pick(rng, &[0u32, 80]);
            net.skip_first = pick(rng, &[0u64, 0, 8]);
            net.inject = pick(rng, &[10u32, 40]);
            net.inject_from_us = pick(rng, &[0u64, 200_000]);
            net.inject_to_us = 3_000_000;
            net.heal_at_us = Some(30_000_000);
            let n = rng.random_range(1..4);
            sc.streams = streams(rng, n, 60_000);
            // replay of old genuine datagrams much later
            for i in 0..12u64 {
                let dir = if rng.random_bool(0.5) { "c2s" } else { "s2c" };
                net.schedule.push((dir.to_string(), rng.random_range(0..60) + i, "replay_late".to_string()));
            }
        }
        // verbatim replays of genuine datagrams long after the receiver's duplicate window has moved past them,
        // during bulk transfers with many packets in flight (2-byte packet number encodings)
        "replay" => {
            net.replay_late = pick(rng, &[60u32, 150]);
            net.dup = pick(rng, &[0u32, 30]);
            net.inject = pick(rng, &[12u32, 30]);
            net.inject_from_us = 0;
            net.inject_to_us = 1_500_000;
            net.delay_us = pick(rng, &[5_000u64, 20_000]);
            sc.streams = streams(rng, 1, 100_000);
            let sp = &mut sc.streams[0];
            sp.opener = "c".into(); sp.bidi = true;
            sp.send = pick(rng, &[400_000u64, 900_000]);
            sp.reply = pick(rng, &[0u64, 300_000]);
            sp.chunk = 16_000; sp.reply_chunk = 16_000; sp.read_delay_us = 0;
            sp.write_mode = String::new(); sp.read_mode = String::new();
            for l in [&mut sc.c, &mut sc.s] {
                l.data_window = 2_000_000; l.sd_bidi_local = 1_000_000; l.sd_bidi_remote = 1_000_000;
            }
            sc.deadline_us = 60_000_000;
        }
        // handshake under loss / duplication / one-way blackholes, unroutable datagrams, early close
        "handshake" | "late_retry" => {
            for _ in 0..rng.random_range(0..3) {
                let dir = if rng.random_bool(0.5) { "c2s" } else { "s2c" };
                let act = pick(rng, &["drop", "drop", "dup", "hold"]);
                net.schedule.push((dir.to_string(), rng.random_range(0..6), act.to_string()));
            }
            if rng.random_bool(0.4) {
                // the client's packets vanish after its first flight: the server keeps retransmitting against its budget
                let from = pick(rng, &[1_000u64, 30_000, 120_000]);
                net.blackhole.push(("c2s".into(), from, from + pick(rng, &[2_000_000u64, 6_000_000])));
            }
            if rng.random_bool(0.25) {
                // nothing the server sends arrives; the client's Initial and its first probes do, then silence: the server
                // runs into its amplification limit with a full congestion window and finally gives the handshake up
                net.blackhole.clear();
                net.schedule.clear();
                net.blackhole.push(("s2c".into(), 0, u64::MAX / 4));
                net.blackhole.push(("c2s".into(), pick(rng, &[1_200_000u64, 3_500_000, 8_000_000]), u64::MAX / 4));
                sc.linger_us = 25_000_000;
            }
            net.inject = pick(rng, &[0u32, 10, 30]);
            net.inject_from_us = 0;
            net.inject_to_us = 2_000_000;
            sc.streams = streams(rng, 1, 3_000);
            if rng.random_bool(0.3) {
                // the client gives up very early (close while Initial/Handshake keys still exist)
                sc.close_at_us = pick(rng, &[1_000u64, 30_000, 70_000, 150_000]);
            }
            sc.deadline_us = 40_000_000;
            sc.retry = rng.random_bool(0.4) || family == "late_retry";
            if sc.retry && (rng.random_bool(0.5) || family == "late_retry") {
                // the first Retry packets are lost: the client's probe timeout re-sends its Initial, so the Retry that finally
                // arrives finds several Initial packets outstanding (all of them are discarded by it)
                net.blackhole.clear();
                net.schedule.clear();
                net.blackhole.push(("s2c".into(), 0, pick(rng, &[500_000u64, 1_200_000, 3_200_000])));
                sc.close_at_us = 0;
            }
        }
        // long-lived connection: connection id expiry/rotation, NAT rebinding and migration of the client, small
        // active_connection_id_limit values, loss of NEW_CONNECTION_ID / RETIRE_CONNECTION_ID frames
        "cid" => {
            net.drop = pick(rng, &[0u32, 50, 150]);
            net.delay_us = pick(rng, &[1_000u64, 20_000]);
            net.jitter_us = 0;
            sc.cid_lifetime_s = pick(rng, &[0u64, 60, 75]);
            for l in [&mut sc.c, &mut sc.s] {
                l.acid_limit = pick(rng, &[2u64, 3, 5, 8]);
                l.idle_ms = 30_000;
            }
            let n = rng.random_range(20..35);
            sc.streams = (0..n).map(|k| StreamSpec {
                opener: if rng.random_bool(0.8) { "c".into() } else { "s".into() }, bidi: true, send: 300, reply: 300, chunk: 300, reply_chunk: 300,
                finish: true, start_us: k as u64 * 6_000_000 + rng.random_range(0..2_000_000u64), ..Default::default() }).collect();
            for _ in 0..rng.random_range(0..5) {
                sc.rebinds.push((rng.random_range(1_000_000..(n as u64) * 6_000_000), rng.random_bool(0.5)));
            }
            sc.rebinds.sort();
            sc.dup_cid_frames = rng.random_bool(0.5);
            sc.rebind_toggle = rng.random_bool(0.4);
            sc.deadline_us = 400_000_000;
        }
        // connection ids reach the end of their lifetime while the client is away on another address, frames are in flight
        // or lost, and the client comes back: NEW_CONNECTION_ID with a raised retire_prior_to, pending RETIRE frames,
        // retransmissions of both
        "cid_expiry" => {
            net.delay_us = pick(rng, &[5_000u64, 20_000]);
            net.jitter_us = 0;
            net.drop = pick(rng, &[0u32, 0, 50]);
            sc.cid_lifetime_s = 60;
            for l in [&mut sc.c, &mut sc.s] {
                l.acid_limit = pick(rng, &[2u64, 3, 4]);
                l.idle_ms = 30_000;
            }
            // ids issued during the handshake expire about here
            let exp = 60_000_000 + 4 * net.delay_us;
            let away = exp - pick(rng, &[5_000_000u64, 1_000_000, 400_000]);
            sc.rebinds.push((away, rng.random_bool(0.5)));
            let hole_to = exp + pick(rng, &[300_000u64, 800_000, 1_500_000]);
            if rng.random_bool(0.5) {
                // the replacement id the client issues after the server moved to the new path stays unacknowledged
                // (its NEW_CONNECTION_ID or the acknowledgement is lost) until the older ids expire
                let d = net.delay_us;
                net.blackhole.push((pick(rng, &["c2s", "both", "s2c"]).to_string(), away + d + d / 2, hole_to));
            } else if rng.random_bool(0.8) {
                let hole_from = exp - pick(rng, &[300_000u64, 50_000]);
                net.blackhole.push((pick(rng, &["both", "s2c", "c2s"]).to_string(), hole_from, hole_to));
            }
            sc.rebinds.push((exp + pick(rng, &[100_000u64, 250_000, 500_000, 2_000_000]), false));
            if rng.random_bool(0.5) { sc.rebinds.push((exp + 4_000_000, false)); }
            sc.rebind_toggle = rng.random_bool(0.8);
            sc.dup_cid_frames = rng.random_bool(0.3);
            // steady small request/response traffic from both sides around the interesting window
            sc.streams = (0..40).map(|k| StreamSpec {
                opener: if k % 3 == 0 { "s".into() } else { "c".into() }, bidi: true, send: 300, reply: 300, chunk: 300, reply_chunk: 300,
                finish: true, start_us: if k < 5 { k as u64 * 10_000_000 } else { 50_000_000 + (k as u64 - 5) * 600_000 + rng.random_range(0..200_000u64) }, ..Default::default() }).collect();
            sc.deadline_us = 400_000_000;
        }
        // connection migration between paths of very different round-trip times while both sides have data in flight
        "migrate" => {
            net.drop = pick(rng, &[0u32, 0, 30]);
            net.jitter_us = 0;
            let slow = pick(rng, &[80_000u64, 150_000, 300_000]);
            let fast = pick(rng, &[2_000u64, 5_000, 15_000]);
            net.delay_us = slow;
            net.addr_delays_us = (0..6).map(|k| if k % 2 == 0 { slow } else { fast }).collect();
            for l in [&mut sc.c, &mut sc.s] {
                l.acid_limit = pick(rng, &[3u64, 5, 8]);
                l.idle_ms = 30_000;
            }
            sc.streams = vec![
                StreamSpec { opener: "c".into(), bidi: true, send: 100, reply: pick(rng, &[400_000u64, 1_500_000]), chunk: 100, reply_chunk: 8_000, finish: true, ..Default::default() },
                StreamSpec { opener: "c".into(), bidi: false, send: pick(rng, &[200_000u64, 800_000]), chunk: 8_000, finish: true, ..Default::default() },
            ];
            let mut t = slow * pick(rng, &[8u64, 12, 20]);
            for _ in 0..rng.random_range(1..4) {
                sc.rebinds.push((t, rng.random_bool(0.5)));
                t += pick(rng, &[400_000u64, 1_500_000, 4_000_000]);
            }
            sc.deadline_us = 300_000_000;
        }
        // address changes and the anti-amplification limit of the NEW address: a real rebind followed by a server-side close
        // before anything else arrives from there, and a single datagram that appears to come from somewhere else
        "rebind_close" => {
            net.delay_us = pick(rng, &[5_000u64, 20_000]);
            net.jitter_us = 0;
            let n = rng.random_range(3..8);
            sc.streams = (0..n).map(|k| StreamSpec { opener: "c".into(), bidi: true, send: 40, reply: 40, chunk: 40, reply_chunk: 40, finish: true,
                                                    start_us: 200_000 + k as u64 * 100_000, ..Default::default() }).collect();
            if rng.random_bool(0.5) {
                let t = 200_000 + rng.random_range(1..n as u64) * 100_000 - 2_000;
                sc.rebinds.push((t, rng.random_bool(0.5)));
                sc.close = "s".into();
                // the small request sent right after the rebind arrives one delay later; the server closes around then
                sc.close_at_us = t + 2_000 + net.delay_us + pick(rng, &[0u64, 2_000, 10_000]);
            } else {
                net.spoof_after_us = 250_000 + rng.random_range(0..300_000u64);
                sc.spoof_probe = rng.random_bool(0.6);
                if rng.random_bool(0.5) { sc.close = "s".into(); sc.close_at_us = net.spoof_after_us + net.delay_us + pick(rng, &[5_000u64, 400_000, 1_500_000]); }
            }
            sc.linger_us = 3_000_000;
            sc.deadline_us = 60_000_000;
        }
        // a slow one-way trickle that lasts several idle timeouts: the sender hears nothing but acknowledgements
        "trickle" => {
            net.delay_us = pick(rng, &[5_000u64, 20_000]);
            let idle = pick(rng, &[4_000u64, 10_000]);
            for l in [&mut sc.c, &mut sc.s] { l.idle_ms = idle; }
            let opener = pick(rng, &["c", "s"]);
            sc.streams = vec![StreamSpec { opener: opener.into(), bidi: false, send: 200, chunk: 10, finish: true,
                                           write_delay_us: idle * 1000 * pick(rng, &[3u64, 6]) / 10, ..Default::default() }];
            sc.deadline_us = 300_000_000;
        }
        // stream / connection credit updates get lost while the reader consumes in small steps and the sender has used
        // up everything it was granted; afterwards the network is perfect
        "credit_loss" => {
            net.delay_us = pick(rng, &[5_000u64, 20_000]);
            net.drop = pick(rng, &[60u32, 120, 200]);
            net.heal_at_us = Some(pick(rng, &[3_000_000u64, 8_000_000]));
            for l in [&mut sc.c, &mut sc.s] {
                l.sd_uni = pick(rng, &[4_000u64, 10_000]);
                l.sd_bidi_remote = pick(rng, &[4_000u64, 10_000]);
                l.sd_bidi_local = pick(rng, &[4_000u64, 10_000]);
                l.data_window = pick(rng, &[8_000u64, 20_000, 1 << 20]);
                l.idle_ms = 30_000;
            }
            let n = rng.random_range(1..3);
            sc.streams = (0..n).map(|_| StreamSpec { opener: pick(rng, &["c", "s"]).into(), bidi: rng.random_bool(0.4), send: pick(rng, &[30_000u64, 80_000]), reply: 0,
                                                    chunk: pick(rng, &[1_000usize, 4_096, 30_000]), reply_chunk: 1000, finish: true,
                                                    read_delay_us: pick(rng, &[0u64, 0, 2_000, 40_000]), read_mode: pick(rng, &["", "", "tokio4096", "vec8", "tokio64"]).to_string(),
                                                    ..Default::default() }).collect();
            sc.deadline_us = 200_000_000;
        }
        // one side's transport-parameter block is rewritten on its way into the (null TLS) handshake
        "tp_handshake" => {
            use crate::tamper::Tamper;
            let t = |victim: &str, op: &str, id: u64, body: &[u8]| Tamper { victim: victim.into(), op: op.into(), id, body: body.to_vec() };
            let cases = [
                // the client receives the rewritten server block
                (t("c", "none", 0, &[]), false), (t("c", "none", 0, &[]), true),
                (t("c", "drop", 0, &[]), false), (t("c", "alter", 0, &[]), false), (t("c", "drop", 15, &[]), false), (t("c", "alter", 15, &[]), false),
                (t("c", "drop", 16, &[]), true), (t("c", "alter", 16, &[]), true), (t("c", "set", 16, &[1, 2, 3, 4, 5, 6, 7, 8]), false),
                (t("c", "set", 3, &[0x44, 0xaf]), false), (t("c", "set", 10, &[21]), false), (t("c", "set", 14, &[1]), false),
                (t("c", "set", 11, &[0x80, 0, 0x40, 0]), false), (t("c", "set", 8, &[0xd0, 0, 0, 0, 0, 0, 0, 1]), false), (t("c", "dup", 4, &[]), false),
                (t("c", "set", 4, &[0x80, 0x10, 0, 0]), false), (t("c", "set", 999, &[1, 2, 3]), false),
                // the server receives the rewritten client block
                (t("s", "none", 0, &[]), false), (t("s", "drop", 15, &[]), false), (t("s", "alter", 15, &[]), false),
                (t("s", "set", 0, &[1, 2, 3, 4, 5, 6, 7, 8]), false), (t("s", "set", 2, &[9; 16]), false), (t("s", "set", 16, &[1, 2, 3, 4]), false),
                (t("s", "set", 13, &[0; 41]), false), (t("s", "set", 3, &[0x44, 0xaf]), false), (t("s", "set", 14, &[1]), false), (t("s", "set", 10, &[20]), false),
                (t("s", "dup", 1, &[]), false), (t("s", "set", 9, &[0x40, 0x64]), false),
            ];
            let (tm, retry) = cases[(seed % cases.len() as u64) as usize].clone();
            sc.tp_tamper = Some(tm);
            sc.retry = retry;
            net.delay_us = 5_000;
            sc.streams = vec![StreamSpec { opener: "c".into(), bidi: true, send: 500, reply: 500, chunk: 500, reply_chunk: 500, finish: true, ..Default::default() }];
            sc.deadline_us = 30_000_000;
            sc.linger_us = 200_000;
        }
        // base scenario for the TLC-enumerated fault schedules: everything fixed but the schedule (four variants by seed)
        "enum" => {
            net.delay_us = 10_000;
            let v = seed % 4;
            sc.streams = vec![
                StreamSpec { opener: "c".into(), bidi: true, send: 3_000, reply: 3_000, chunk: 1_000, reply_chunk: 1_000, finish: true, ..Default::default() },
                StreamSpec { opener: if v % 2 == 0 { "s".into() } else { "c".into() }, bidi: false, send: 1_500, chunk: 1_500, finish: true,
                             reset_at: if v == 3 { Some(1_000) } else { None }, ..Default::default() },
            ];
            if v >= 2 { for l in [&mut sc.c, &mut sc.s] { l.sd_bidi_remote = 1_000; l.sd_bidi_local = 1_000; l.sd_uni = 1_000; } }
            sc.deadline_us = 60_000_000;
        }
        // the network dies for good at some point of the handshake or transfer: both applications must learn it
        "blackhole" => {
            let at = pick(rng, &[1_000u64, 30_000, 90_000, 200_000, 600_000, 2_000_000]);
            let dir = pick(rng, &["both", "both", "c2s", "s2c"]);
            net.blackhole.push((dir.to_string(), at, u64::MAX / 4));
            for l in [&mut sc.c, &mut sc.s] {
                l.idle_ms = pick(rng, &[2_000u64, 5_000, 10_000]);
            }
            let n = rng.random_range(1..4);
            sc.streams = streams(rng, n, 200_000);
            sc.deadline_us = 100_000_000;
            sc.close = "none".into();
            // keep the simulation alive until both idle timers must have fired
            sc.linger_us = at + 45_000_000;
        }
        // finite outages (one or both directions, possibly several) shorter than the idle timeout, then a perfect network
        "heal" => {
            let n_out = rng.random_range(1..4);
            let mut t = pick(rng, &[1_000u64, 40_000, 150_000, 700_000]);
            for _ in 0..n_out {
                let dur = pick(rng, &[100_000u64, 800_000, 3_000_000, 9_000_000]);
                net.blackhole.push((pick(rng, &["both", "c2s", "s2c"]).to_string(), t, t + dur));
                t += dur + pick(rng, &[50_000u64, 500_000, 2_000_000]);
            }
            net.drop = pick(rng, &[0u32, 100]);
            net.heal_at_us = Some(t);
            let idle = pick(rng, &[30_000u64, 120_000, 120_000]);
            for l in [&mut sc.c, &mut sc.s] {
                l.idle_ms = idle;
                l.data_window = pick(rng, &[2000u64, 1 << 20]);
                l.sd_bidi_local = pick(rng, &[1000u64, 1 << 18]);
                l.sd_bidi_remote = pick(rng, &[1000u64, 1 << 18]);
                l.streams_bidi = pick(rng, &[1u64, 100]);
            }
            let n = rng.random_range(1..4);
            sc.streams = streams(rng, n, 20_000);
            sc.deadline_us = 200_000_000;
        }
        // an otherwise honest connection in which the victim receives one protocol-violating frame
        "violation" | "ack_unsent" => {
            let n = rng.random_range(2..5);
            sc.streams = streams(rng, n, 30_000);
            // make sure every stream kind exists in both directions
            sc.streams.push(StreamSpec { opener: "c".into(), bidi: false, send: 5000, chunk: 1000, finish: true, ..Default::default() });
            sc.streams.push(StreamSpec { opener: "s".into(), bidi: false, send: 5000, chunk: 1000, finish: true, ..Default::default() });
            sc.streams.push(StreamSpec { opener: "c".into(), bidi: true, send: 20_000, reply: 20_000, chunk: 1000, reply_chunk: 1000, finish: true, read_delay_us: 2_000, ..Default::default() });
            for sp in &mut sc.streams { sp.start_us = 0; sp.read_delay_us = sp.read_delay_us.max(500); }
            let victim = pick(rng, &["c", "s"]);
            let kinds = ["stream_beyond_sd", "stream_beyond_max_streams", "reset_final_shrink", "data_after_fin", "local_unopened", "send_only_stream",
                         "max_stream_data_recv_only", "stop_sending_recv_only", "max_streams_huge", "new_cid_bad_rpt", "handshake_done", "conn_data_beyond", "stream_in_handshake", "app_close_in_handshake",
                         "reset_beyond_sd", "fin_below_received"];
            let kind = if family == "ack_unsent" { "ack_next_unsent" } else { kinds[(seed % kinds.len() as u64) as usize] };
            if kind == "conn_data_beyond" {
                let l = if victim == "c" { &mut sc.c } else { &mut sc.s };
                l.data_window = 4000;
            }
            let in_handshake = kind.ends_with("_in_handshake");
            sc.violation = Some(Violation { victim: victim.into(), kind: kind.into(),
                                            // there are only a few Handshake packets per connection
                                            nth: if in_handshake { rng.random_range(1..3) } else { rng.random_range(1..12) },
                                            after_us: if in_handshake { 0 } else { pick(rng, &[0u64, 100_000, 250_000]) } });
            net.delay_us = 20_000;
            sc.deadline_us = 30_000_000;
        }
        _ => panic!("unknown family {family}"),
    }
    // vectored / buffered writers are interesting when the send buffer is smaller than one application write
    if sc.streams.iter().any(|sp| sp.write_mode.starts_with("tokio")) && rng.random_bool(0.7) {
        let b = pick(rng, &[1500u32, 2000, 3000, 6000]);
        sc.c.send_buf = b;
        sc.s.send_buf = b;
        for sp in &mut sc.streams {
            if sp.write_mode.starts_with("tokio") {
                sp.chunk = pick(rng, &[1500usize, 3000, 4096, 10_000]);
                sp.reply_chunk = pick(rng, &[1500usize, 3000, 4096]);
            }
        }
    }
    small_chunks_fix(&mut sc.streams);
    // the path MTU is at most what the smaller endpoint accepts (larger datagrams are dropped, not truncated)
    if net.mtu == 0 {
        net.mtu = sc.c.max_mtu.min(sc.s.max_mtu) as usize;
    }
    sc.net = net;
    sc
}

//! C18: dc packets.  Genuine packets of every kind are produced with the real encoders / the real path-secret maps;
//! every byte of each is mutated; originals and mutants go through the real decoders, `decrypt`, and (for the secret
//! control packets) through the client's path-secret map.  What happened is recorded for Trace_DcControl; nothing is
//! judged here except the round trip of the codecs (which the specification also requires to be `ok`).
use crate::{dcmap, util::*};
use rand::{rngs::StdRng, Rng, SeedableRng};
use s2n_codec::{DecoderBufferMut, EncoderBuffer};
use s2n_quic_core::{buffer::reader::incremental::Incremental, varint::VarInt};
use s2n_quic_dc::{
    credentials::{self, Credentials},
    crypto::{self, awslc},
    packet::{datagram, secret_control, stream},
    stream::testing::{Client, Server},
};
use serde_json::{json, Value};
use std::{net::UdpSocket, sync::{atomic::{AtomicU64, Ordering}, Arc}, time::Duration};

fn vi(x: u64) -> VarInt { VarInt::new(x).unwrap() }

fn keys(suite: &str, k: u8) -> (awslc::seal::Application, awslc::open::Application) {
    let (alg, klen) = if suite == "aes256" { (&awslc::AES_256_GCM, 32) } else { (&awslc::AES_128_GCM, 16) };
    let key: Vec<u8> = (0..klen).map(|i| (i as u8).wrapping_mul(7) ^ k).collect();
    let iv = [k ^ 0x42; 12];
    (awslc::seal::Application::new(&key, iv, alg), awslc::open::Application::new(&key, iv, alg))
}

struct StreamFields { pn: u64, offset: u64, payload: Vec<u8>, fin: bool, app_header: Vec<u8>, control: Vec<u8>, queue: Option<u64>, next_ctl: u64 }

fn encode_stream(f: &StreamFields, sealer: &awslc::seal::Application, creds: &Credentials) -> Vec<u8> {
    let mut buf = vec![0u8; f.payload.len() + f.app_header.len() + f.control.len() + 200];
    let enc = EncoderBuffer::new(&mut buf);
    let mut payload = &f.payload[..];
    let mut inc = Incremental::new(vi(f.offset));
    let mut reader = inc.with_storage(&mut payload, f.fin).unwrap();
    let mut hdr = &f.app_header[..];
    let n = stream::encoder::encode(enc, f.queue.map(vi), stream::Id::default().reliable(), vi(f.pn), vi(f.next_ctl), vi(f.app_header.len() as u64),
                                    &mut hdr, vi(f.control.len() as u64), &&f.control[..], &mut reader, sealer, creds);
    buf.truncate(n);
    buf
}

/// (decoded, decrypted, fields equal to what was encoded)
fn open_stream(bytes: &[u8], opener: &awslc::open::Application, f: &StreamFields, creds: &Credentials, genuine: bool) -> (bool, bool, bool) { open_stream_ctl(bytes, opener, f, creds, genuine, None, f.pn) }

/// `ctl`: the control key that authenticates the retransmission fix-up (None: first transmissions only); `pn`: the packet number the packet must show
fn open_stream_ctl(bytes: &[u8], opener: &awslc::open::Application, f: &StreamFields, creds: &Credentials, genuine: bool, ctl: Option<&awslc::open::control::Stream>, pn: u64) -> (bool, bool, bool) {
    use crypto::open::Application as _;
    let mut raw = bytes.to_vec();
    let tag_len = opener.tag_len();
    let Ok((mut p, _rest)) = stream::decoder::Packet::decode(DecoderBufferMut::new(&mut raw), (), tag_len) else { return (false, false, false) };
    let same = p.packet_number() == vi(pn) && p.stream_offset() == vi(f.offset) && p.is_fin() == f.fin && p.application_header() == &f.app_header[..]
        && p.source_queue_id() == f.queue.map(vi) && p.credentials() == creds && p.payload().len() == f.payload.len()
        && p.next_expected_control_packet() == vi(f.next_ctl) && p.control_data() == &f.control[..];
    let control = crypto::open::control::stream::Reliable::default();
    let ok = match ctl { Some(c) => p.decrypt_in_place(opener, c).is_ok(), None => p.decrypt_in_place(opener, &control).is_ok() };
    let same = same && (!ok || p.payload() == &f.payload[..]);
    // the copying path (decrypt into a separate buffer) must come to the same verdict
    let mut raw2 = bytes.to_vec();
    let (ok2, same2) = match stream::decoder::Packet::decode(DecoderBufferMut::new(&mut raw2), (), tag_len) {
        Ok((mut p2, _)) => {
            let mut outb = vec![0u8; p2.payload().len()];
            let ok2 = match ctl { Some(c) => p2.decrypt(opener, c, crypto::UninitSlice::new(&mut outb)).is_ok(), None => p2.decrypt(opener, &control, crypto::UninitSlice::new(&mut outb)).is_ok() };
            (ok2, !ok2 || outb == f.payload)
        }
        Err(_) => (false, true),
    };
    (true, accepted(genuine, ok, ok2), same && same2)
}

struct DgFields { pn: Option<u64>, payload: Vec<u8>, app_header: Vec<u8>, control: Vec<u8>, port: u16, next_ctl: Option<u64> }

fn encode_dg(f: &DgFields, sealer: &awslc::seal::Application, creds: &Credentials) -> Vec<u8> {
    let mut buf = vec![0u8; f.payload.len() + f.app_header.len() + f.control.len() + 200];
    let enc = EncoderBuffer::new(&mut buf);
    let mut payload = &f.payload[..];
    let mut hdr = &f.app_header[..];
    let n = datagram::encoder::encode(enc, f.port, f.pn.map(vi), f.next_ctl.map(vi), vi(f.app_header.len() as u64), &mut hdr, &&f.control[..], vi(f.payload.len() as u64),
                                      &mut payload, sealer, creds);
    buf.truncate(n);
    buf
}

fn open_dg(bytes: &[u8], opener: &awslc::open::Application, f: &DgFields, creds: &Credentials, genuine: bool) -> (bool, bool, bool) {
    use crypto::open::Application as _;
    let mut raw = bytes.to_vec();
    let tag_len = opener.tag_len();
    let Ok((mut p, _rest)) = datagram::decoder::Packet::decode(DecoderBufferMut::new(&mut raw), (), tag_len) else { return (false, false, false) };
    let same = p.credentials() == creds && p.source_control_port() == f.port && p.application_header() == &f.app_header[..]
        && p.payload().len() == f.payload.len() && p.next_expected_control_packet() == f.next_ctl.map(vi) && p.control_data() == &f.control[..];
    let nonce = p.crypto_nonce();
    let key_phase = p.tag().key_phase();
    let header = p.header().to_vec();
    let tag = p.auth_tag().to_vec();
    let mut tag2 = tag.clone();
    let cipher = p.payload().to_vec();
    let ok = opener.decrypt_in_place(key_phase, nonce, &header, p.payload_mut(), &mut tag2).is_ok();
    let same = same && (!ok || p.payload() == &f.payload[..]);
    // the copying path must come to the same verdict
    let mut outb = vec![0u8; cipher.len()];
    let ok2 = opener.decrypt(key_phase, nonce, &header, &cipher, &tag, crypto::UninitSlice::new(&mut outb)).is_ok();
    let same = same && (!ok2 || outb == f.payload);
    (true, accepted(genuine, ok, ok2), same)
}

/// a genuine packet counts as accepted when every decryption path accepts it, a modified one when any path does
fn accepted(genuine: bool, in_place: bool, copying: bool) -> bool { if genuine { in_place && copying } else { in_place || copying } }

fn region(i: usize, len: usize, tag_len: usize, payload_len: usize) -> &'static str {
    if i >= len - tag_len { "auth_tag" } else if i >= len - tag_len - payload_len { "payload" } else if i == 0 { "tag" } else if i <= 24 { "credentials" } else { "header" }
}

/// dcpkt-record <seed> <count> <out>
pub fn record(args: &[String]) -> Value {
    silence_panics();
    let seed: u64 = args[0].parse().unwrap();
    let count: usize = args[1].parse().unwrap();
    let mut out = TraceOut::new(&args[2]);
    let mut rng = StdRng::seed_from_u64(seed ^ 0xdc18);
    let (mut genuine, mut mutants) = (0u64, 0u64);
    for k in 0..count {
        let suite = if k % 2 == 0 { "aes128" } else { "aes256" };
        let (sealer, opener) = keys(suite, k as u8);
        let (_s2, wrong_opener) = keys(suite, (k as u8).wrapping_add(1));
        let mut id = [0u8; 16];
        rng.fill(&mut id);
        let creds = Credentials { id: credentials::Id::from(id), key_id: vi(rng.random_range(0..1u64 << 40)) };
        let plen = [0usize, 1, 15, 16, 17, 100, 1200, 1450, 8900][rng.random_range(0..9)];
        let payload: Vec<u8> = (0..plen).map(|i| (i as u8) ^ 0x3c).collect();
        let hlen = [0usize, 0, 1, 8, 40][rng.random_range(0..5)];
        let app_header: Vec<u8> = (0..hlen).map(|i| i as u8).collect();
        // control data travelling in a stream packet next to an application header (opaque bytes for the codec)
        let clen = [0usize, 0, 1, 5, 33][rng.random_range(0..5)];
        let control: Vec<u8> = (0..clen).map(|i| 0xa0 ^ i as u8).collect();
        let big = |rng: &mut StdRng| [0u64, 1, 63, 64, 16383, 16384, (1 << 30) - 1, 1 << 30, (1 << 40) + 5][rng.random_range(0..9)];
        for kind in ["stream", "stream_retx", "datagram"] {
            let r = std::panic::catch_unwind(std::panic::AssertUnwindSafe(|| {
                let mut evs: Vec<Value> = vec![];
                let (bytes, open): (Vec<u8>, Box<dyn Fn(&[u8], &awslc::open::Application, bool) -> (bool, bool, bool)>) = if kind == "stream_retx" {
                    // a packet the sender retransmits under a new packet number: the header is rewritten in place and the
                    // rewritten bytes are covered by a tag under the stream's control key
                    let base = [0u64, 1, 63, 16383, 1 << 30][rng.random_range(0..5)];
                    let f = StreamFields { pn: base, offset: big(&mut rng), payload: payload.clone(), fin: rng.random_bool(0.3), app_header: vec![], control: vec![],
                                           queue: if rng.random_bool(0.5) { Some(rng.random_range(0..1000)) } else { None }, next_ctl: big(&mut rng) };
                    let mut bytes = encode_stream(&f, &sealer, &creds);
                    let ckey = [0x17u8 ^ k as u8; 64];
                    let csealer = awslc::seal::control::Stream::new(&ckey, &aws_lc_rs::hmac::HMAC_SHA256);
                    let copener = awslc::open::control::Stream::new(&ckey, &aws_lc_rs::hmac::HMAC_SHA256);
                    let new_pn = base + [1u64, 4, 200, 70_000][rng.random_range(0..4)];
                    let space = if rng.random_bool(0.5) { stream::PacketSpace::Stream } else { stream::PacketSpace::Recovery };
                    stream::decoder::Packet::retransmit(DecoderBufferMut::new(&mut bytes), space, vi(new_pn), &csealer).expect("retransmit");
                    (bytes, Box::new(move |b, o, g| open_stream_ctl(b, o, &f, &creds, g, Some(&copener), new_pn)))
                } else if kind == "stream" {
                    let f = StreamFields { pn: big(&mut rng), offset: big(&mut rng), payload: payload.clone(), fin: rng.random_bool(0.3), app_header: app_header.clone(), control: control.clone(),
                                           queue: if rng.random_bool(0.5) { Some(rng.random_range(0..1000)) } else { None }, next_ctl: big(&mut rng) };
                    let bytes = encode_stream(&f, &sealer, &creds);
                    (bytes, Box::new(move |b, o, g| open_stream(b, o, &f, &creds, g)))
                } else {
                    let f = DgFields { pn: if rng.random_bool(0.7) { Some(big(&mut rng)) } else { None }, payload: payload.clone(), app_header: app_header.clone(), control: vec![],
                                       port: rng.random(), next_ctl: if rng.random_bool(0.5) { Some(big(&mut rng)) } else { None } };
                    let f = DgFields { next_ctl: if f.pn.is_some() { f.next_ctl } else { None }, ..f };
                    // control data travels only in ack-eliciting datagrams
                    let f = DgFields { control: if f.next_ctl.is_some() { control.clone() } else { vec![] }, ..f };
                    let bytes = encode_dg(&f, &sealer, &creds);
                    (bytes, Box::new(move |b, o, g| open_dg(b, o, &f, &creds, g)))
                };
                let len = bytes.len();
                let (d, a, same) = open(&bytes, &opener, true);
                evs.push(json!({"ev": "data", "kind": kind, "suite": suite, "len": len, "mutated": false, "region": "none", "decoded": d, "authentic": a, "roundtrip": same}));
                let (d, a, _) = open(&bytes, &wrong_opener, false);
                evs.push(json!({"ev": "data", "kind": kind, "suite": suite, "len": len, "mutated": true, "region": "key", "decoded": d, "authentic": a, "roundtrip": true}));
                // every byte (long packets: every byte of the first 120 and last 40, sampled in between), one random bit or byte value each
                let positions: Vec<usize> = if len <= 200 { (0..len).collect() } else { (0..120).chain((120..len - 40).step_by(37)).chain(len - 40..len).collect() };
                for i in positions {
                    let mut m = bytes.clone();
                    if rng.random_bool(0.7) { m[i] ^= 1 << rng.random_range(0..8); } else { let old = m[i]; while m[i] == old { m[i] = rng.random(); } }
                    let (d, a, _) = open(&m, &opener, false);
                    evs.push(json!({"ev": "data", "kind": kind, "suite": suite, "len": len, "mutated": true, "region": region(i, len, 16, plen), "at": i, "xor": m[i] ^ bytes[i], "decoded": d, "authentic": a, "roundtrip": true}));
                }
                // truncation and extension
                for cut in [1usize, 16, len / 2] {
                    if cut < len { let (d, a, _) = open(&bytes[..len - cut], &opener, false); evs.push(json!({"ev": "data", "kind": kind, "suite": suite, "len": len, "mutated": true, "region": "truncated", "decoded": d, "authentic": a, "roundtrip": true})); }
                }
                evs
            }));
            match r {
                Ok(evs) => { genuine += 1; mutants += evs.len() as u64 - 1; for e in evs { out.emit(e); } }
                Err(e) => out.emit(json!({"ev": "panic", "what": kind, "msg": panic_msg(e)})),
            }
        }
        // arbitrary bytes never crash a decoder
        let n = rng.random_range(0..200);
        let junk: Vec<u8> = (0..n).map(|_| rng.random()).collect();
        let r = std::panic::catch_unwind(|| {
            let mut a = junk.clone(); let _ = stream::decoder::Packet::decode(DecoderBufferMut::new(&mut a), (), 16).is_ok();
            let mut a = junk.clone(); let _ = datagram::decoder::Packet::decode(DecoderBufferMut::new(&mut a), (), 16).is_ok();
            let mut a = junk.clone(); let _ = s2n_quic_dc::packet::control::decoder::Packet::decode(DecoderBufferMut::new(&mut a), (), 16).is_ok();
            let mut a = junk.clone(); let _ = secret_control::Packet::decode(DecoderBufferMut::new(&mut a)).is_ok();
        });
        out.emit(match r { Ok(()) => json!({"ev": "junk", "len": n}), Err(e) => json!({"ev": "panic", "what": "junk", "msg": panic_msg(e)}) });
    }
    let n = out.finish();
    json!({"events": n, "runs": genuine, "genuine_packets": genuine, "mutants": mutants})
}

/// dcctl-record <seed> <runs> <out>: genuine secret-control packets from the real server map and all their single-byte
/// mutants against the client's path-secret map
pub fn control(args: &[String]) -> Value {
    silence_panics();
    let seed: u64 = args[0].parse().unwrap();
    let runs: usize = args[1].parse().unwrap();
    let mut out = TraceOut::new(&args[2]);
    let mut rng = StdRng::seed_from_u64(seed ^ 0x18c7);
    let rt = dcmap::runtime();
    let _g = rt.enter();
    let ctl = UdpSocket::bind("127.0.0.1:1337").expect("control socket 127.0.0.1:1337");
    ctl.set_read_timeout(Some(Duration::from_millis(200))).ok();
    let (mut genuine, mut forged) = (0u64, 0u64);
    let mut spliced = 0u64;
    for _run in 0..runs {
        let server = Server::builder().udp().build();
        let client = Client::builder().build();
        let peer = client.handshake_with(&server).expect("test handshake");
        let server_addr = server.local_addr();
        let hs = Arc::new(AtomicU64::new(0));
        {
            let hs = hs.clone();
            peer.map().register_request_handshake(Box::new(move |_addr, _reason| { hs.fetch_add(1, Ordering::SeqCst); None }));
        }
        out.emit(json!({"ev": "reset"}));
        let observe = |out: &mut TraceOut| {
            let s = dcmap::seal(&peer);
            out.emit(json!({"ev": "obs", "next": *s.creds.key_id, "has": peer.map().contains(&server_addr), "hs": hs.load(Ordering::SeqCst), "secrets": peer.map().secrets_len()}));
        };
        observe(&mut out);
        let recv_all = |ctl: &UdpSocket| -> Vec<Vec<u8>> {
            let mut v = vec![];
            let mut buf = [0u8; 512];
            while let Ok((n, _)) = ctl.recv_from(&mut buf) { v.push(buf[..n].to_vec()); ctl.set_read_timeout(Some(Duration::from_millis(30))).ok(); }
            ctl.set_read_timeout(Some(Duration::from_millis(200))).ok();
            v
        };
        let mut packets: Vec<(String, Vec<u8>)> = vec![];
        // ReplayDetected: the same protected packet offered twice
        let mut draw = |out: &mut TraceOut| { let s = dcmap::seal(&peer); out.emit(json!({"ev": "draw", "id": *s.creds.key_id})); s };
        let s1 = draw(&mut out);
        let _ = dcmap::open(&server, &s1);
        let _ = dcmap::open(&server, &s1);
        for d in recv_all(&ctl) { packets.push(("any".into(), d)); }
        // StaleKey: a key id far behind the receiver's window
        let old = draw(&mut out);
        let mut newest = draw(&mut out);
        for _ in 0..rng.random_range(900..1100) { newest = draw(&mut out); }
        let _ = dcmap::open(&server, &newest);
        let _ = dcmap::open(&server, &old);
        for d in recv_all(&ctl) { packets.push(("any".into(), d)); }
        // UnknownPathSecret: the server has lost its state
        server.map().drop_state();
        let s3 = draw(&mut out);
        let mut control_out = Vec::new();
        let _ = server.map().open_once(&s3.creds, None, &mut control_out);
        if !control_out.is_empty() { packets.push(("any".into(), control_out)); }
        for d in recv_all(&ctl) { packets.push(("any".into(), d)); }
        observe(&mut out);
        // mutants first (state must not move), then the genuine packet, then a replay of it
        let apply = |out: &mut TraceOut, bytes: &[u8], auth: bool| {
            let mut b = bytes.to_vec();
            let r = std::panic::catch_unwind(std::panic::AssertUnwindSafe(|| {
                match secret_control::Packet::decode(DecoderBufferMut::new(&mut b)) {
                    Err(_) => json!({"ev": "ctl", "kind": "undecodable", "auth": auth, "accepted": false}),
                    Ok((p, _)) => match &p {
                        secret_control::Packet::StaleKey(x) => { let r = peer.map().handle_stale_key_packet(x, &server_addr); json!({"ev": "ctl", "kind": "stale_key", "auth": auth, "accepted": r.is_some(), "m": r.map(|v| *v.min_key_id).unwrap_or(0)}) }
                        secret_control::Packet::ReplayDetected(x) => { let r = peer.map().handle_replay_detected_packet(x, &server_addr); json!({"ev": "ctl", "kind": "replay_detected", "auth": auth, "accepted": r.is_some()}) }
                        secret_control::Packet::UnknownPathSecret(x) => { let r = peer.map().handle_unknown_path_secret_packet(x, &server_addr); json!({"ev": "ctl", "kind": "unknown_path_secret", "auth": auth, "accepted": r.is_some()}) }
                    },
                }
            }));
            out.emit(match r { Ok(v) => v, Err(e) => json!({"ev": "panic", "what": "secret control", "msg": panic_msg(e)}) });
        };
        // splice: the server is asked about ids that differ from the live one in a single byte; each answer
        // (UnknownPathSecret for the other id, genuinely signed) is re-labelled with the live id and offered to the client
        {
            let live = draw(&mut out).creds;
            let live_id: [u8; 16] = live.id.as_ref().try_into().unwrap();
            for b in 0..16 {
                let mut other = live_id;
                other[b] ^= [0x01u8, 0x80, 0xff][rng.random_range(0..3)];
                let oc = Credentials { id: credentials::Id::from(other), key_id: live.key_id };
                let mut answer = Vec::new();
                let _ = server.map().open_once(&oc, None, &mut answer);
                for d in recv_all(&ctl) { if answer.is_empty() { answer = d; } }
                if let Some(pos) = answer.windows(16).position(|w| w == other) {
                    answer[pos..pos + 16].copy_from_slice(&live_id);
                    apply(&mut out, &answer, false);
                    forged += 1;
                    spliced += 1;
                }
            }
            observe(&mut out);
        }
        for (_k, bytes) in &packets {
            for i in 0..bytes.len() {
                let mut m = bytes.clone();
                if rng.random_bool(0.6) { m[i] ^= 1 << rng.random_range(0..8); } else { let old = m[i]; while m[i] == old { m[i] = rng.random(); } }
                apply(&mut out, &m, false);
                forged += 1;
                if i % 8 == 0 { observe(&mut out); }
            }
            for cut in 1..bytes.len().min(20) { apply(&mut out, &bytes[..bytes.len() - cut], false); forged += 1; }
            observe(&mut out);
            apply(&mut out, bytes, true);
            genuine += 1;
            observe(&mut out);
            apply(&mut out, bytes, true);
            observe(&mut out);
        }
        // a control packet of another connection (authentic there, not here)
        let server2 = Server::builder().udp().build();
        let client2 = Client::builder().build();
        if let Ok(peer2) = client2.handshake_with(&server2) {
            let sx = dcmap::seal(&peer2);
            let _ = dcmap::open(&server2, &sx);
            let _ = dcmap::open(&server2, &sx);
            for d in recv_all(&ctl) { apply(&mut out, &d, false); forged += 1; }
            observe(&mut out);
        }
    }
    let n = out.finish();
    json!({"events": n, "runs": runs, "genuine_control_packets": genuine, "forged_control_packets": forged, "spliced_answers": spliced})
}

//! C19: dc key ids — replay of generated id sequences into receiver::State, long random
//! sequential histories, and multi-threaded runs of the real receiver / sender.
use crate::util::*;
use rand::{rngs::StdRng, Rng, SeedableRng};
use s2n_quic_core::varint::VarInt;
use s2n_quic_dc::{
    credentials::{Credentials, Id},
    path::secret::receiver::{Error, State},
};
use serde_json::{json, Value};
use std::sync::Arc;

const MAXV: u64 = (1u64 << 62) - 1;

fn creds(k: u64) -> Credentials {
    Credentials { id: Id::from([7u8; 16]), key_id: VarInt::new(k).unwrap() }
}
fn name(r: Result<(), Error>) -> &'static str {
    match r {
        Ok(()) => "ok",
        Err(Error::AlreadyExists) => "exists",
        Err(Error::Unknown) => "unknown",
    }
}

/// model ids >= CLUSTER belong to a second cluster that the embedding moves `far` away (a multiple of 2^32
/// or more): differences inside a cluster are kept, clusters stay more than a window apart
const CLUSTER: u64 = 10_000;
fn emb(base: u64, far: u64, x: u64) -> u64 {
    if x >= CLUSTER { base + far + (x - CLUSTER) } else { base + x }
}

fn replay_one(beh: &Value, base: u64, model_max: u64, far: u64) -> Result<usize, String> {
    let steps = beh.as_array().unwrap();
    let is_max = base + model_max == MAXV;
    if !is_max && steps.iter().any(|s| s["id"].as_u64().unwrap() == model_max) {
        return Ok(0);
    }
    if steps.iter().any(|s| { let x = s["id"].as_u64().unwrap(); x != model_max && emb(base, far, x) >= MAXV - 1 }) {
        return Ok(0); // this embedding would leave the id space
    }
    let st = State::new();
    if *st.minimum_unseen_key_id() != 0 {
        return Err("fresh receiver: minimum_unseen_key_id != 0".into());
    }
    for (i, s) in steps.iter().enumerate() {
        let id = if s["id"].as_u64().unwrap() == model_max { base + model_max } else { emb(base, far, s["id"].as_u64().unwrap()) };
        let pre = st.pre_authentication(&creds(id));
        let r = name(st.post_authentication(&creds(id)));
        if r != s["res"].as_str().unwrap() {
            return Err(format!("step {i}: id {id} -> {r}, expected {}", s["res"]));
        }
        if pre.is_err() && r == "ok" {
            return Err(format!("step {i}: pre_authentication rejected an id that post_authentication accepted"));
        }
        let mu = *st.minimum_unseen_key_id();
        let exp = emb(base, far, s["minunseen"].as_u64().unwrap()).min(MAXV);
        // before anything is accepted the model says 0 relative to nothing: the code reports 0 too
        let exp = if s["minunseen"].as_u64().unwrap() == 0 { 0 } else { exp };
        if mu != exp {
            return Err(format!("step {i}: minimum_unseen_key_id {mu}, expected {exp}"));
        }
    }
    Ok(steps.len())
}

pub fn replay(args: &[String]) -> Value {
    let behs = read_behaviours(&args[0]);
    let model_max: u64 = args[1].parse().unwrap();
    // (base, distance of the second cluster)
    let embs: [(u64, u64); 7] = [(0, CLUSTER), (5, CLUSTER), (1 << 31, CLUSTER), (MAXV - model_max, CLUSTER),
                                 (0, 1 << 32), (3, (1 << 33) + (1 << 32)), (0, (1u64 << 40) + 896)];
    silence_panics();
    let results = par_map(&behs, 12, |idx, b| {
        let mut steps = 0;
        let mut bad = Vec::new();
        for (base, far) in embs {
            if far != CLUSTER && b.as_array().unwrap().iter().any(|s| s["id"].as_u64().unwrap() == model_max) {
                continue;
            }
            match std::panic::catch_unwind(|| replay_one(b, base, model_max, far)) {
                Ok(Ok(n)) => steps += n,
                Ok(Err(m)) => bad.push(json!({"behaviour": idx, "base": base.to_string(), "far": far.to_string(), "what": m, "steps": b})),
                Err(p) => bad.push(json!({"behaviour": idx, "base": base.to_string(), "what": format!("panic: {}", panic_msg(p)), "steps": b})),
            }
        }
        (steps, bad)
    });
    let mut steps = 0;
    let mut bad = Vec::new();
    for (s, b) in results {
        steps += s;
        bad.extend(b);
    }
    let n = bad.len();
    bad.truncate(5);
    json!({"behaviours": behs.len(), "steps": steps, "mismatches": n, "first": bad, "sample": behs.get(behs.len() / 3)})
}

/// sequential random histories + concurrent runs -> ndjson
pub fn record(args: &[String]) -> Value {
    let seed: u64 = args[0].parse().unwrap();
    let runs: usize = args[1].parse().unwrap();
    let ops: usize = args[2].parse().unwrap();
    let mut out = TraceOut::new(&args[3]);
    let mut rng = StdRng::seed_from_u64(seed);
    // ---- sequential
    for _ in 0..runs {
        out.emit(json!({"ev": "reset"}));
        let st = State::new();
        let mut max: u64 = rng.random_range(0..3000);
        for _ in 0..ops {
            let id = match rng.random_range(0..10) {
                0 => max + rng.random_range(1..4),
                1 => max + rng.random_range(1..2000),
                2 => max.saturating_sub(895 + rng.random_range(0..3u64)) + rng.random_range(0..2u64),
                3 => max.saturating_sub(rng.random_range(0..900u64)),
                4 => max.saturating_sub(rng.random_range(0..20u64)),
                5 => max + 896 + rng.random_range(0..3u64) - 1,
                6 => rng.random_range(0..max + 2),
                _ => max.saturating_sub(rng.random_range(0..1800u64)),
            };
            let r = name(st.post_authentication(&creds(id)));
            if r == "ok" {
                max = max.max(id);
            }
            out.emit(json!({"ev": "recv", "id": id, "res": r, "minunseen": *st.minimum_unseen_key_id()}));
        }
    }
    // ---- concurrent receivers: every id is offered by at least two threads
    let cruns = runs.max(4);
    let mut cevents = 0u64;
    for run in 0..cruns {
        out.emit(json!({"ev": "reset"}));
        let st = Arc::new(State::new());
        let nth = 2 + (run % 3);
        let base: u64 = rng.random_range(0..5000);
        let pool: Vec<u64> = (0..ops.min(400)).map(|_| base + match rng.random_range(0..4) {
            0 => rng.random_range(0..50u64),
            1 => rng.random_range(0..1000u64),
            2 => rng.random_range(880..920u64),
            _ => rng.random_range(0..2500u64),
        }).collect();
        let mut handles = Vec::new();
        for t in 0..nth {
            let st = st.clone();
            let mut mine = pool.clone();
            // different order per thread
            let mut r2 = StdRng::seed_from_u64(seed ^ (run as u64) << 8 ^ t as u64);
            for i in (1..mine.len()).rev() {
                let j = r2.random_range(0..=i);
                mine.swap(i, j);
            }
            handles.push(std::thread::spawn(move || {
                let mut log = Vec::with_capacity(mine.len());
                for id in mine {
                    let r = name(st.post_authentication(&creds(id)));
                    log.push((id, r));
                    if id % 7 == 0 {
                        std::thread::yield_now();
                    }
                }
                log
            }));
        }
        for (t, h) in handles.into_iter().enumerate() {
            for (id, r) in h.join().unwrap() {
                out.emit(json!({"ev": "crecv", "th": t, "id": id, "res": r}));
                cevents += 1;
            }
        }
        out.emit(json!({"ev": "cend"}));
    }
    // ---- long concurrent runs: every thread offers every id of 0..n in ascending order (barrier every 256 ids so
    // that nobody falls out of the window); each id must be accepted exactly once over all threads
    let long_n: u64 = (ops as u64 * 25).min(20_000);
    for run in 0..2 {
        out.emit(json!({"ev": "reset"}));
        let st = Arc::new(State::new());
        let nth = 3 + run;
        let barrier = Arc::new(std::sync::Barrier::new(nth));
        let mut handles = Vec::new();
        for _t in 0..nth {
            let st = st.clone();
            let barrier = barrier.clone();
            handles.push(std::thread::spawn(move || {
                let mut log = Vec::new();
                for id in 0..long_n {
                    if id % 256 == 0 {
                        barrier.wait();
                    }
                    let r = name(st.post_authentication(&creds(id)));
                    if r == "ok" || id % 64 == 0 {
                        log.push((id, r));
                    }
                }
                log
            }));
        }
        for (t, h) in handles.into_iter().enumerate() {
            for (id, r) in h.join().unwrap() {
                out.emit(json!({"ev": "crecv", "th": t, "id": id, "res": r}));
                cevents += 1;
            }
        }
        out.emit(json!({"ev": "cend_long", "n": long_n}));
    }
    // ---- concurrent senders through the real map entry (Peer::seal_once)
    let sender = crate::dcmap::sender_runs(&mut out, seed, cruns.min(12), ops.min(300));
    let lines = out.finish();
    json!({"runs": runs, "concurrent_runs": cruns, "events": lines, "concurrent_events": cevents, "sender": sender})
}

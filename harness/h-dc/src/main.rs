mod dcmap;
mod dcpkt;
mod dcstream;
mod keyids;
#[path = "../../h-core/src/util.rs"]
mod util;

fn main() {
    if std::env::var("S2N_LOG").is_err() {
        std::env::set_var("S2N_LOG", "off");
    }
    let args: Vec<String> = std::env::args().skip(1).collect();
    let cmd = args.first().map(|s| s.as_str()).unwrap_or("");
    let rest = &args[1.min(args.len())..];
    let out = match cmd {
        "dcstream-sim" => dcstream::sim_record(rest),
        "dcstream-real" => dcstream::real_record(rest),
        "dcpkt-record" => dcpkt::record(rest),
        "dcctl-record" => dcpkt::control(rest),
        "keyids-replay" => keyids::replay(rest),
        "keyids-record" => keyids::record(rest),
        _ => {
            eprintln!("unknown command {cmd}");
            std::process::exit(2);
        }
    };
    println!("RESULT {}", out);
}

//! paired dc path-secret maps (client/server) built with the crate's own testing helpers
use crate::util::*;
use s2n_quic_dc::stream::testing::{Client, Server};
use serde_json::{json, Value};
use std::sync::Arc;

pub fn runtime() -> tokio::runtime::Runtime {
    tokio::runtime::Builder::new_multi_thread().worker_threads(2).enable_all().build().unwrap()
}

/// N threads draw key ids for the same path secret concurrently; StaleKey floors are applied
/// through authentic control packets where the loopback control channel is available.
pub fn sender_runs(out: &mut TraceOut, _seed: u64, runs: usize, per_thread: usize) -> Value {
    let rt = runtime();
    let _g = rt.enter();
    let mut issued = 0u64;
    for run in 0..runs {
        out.emit(json!({"ev": "reset"}));
        let server = Server::builder().udp().build();
        let client = Client::builder().build();
        let peer = Arc::new(client.handshake_with(&server).expect("test handshake"));
        let nth = 2 + run % 3;
        let mut hs = Vec::new();
        for _t in 0..nth {
            let peer = peer.clone();
            hs.push(std::thread::spawn(move || {
                let mut ids = Vec::with_capacity(per_thread);
                for i in 0..per_thread {
                    let (_sealer, creds, _params) = peer.seal_once();
                    ids.push(*creds.key_id);
                    if i % 5 == 0 {
                        std::thread::yield_now();
                    }
                }
                ids
            }));
        }
        for (t, h) in hs.into_iter().enumerate() {
            for id in h.join().unwrap() {
                out.emit(json!({"ev": "cnext", "th": t, "id": id}));
                issued += 1;
            }
        }
    }
    json!({"issued": issued})
}

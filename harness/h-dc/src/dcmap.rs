//! paired dc path-secret maps (client/server) built with the crate's own testing helpers;
//! the real seal -> open (dedup) -> control packet (StaleKey) -> sender flow.
use crate::util::*;
use s2n_codec::DecoderBufferMut;
use s2n_quic_core::packet::KeyPhase;
use s2n_quic_dc::{
    credentials::Credentials,
    crypto::{open::Application as _, seal::Application as _},
    packet::secret_control,
    path::secret::map::Peer,
    stream::testing::{Client, Server},
};
use serde_json::{json, Value};
use std::{net::UdpSocket, sync::Arc, time::Duration};

pub fn runtime() -> tokio::runtime::Runtime {
    tokio::runtime::Builder::new_multi_thread().worker_threads(2).enable_all().build().unwrap()
}

pub struct Sealed {
    pub creds: Credentials,
    pub header: [u8; 8],
    pub ct: Vec<u8>,
}

/// draws the next key id of the path secret and protects a small payload with it
pub fn seal(peer: &Peer) -> Sealed {
    let (sealer, creds, _params) = peer.seal_once();
    let header = [0xd0, 1, 2, 3, 4, 5, 6, 7];
    let mut buf = vec![0x5au8; 24 + sealer.tag_len()];
    sealer.encrypt(0, &header, None, &mut buf);
    Sealed { creds, header, ct: buf }
}

/// the receive path of the server map: lookup, decrypt, replay check.  "ok" | "exists" | "unknown" | "err:.."
pub fn open(server: &Server, s: &Sealed) -> String {
    let mut control_out = Vec::new();
    let Some(opener) = server.map().open_once(&s.creds, None, &mut control_out) else {
        return "rejected_pre_auth".into();
    };
    let mut ct = s.ct.clone();
    let tl = opener.tag_len();
    let n = ct.len() - tl;
    let (payload, tag) = ct.split_at_mut(n);
    match opener.decrypt_in_place(KeyPhase::Zero, 0, &s.header, payload, tag) {
        Ok(()) => "ok".into(),
        Err(e) => {
            let d = format!("{e:?}");
            if d.contains("ReplayDefinitelyDetected") { "exists".into() } else if d.contains("ReplayPotentiallyDetected") { "unknown".into() } else { format!("err:{d}") }
        }
    }
}

/// N threads draw key ids for the same path secret concurrently while authentic StaleKey packets
/// (produced by the real server map, received over the loopback control channel) are applied and REPLAYED.
pub fn sender_runs(out: &mut TraceOut, _seed: u64, runs: usize, per_thread: usize) -> Value {
    let rt = runtime();
    let _g = rt.enter();
    let mut issued = 0u64;
    let mut stale_applied = 0u64;
    // the testing handshake registers the client at this fixed address: control packets for it arrive here
    let ctl = UdpSocket::bind("127.0.0.1:1337").ok();
    if let Some(c) = &ctl {
        c.set_read_timeout(Some(Duration::from_millis(200))).ok();
    }
    for run in 0..runs {
        out.emit(json!({"ev": "reset"}));
        let server = Server::builder().udp().build();
        let client = Client::builder().build();
        let peer = Arc::new(client.handshake_with(&server).expect("test handshake"));
        let server_addr = server.local_addr();
        let nth = 2 + run % 3;
        let mut hs = Vec::new();
        for _t in 0..nth {
            let peer = peer.clone();
            hs.push(std::thread::spawn(move || {
                let mut ids = Vec::with_capacity(per_thread);
                for i in 0..per_thread {
                    let (_sealer, creds, _params) = peer.seal_once();
                    ids.push(*creds.key_id);
                    if i % 5 == 0 {
                        std::thread::yield_now();
                    }
                    if i % 50 == 49 {
                        std::thread::sleep(Duration::from_micros(300));
                    }
                }
                ids
            }));
        }
        // meanwhile: make the server emit StaleKey packets and apply / replay them on the client map
        let mut main_log: Vec<Value> = Vec::new();
        if let Some(ctl) = &ctl {
            let old = seal(&peer);
            main_log.push(json!({"ev": "cnext", "th": 15, "id": *old.creds.key_id}));
            let mut datagrams: Vec<Vec<u8>> = Vec::new();
            for round in 0..3 {
                // advance the server's window far beyond `old`, then offer `old`: too old -> StaleKey
                let mut newest = seal(&peer);
                main_log.push(json!({"ev": "cnext", "th": 15, "id": *newest.creds.key_id}));
                for _ in 0..(900 + 10 * round) {
                    newest = seal(&peer);
                    main_log.push(json!({"ev": "cnext", "th": 15, "id": *newest.creds.key_id}));
                }
                let r1 = open(&server, &newest);
                let r2 = open(&server, &old);
                main_log.push(json!({"ev": "note", "open_newest": r1, "open_old": r2}));
                let mut buf = [0u8; 256];
                while let Ok((n, _from)) = ctl.recv_from(&mut buf) {
                    datagrams.push(buf[..n].to_vec());
                    if datagrams.len() > 8 { break; }
                    ctl.set_read_timeout(Some(Duration::from_millis(20))).ok();
                }
                ctl.set_read_timeout(Some(Duration::from_millis(200))).ok();
                // apply every StaleKey seen so far again (replay), oldest first
                for d in datagrams.clone() {
                    let mut d2 = d.clone();
                    if let Ok((packet, _)) = secret_control::Packet::decode(DecoderBufferMut::new(&mut d2)) {
                        if let secret_control::Packet::StaleKey(p) = &packet {
                            if let Some(sk) = peer.map().handle_stale_key_packet(p, &server_addr) {
                                main_log.push(json!({"ev": "cstale", "th": 15, "m": *sk.min_key_id}));
                                stale_applied += 1;
                            }
                        }
                    }
                    let _s = seal(&peer);
                    main_log.push(json!({"ev": "cnext", "th": 15, "id": *_s.creds.key_id}));
                }
            }
        }
        for (t, h) in hs.into_iter().enumerate() {
            for id in h.join().unwrap() {
                out.emit(json!({"ev": "cnext", "th": t, "id": id}));
                issued += 1;
            }
        }
        for e in main_log {
            if e["ev"] != "note" {
                if e["ev"] == "cnext" { issued += 1; }
                out.emit(e);
            }
        }
    }
    json!({"issued": issued, "stale_key_packets_applied": stale_applied, "control_channel": ctl.is_some()})
}

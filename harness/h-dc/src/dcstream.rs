//! C20: s2n-quic-dc streams between the crate's testing Client and Server.
//!  dcstream-sim <seed> <count> <out>   : UDP transport inside the deterministic bach simulation, datagrams dropped by the
//!                                        network monitor (random rate, bursts, one direction), peers that vanish
//!  dcstream-real <seed> <count> <out>  : UDP and TCP transports over the loopback interface (no faults), operation orders
//! Every application call is recorded with its position in the byte stream; nothing is judged here (Trace_DcPipe does).
use crate::util::*;
use rand::{rngs::StdRng, Rng, SeedableRng};
use s2n_quic_dc::{
    stream::testing::{Client, Server},
    testing::{ext::*, sim, spawn},
};
use serde_json::{json, Value};
use std::{cell::RefCell, time::Duration};
use tokio::io::{AsyncReadExt, AsyncWriteExt};

thread_local! {
    static EV: RefCell<Vec<Value>> = const { RefCell::new(Vec::new()) };
    static DUP_SENDING: std::cell::Cell<bool> = const { std::cell::Cell::new(false) };
}
static REAL_EV: std::sync::Mutex<Vec<Value>> = std::sync::Mutex::new(Vec::new());
/// single-run mode: (output path, the run's reset line).  A simulation that is still busy 90 virtual seconds after the
/// client has finished everything (tasks of the library exchanging packets for ever) is cut short there: the events are
/// written with a final `lingering` event and the process exits.
static LINGER_OUT: std::sync::OnceLock<(String, String)> = std::sync::OnceLock::new();

fn now_us() -> u64 {
    if bach::is_active() { bach::time::Instant::now().elapsed_since_start().as_micros() as u64 } else { REAL_T0.get().map(|t| t.elapsed().as_micros() as u64).unwrap_or(0) }
}
static REAL_T0: std::sync::OnceLock<std::time::Instant> = std::sync::OnceLock::new();

fn emit(mut v: Value) {
    v.as_object_mut().unwrap().insert("t".into(), json!(now_us()));
    if std::env::var_os("VERIF_PROGRESS").is_some() { eprintln!("EV {}", v); }
    if bach::is_active() { EV.with(|e| e.borrow_mut().push(v)); } else { REAL_EV.lock().unwrap().push(v); }
}

fn pat(pipe: u64, off: u64) -> u8 {
    crate::util::pat(off.wrapping_add(pipe.wrapping_mul(0x9e37_79b9)))
}

#[derive(Clone, Debug, serde::Serialize)]
struct StreamPlan {
    request: u64,
    response: u64,
    wchunk: usize,
    rbuf: usize,
    /// the client: "shutdown" (write, shutdown, read to end) | "drop_after_write" (no shutdown, drop) | "read_first" (concurrent halves)
    client_mode: String,
    /// the server: "echo_len" (reads the request to its end, then responds) | "respond_early" (responds while reading) | "drop" (drops the stream after accept)
    server_mode: String,
    /// how each side ends its writing: "shutdown" (write calls, then shutdown) | "fin_last" (the last chunk is written by the
    /// call that also finishes the stream) | "fin_all" (the whole payload in one finishing write call)
    client_fin: String,
    server_fin: String,
    start_us: u64,
}

#[derive(Clone, Debug, serde::Serialize)]
struct Plan {
    seed: u64,
    mode: String, // "lossy" | "vanish" | "clean"
    drop_permille: u32,
    /// drop everything in [from, to) microseconds of one direction ("c2s" | "s2c" | "both")
    #[serde(skip_serializing_if = "Option::is_none")]
    outage: Option<(String, u64, u64)>,
    vanish_at_us: u64,
    /// vanish mode only, instead of a fixed instant: the server host disappears right after it has sent this many datagrams
    #[serde(skip_serializing_if = "Option::is_none")]
    vanish_after_server_packets: Option<u64>,
    /// targeted loss: the first `n` transmissions, in the given direction ("c2s" | "s2c"), of stream packets that carry the
    /// final offset (the end-of-stream signal: the last data packet or an empty packet after shutdown) are dropped
    #[serde(skip_serializing_if = "Option::is_none")]
    drop_fin: Option<(String, u32)>,
    /// simulation only: this share of the datagrams is delivered a second time a little later (sent again by a task on the
    /// sender's host from another port, as an on-path duplicator would)
    dup_permille: u32,
    /// real TCP runs only: the client's connection goes through a slow relay with minimal socket buffers (short writes)
    slow_tcp: bool,
    client_mtu: u16,
    server_mtu: u16,
    streams: Vec<StreamPlan>,
}

fn plan(seed: u64, rng: &mut StdRng, k: usize) -> Plan {
    let sizes = [0u64, 1, 100, 1200, 1472, 5000, 65_536, 300_000, 1_500_000];
    let mode = ["lossy", "lossy", "clean", "vanish"][k % 4].to_string();
    let n = rng.random_range(1..4);
    let streams = (0..n).map(|i| StreamPlan {
        request: sizes[rng.random_range(0..sizes.len())],
        response: sizes[rng.random_range(0..sizes.len())],
        wchunk: [1usize, 100, 1000, 1472, 16_384, 200_000][rng.random_range(0..6)],
        rbuf: [1usize, 7, 100, 1500, 65_536][rng.random_range(0..5)],
        client_mode: ["shutdown", "shutdown", "read_first", "drop_after_write", "late_fin"][rng.random_range(0..5)].to_string(),
        server_mode: ["echo_len", "echo_len", "respond_early", "drop"][rng.random_range(0..if mode == "vanish" { 3 } else { 4 })].to_string(),
        client_fin: ["shutdown", "shutdown", "fin_last", "fin_all"][rng.random_range(0..4)].to_string(),
        server_fin: ["shutdown", "shutdown", "fin_last", "fin_all"][rng.random_range(0..4)].to_string(),
        start_us: i as u64 * [0u64, 1_000, 500_000][rng.random_range(0..3)],
    }).collect::<Vec<_>>();
    // a client that finishes its request only after it has the whole response needs a server that answers while reading
    let streams = streams.into_iter().map(|mut s| { if s.client_mode == "late_fin" { s.server_mode = "respond_early".into(); } s }).collect::<Vec<_>>();
    // one-byte chunks on megabyte transfers only cost time
    let streams: Vec<StreamPlan> = streams.into_iter().map(|mut s| { if s.request > 70_000 || s.response > 70_000 { s.wchunk = s.wchunk.max(1000); } if s.response > 70_000 || s.request > 70_000 { s.rbuf = s.rbuf.max(1500); } s }).collect();
    // half of the vanish runs: datagram loss as well, and the server disappears after a number of datagrams that lies
    // within its response (so the end of the response may have arrived while earlier parts are still missing)
    let by_count = mode == "vanish" && rng.random_bool(0.5);
    let client_mtu = [1250u16, 1472, 1500, 9000, 32_000][rng.random_range(0..5)];
    let server_mtu = [1250u16, 1472, 1500, 9000, 32_000][rng.random_range(0..5)];
    let expected: u64 = streams.iter().map(|s: &StreamPlan| s.response / (server_mtu as u64 - 100) + 2 + s.request / (client_mtu as u64 - 100) / 2).sum();
    Plan {
        seed, mode: mode.clone(),
        drop_permille: if mode == "lossy" { [10u32, 50, 150][rng.random_range(0..3)] } else if by_count { [50u32, 150, 300][rng.random_range(0..3)] } else { 0 },
        vanish_after_server_packets: if by_count { Some(rng.random_range(1..expected + 6)) } else { None },
        slow_tcp: false,
        // duplication is OFF in the registered check (set VERIF_DC_DUP=1 to turn it on): the copies can only be sent from another
        // port, and runs with them stall until the idle timeout - not classified (DESIGN.md 10.4), so not part of the verdict
        dup_permille: { let d = if mode != "vanish" { [0u32, 0, 30, 150][rng.random_range(0..4)] } else { 0 }; if std::env::var_os("VERIF_DC_DUP").is_some() { d } else { 0 } },
        drop_fin: if mode != "vanish" && rng.random_bool(0.4) { Some((["c2s", "s2c"][rng.random_range(0..2)].to_string(), rng.random_range(1..4))) } else { None },
        outage: if mode == "lossy" && rng.random_bool(0.5) { let f = [500u64, 3_000, 50_000][rng.random_range(0..3)]; Some((["c2s", "s2c", "both"][rng.random_range(0..3)].to_string(), f, f + [2_000u64, 300_000, 4_000_000][rng.random_range(0..3)])) } else { None },
        vanish_at_us: if mode == "vanish" && !by_count { [0u64, 700, 3_000, 200_000][rng.random_range(0..4)] } else { 0 },
        client_mtu, server_mtu,
        streams,
    }
}

/// a write call that also finishes the stream
trait FinWrite { fn write_fin(&mut self, buf: &[u8]) -> impl std::future::Future<Output = std::io::Result<()>>; }
impl<Sub: s2n_quic_dc::event::Subscriber> FinWrite for s2n_quic_dc::stream::send::application::Writer<Sub> {
    async fn write_fin(&mut self, buf: &[u8]) -> std::io::Result<()> { let mut b = buf; self.write_all_from_fin(&mut b).await.map(|_| ()) }
}

async fn write_side<W: AsyncWriteExt + Unpin + FinWrite>(w: &mut W, pipe: u64, total: u64, chunk: usize, finish: bool, fin: &str) -> bool {
    let mut off = 0u64;
    let chunk = if finish && fin == "fin_all" { (total as usize).max(1) } else { chunk };
    if finish && fin != "shutdown" && total == 0 {
        emit(json!({"ev": "wstart_fin", "pipe": pipe, "off": 0, "len": 0}));
        if let Err(e) = w.write_fin(&[]).await { emit(json!({"ev": "werr", "pipe": pipe, "off": 0, "kind": format!("{:?}", e.kind())})); return false; }
        emit(json!({"ev": "w", "pipe": pipe, "off": 0}));
        emit(json!({"ev": "wfin", "pipe": pipe, "total": 0}));
        return true;
    }
    while off < total {
        let n = chunk.min((total - off) as usize);
        if finish && fin != "shutdown" && off + n as u64 == total {
            // the last (or only) chunk: written by the call that also finishes the stream
            let buf: Vec<u8> = (0..n as u64).map(|i| pat(pipe, off + i)).collect();
            emit(json!({"ev": "wstart_fin", "pipe": pipe, "off": off, "len": n}));
            if let Err(e) = w.write_fin(&buf).await { emit(json!({"ev": "werr", "pipe": pipe, "off": off, "kind": format!("{:?}", e.kind())})); return false; }
            off += n as u64;
            emit(json!({"ev": "w", "pipe": pipe, "off": off}));
            emit(json!({"ev": "wfin", "pipe": pipe, "total": total}));
            return true;
        }
        let buf: Vec<u8> = (0..n as u64).map(|i| pat(pipe, off + i)).collect();
        emit(json!({"ev": "wstart", "pipe": pipe, "off": off, "len": n}));
        if let Err(e) = w.write_all(&buf).await {
            emit(json!({"ev": "werr", "pipe": pipe, "off": off, "kind": format!("{:?}", e.kind())}));
            return false;
        }
        off += n as u64;
        emit(json!({"ev": "w", "pipe": pipe, "off": off}));
    }
    if finish {
        emit(json!({"ev": "wfin_start", "pipe": pipe, "total": total}));
        if let Err(e) = w.shutdown().await {
            emit(json!({"ev": "werr", "pipe": pipe, "off": off, "kind": format!("{:?}", e.kind())}));
            return false;
        }
        emit(json!({"ev": "wfin", "pipe": pipe, "total": total}));
    }
    true
}

async fn read_side<R: AsyncReadExt + Unpin>(r: &mut R, pipe: u64, rbuf: usize) -> Option<u64> {
    let mut off = 0u64;
    let mut buf = vec![0u8; rbuf];
    loop {
        match r.read(&mut buf).await {
            Ok(0) => { emit(json!({"ev": "eos", "pipe": pipe, "total": off})); return Some(off); }
            Ok(n) => {
                let ok = buf[..n].iter().enumerate().all(|(i, b)| *b == pat(pipe, off + i as u64));
                emit(json!({"ev": "r", "pipe": pipe, "off": off, "len": n, "ok": ok}));
                off += n as u64;
            }
            Err(e) => { emit(json!({"ev": "rerr", "pipe": pipe, "off": off, "kind": format!("{:?}", e.kind())})); return None; }
        }
    }
}

/// a byte-for-byte TCP relay in front of `upstream` that reads slowly through a minimal receive buffer, so that the
/// client's kernel accepts only part of each write
async fn slow_relay(upstream: std::net::SocketAddr, cut_after: Option<usize>) -> std::io::Result<std::net::SocketAddr> {
    let socket = tokio::net::TcpSocket::new_v4()?;
    socket.set_recv_buffer_size(1)?;
    socket.bind("127.0.0.1:0".parse().unwrap())?;
    let listener = socket.listen(4)?;
    let addr = listener.local_addr()?;
    tokio::spawn(async move {
        let Ok((down, _)) = listener.accept().await else { return };
        let Ok(up) = tokio::net::TcpStream::connect(upstream).await else { return };
        let (mut down_rx, mut down_tx) = down.into_split();
        let (mut up_rx, mut up_tx) = up.into_split();
        let back = tokio::spawn(async move { let _ = tokio::io::copy(&mut up_rx, &mut down_tx).await; let _ = down_tx.shutdown().await; });
        let mut buf = [0u8; 700];
        let mut total = 0usize;
        loop {
            let n = match down_rx.read(&mut buf).await { Ok(0) | Err(_) => break, Ok(n) => n };
            let n = match cut_after { Some(c) if total + n >= c => c - total, _ => n };
            if up_tx.write_all(&buf[..n]).await.is_err() { break; }
            if cut_after.is_some_and(|c| total + n >= c) {
                // the path dies here: the server sees a clean TCP close in the middle of the stream, the client a reset
                emit(json!({"ev": "vanished"}));
                let _ = up_tx.shutdown().await;
                back.abort();
                return;
            }
            total += n;
            if total % 16 == 0 { tokio::time::sleep(Duration::from_micros(50)).await; }
        }
        let _ = up_tx.shutdown().await;
    });
    Ok(addr)
}

async fn connect_slow(client: &Client, server: &Server, cut_after: Option<usize>) -> std::io::Result<s2n_quic_dc::stream::testing::Stream> {
    let relay = slow_relay(server.local_addr(), cut_after).await?;
    let socket = tokio::net::TcpSocket::new_v4()?;
    socket.set_send_buffer_size(1)?;
    let socket = socket.connect(relay).await?;
    client.connect_tcp_with(server, socket).await
}

async fn client_stream(client: &Client, addr_sim: bool, server: Option<&Server>, k: u64, sp: StreamPlan, slow: bool, cut: bool) {
    // real TCP runs through the relay: in "vanish" runs the relay cuts the path somewhere inside the request
    let cut_after = if slow && cut { Some((sp.request as usize * 2 / 3).max(1000)) } else { None };
    let (req, resp) = (2 * k, 2 * k + 1);
    emit(json!({"ev": "open", "k": k, "req": sp.request, "resp": sp.response, "client_mode": sp.client_mode, "server_mode": sp.server_mode}));
    let stream = if addr_sim { client.connect_sim("server:443").await } else if slow { connect_slow(client, server.unwrap(), cut_after).await } else { client.connect_to(server.unwrap()).await };
    let stream = match stream {
        Ok(s) => s,
        Err(e) => { emit(json!({"ev": "connect_err", "k": k, "kind": format!("{:?}", e.kind())})); return; }
    };
    // the first 16 bytes of every request tell the server what to do
    let (mut recv, mut send) = stream.into_split();
    let mut head = Vec::new();
    head.extend_from_slice(&k.to_be_bytes());
    head.extend_from_slice(&sp.response.to_be_bytes());
    head.push(match sp.server_mode.as_str() { "echo_len" => 0, "respond_early" => 1, _ => 2 });
    head.extend_from_slice(&(sp.rbuf as u32).to_be_bytes());
    head.extend_from_slice(&(sp.wchunk as u32).to_be_bytes());
    head.push(match sp.server_fin.as_str() { "fin_last" => 1, "fin_all" => 2, _ => 0 });
    if send.write_all(&head).await.is_err() {
        emit(json!({"ev": "werr", "pipe": req, "off": 0, "kind": "header"}));
        return;
    }
    match sp.client_mode.as_str() {
        "read_first" => {
            let w = async { write_side(&mut send, req, sp.request, sp.wchunk, true, &sp.client_fin).await };
            let r = async { read_side(&mut recv, resp, sp.rbuf).await };
            let _ = tokio::join!(w, r);
        }
        "late_fin" => {
            // the request stays open (written, not finished) while the client waits for the whole response
            if write_side(&mut send, req, sp.request, sp.wchunk, false, "shutdown").await {
                let _ = read_side(&mut recv, resp, sp.rbuf).await;
                emit(json!({"ev": "wfin_start", "pipe": req, "total": sp.request}));
                match tokio::io::AsyncWriteExt::shutdown(&mut send).await {
                    Ok(()) => emit(json!({"ev": "wfin", "pipe": req, "total": sp.request})),
                    Err(e) => emit(json!({"ev": "werr", "pipe": req, "off": sp.request, "kind": format!("{:?}", e.kind())})),
                }
            } else {
                let _ = read_side(&mut recv, resp, sp.rbuf).await;
            }
        }
        "drop_after_write" => {
            let _ = write_side(&mut send, req, sp.request, sp.wchunk, false, "shutdown").await;
            emit(json!({"ev": "dropped", "pipe": req}));
            emit(json!({"ev": "dropped", "pipe": resp}));
            drop(send);
            drop(recv);
        }
        _ => {
            if write_side(&mut send, req, sp.request, sp.wchunk, true, &sp.client_fin).await {
                let _ = read_side(&mut recv, resp, sp.rbuf).await;
            } else {
                let _ = read_side(&mut recv, resp, sp.rbuf).await;
            }
        }
    }
    emit(json!({"ev": "client_done", "k": k}));
}

async fn server_stream<Sub: s2n_quic_dc::event::Subscriber>(mut stream: s2n_quic_dc::stream::application::Stream<Sub>) {
    let mut head = [0u8; 26];
    if stream.read_exact(&mut head).await.is_err() {
        emit(json!({"ev": "server_head_err"}));
        return;
    }
    let k = u64::from_be_bytes(head[0..8].try_into().unwrap());
    let response = u64::from_be_bytes(head[8..16].try_into().unwrap());
    let mode = head[16];
    let rbuf = u32::from_be_bytes(head[17..21].try_into().unwrap()) as usize;
    let wchunk = u32::from_be_bytes(head[21..25].try_into().unwrap()) as usize;
    let fin = ["shutdown", "fin_last", "fin_all"][head[25].min(2) as usize];
    let (req, resp) = (2 * k, 2 * k + 1);
    match mode {
        2 => { emit(json!({"ev": "dropped", "pipe": req})); emit(json!({"ev": "dropped", "pipe": resp})); drop(stream); }
        1 => {
            let (mut r, mut w) = stream.into_split();
            let a = async { read_side(&mut r, req, rbuf).await };
            let b = async { write_side(&mut w, resp, response, wchunk, true, fin).await };
            let _ = tokio::join!(a, b);
        }
        _ => {
            let (mut r, mut w) = stream.into_split();
            let got = read_side(&mut r, req, rbuf).await;
            if got.is_some() {
                let _ = write_side(&mut w, resp, response, wchunk, true, fin).await;
            } else {
                emit(json!({"ev": "dropped", "pipe": resp}));
            }
        }
    }
    emit(json!({"ev": "server_done", "k": k}));
}

/// every simulation runs on a thread of its own: after a panic of the code under test the executor's thread-local
/// state is not reusable (later runs on the same thread crawl)
fn run_sim(p: Plan) -> Vec<Value> {
    std::thread::Builder::new().stack_size(64 << 20).spawn(move || run_sim_here(p)).unwrap().join()
        .unwrap_or_else(|e| vec![json!({"ev": "panic", "msg": panic_msg(e)})])
}

fn run_sim_here(p: Plan) -> Vec<Value> {
    EV.with(|e| e.borrow_mut().clear());
    let p2 = p.clone();
    let r = std::panic::catch_unwind(std::panic::AssertUnwindSafe(move || {
        sim(move || {
            let p = p2;
            let mut rng = StdRng::seed_from_u64(p.seed ^ 0x51ed);
            let (permille, outage, vanish_at) = (p.drop_permille, p.outage.clone(), if p.mode == "vanish" { Some(p.vanish_at_us) } else { None });
            let mut server_ip = None;
            let by_count = p.vanish_after_server_packets;
            let vanish_at = if by_count.is_some() { None } else { vanish_at };
            let mut from_server = 0u64;
            let mut gone = false;
            let drop_fin = p.drop_fin.clone();
            let mut fin_dropped = 0u32;
            let dups: std::sync::Arc<std::sync::Mutex<Vec<(bool, std::net::SocketAddr, Vec<u8>)>>> = Default::default();
            let stop = std::sync::Arc::new(std::sync::atomic::AtomicBool::new(false));
            let dup_permille = p.dup_permille;
            let dups_m = dups.clone();
            let mut npk = 0u64;
            let progress = std::env::var_os("VERIF_PROGRESS").is_some();
            ::bach::net::monitor::on_packet_sent(move |packet| {
                let t = now_us();
                npk += 1;
                if progress && ((npk % 20000 < 6 && npk > 100000) || (t > 6_100_000 && npk < 100000)) {
                    let mut raw = packet.transport.payload().to_vec();
                    let d = match s2n_quic_dc::packet::stream::decoder::Packet::decode(s2n_codec::DecoderBufferMut::new(&mut raw), (), 16) {
                        Ok((p, _)) => format!("stream tag={:?} pn={} off={} len={} fin={:?} retx={}", p.tag(), p.packet_number(), p.stream_offset(), p.payload().len(), p.final_offset(), p.is_retransmission()),
                        Err(_) => "not a stream packet".to_string(),
                    };
                    eprintln!("PKT n={npk} t={t} len={} {}->{} {d}", packet.transport.payload().len(), packet.source(), packet.destination());
                }
                if server_ip.is_none() && packet.destination().port() == 443 { server_ip = Some(packet.destination().ip()); }
                let to_server = Some(packet.destination().ip()) == server_ip;
                if gone { return ::bach::net::monitor::Command::Drop; }
                if let (Some(n), false) = (by_count, to_server) {
                    if server_ip.is_some() {
                        from_server += 1;
                        if from_server > n {
                            // the server host has sent its n datagrams: from now on it is gone
                            gone = true;
                            emit(json!({"ev": "vanished"}));
                            return ::bach::net::monitor::Command::Drop;
                        }
                    }
                }
                if let Some((dir, times)) = &drop_fin {
                    if fin_dropped < *times && (dir == "c2s") == to_server {
                        let mut raw = packet.transport.payload().to_vec();
                        if let Ok((pkt, _)) = s2n_quic_dc::packet::stream::decoder::Packet::decode(s2n_codec::DecoderBufferMut::new(&mut raw), (), 16) {
                            if pkt.is_fin() || pkt.final_offset().is_some() {
                                fin_dropped += 1;
                                emit(json!({"ev": "fin_dropped", "dir": dir, "len": pkt.payload().len()}));
                                return ::bach::net::monitor::Command::Drop;
                            }
                        }
                    }
                }
                if let Some(v) = vanish_at {
                    // the server host disappears: nothing reaches it and nothing leaves it any more
                    if t >= v { return ::bach::net::monitor::Command::Drop; }
                }
                if let Some((dir, from, to)) = &outage {
                    if t >= *from && t < *to && (dir == "both" || (dir == "c2s") == to_server) { return ::bach::net::monitor::Command::Drop; }
                }
                if permille > 0 && rng.random_range(0..1000) < permille { return ::bach::net::monitor::Command::Drop; }
                if dup_permille > 0 && server_ip.is_some() && !DUP_SENDING.with(|c| c.get()) && rng.random_range(0..1000) < dup_permille {
                    dups_m.lock().unwrap().push((to_server, packet.destination(), packet.transport.payload().to_vec()));
                }
                Default::default()
            });
            for (group, towards_server) in [("client", true), ("server", false)] {
                let (dups, stop) = (dups.clone(), stop.clone());
                if dup_permille == 0 { break; }
                async move {
                    let Ok(sock) = ::bach::net::UdpSocket::bind("0.0.0.0:0").await else { return };
                    while !stop.load(std::sync::atomic::Ordering::Relaxed) {
                        Duration::from_micros(300).sleep().await;
                        let mine: Vec<(std::net::SocketAddr, Vec<u8>)> = { let mut g = dups.lock().unwrap(); let (a, b): (Vec<_>, Vec<_>) = g.drain(..).partition(|d| d.0 == towards_server); *g = b; a.into_iter().map(|d| (d.1, d.2)).collect() };
                        for (dst, bytes) in mine {
                            DUP_SENDING.with(|c| c.set(true));
                            let _ = sock.send_to(&bytes, dst).await;
                            DUP_SENDING.with(|c| c.set(false));
                            emit(json!({"ev": "duplicated", "len": bytes.len(), "to_server": towards_server}));
                        }
                    }
                }
                .group(group)
                .spawn();
            }
            let stop_c = stop.clone();
            let streams = p.streams.clone();
            let cm = p.client_mtu;
            async move {
                let client = Client::builder().mtu(cm).build();
                let mut handles = Vec::new();
                for (k, sp) in streams.into_iter().enumerate() {
                    let client = client.clone();
                    handles.push(async move {
                        Duration::from_micros(sp.start_us).sleep().await;
                        client_stream(&client, true, None, k as u64, sp, false, false).await;
                    });
                }
                futures_join_all(handles).await;
                emit(json!({"ev": "end"}));
                stop_c.store(true, std::sync::atomic::Ordering::Relaxed);
                if let Some((path, reset)) = LINGER_OUT.get() {
                    // the client endpoint stays alive meanwhile: streams the application is done with are still being
                    // flushed by the library's workers
                    let keep = client.clone();
                    spawn(async move {
                        Duration::from_secs(90).sleep().await;
                        drop(keep);
                        emit(json!({"ev": "lingering"}));
                        let evs = EV.with(|e| std::mem::take(&mut *e.borrow_mut()));
                        let mut out = TraceOut::new(path);
                        out.emit(serde_json::from_str(reset).unwrap());
                        let mut bytes = 0u64;
                        for e in evs { if e["ev"] == "r" { bytes += e["len"].as_u64().unwrap(); } out.emit(e); }
                        out.emit(json!({"ev": "run_end"}));
                        let n = out.finish();
                        println!("RESULT {}", json!({"events": n, "runs": 1, "bytes_read": bytes, "panics": 0}));
                        std::process::exit(0);
                    });
                }
            }
            .group("client")
            .primary()
            .spawn();
            let sm = p.server_mtu;
            async move {
                let server = Server::udp().port(443).mtu(sm).build();
                while let Ok((stream, _addr)) = server.accept().await {
                    spawn(async move { server_stream(stream).await; });
                }
            }
            .group("server")
            .spawn();
        });
    }));
    let mut evs = EV.with(|e| std::mem::take(&mut *e.borrow_mut()));
    if let Err(e) = r {
        evs.push(json!({"ev": "panic", "msg": panic_msg(e)}));
    }
    evs
}

async fn futures_join_all<F: std::future::Future<Output = ()>>(fs: Vec<F>) {
    // the streams of a run are driven concurrently on the caller's task
    let mut fs: Vec<std::pin::Pin<Box<F>>> = fs.into_iter().map(Box::pin).collect();
    std::future::poll_fn(|cx| {
        fs.retain_mut(|f| f.as_mut().poll(cx).is_pending());
        if fs.is_empty() { std::task::Poll::Ready(()) } else { std::task::Poll::Pending }
    }).await
}

pub fn sim_record(args: &[String]) -> Value {
    silence_panics();
    let seed: u64 = args[0].parse().unwrap();
    let count: usize = args[1].parse().unwrap();
    let mut out = TraceOut::new(&args[2]);
    let mut rng = StdRng::seed_from_u64(seed ^ 0xc20);
    let (mut bytes, mut panics) = (0u64, 0u64);
    let mut lingering = 0u64;
    // optional 4th argument: run only the plan with this index, in this process
    let only: Option<usize> = args.get(3).and_then(|x| x.parse().ok());
    let plans: Vec<Plan> = (0..count).map(|k| plan(seed.wrapping_mul(1000) + k as u64, &mut rng, k)).collect();
    if let Some(k) = only {
        let p = plans[k].clone();
        if std::env::var_os("VERIF_PLAN").is_some() { eprintln!("PLAN {}", serde_json::to_string(&p).unwrap()); }
        let reset = json!({"ev": "reset", "transport": "udp-sim", "plan": serde_json::to_value(&p).unwrap()});
        let _ = LINGER_OUT.set((args[2].clone(), reset.to_string()));
        out.emit(reset);
        for e in run_sim(p) {
            if e["ev"] == "r" { bytes += e["len"].as_u64().unwrap(); }
            if e["ev"] == "panic" { panics += 1; }
            out.emit(e);
        }
        out.emit(json!({"ev": "run_end"}));
        let n = out.finish();
        return json!({"events": n, "runs": 1, "bytes_read": bytes, "panics": panics});
    }
    // every run in a process of its own: a stalled simulation panics inside the executor and the destructors of the
    // streams then panic again (no scheduler scope), which aborts the process - that must end one run, not the recording
    let exe = std::env::current_exe().unwrap();
    let idx: Vec<usize> = (0..count).collect();
    let mut results = par_map(&idx, 6, |_, k| {
        let tmp = format!("{}.run{}", args[2], k);
        let o = std::process::Command::new(&exe).args(["dcstream-sim", &args[0], &args[1], &tmp, &k.to_string()]).output();
        let ok = matches!(&o, Ok(o) if o.status.success());
        let lines = if ok { std::fs::read_to_string(&tmp).unwrap_or_default() } else { String::new() };
        let _ = std::fs::remove_file(&tmp);
        let why = match &o { Ok(o) => format!("{} {}", o.status, String::from_utf8_lossy(&o.stderr).lines().last().unwrap_or("")), Err(e) => e.to_string() };
        (*k, ok, lines, why)
    });
    results.sort_by_key(|r| r.0);
    for (k, ok, lines, why) in results {
        if ok {
            for l in lines.lines() {
                let e: Value = serde_json::from_str(l).unwrap();
                if e["ev"] == "r" { bytes += e["len"].as_u64().unwrap(); }
                if e["ev"] == "panic" { panics += 1; }
                if e["ev"] == "lingering" { lingering += 1; }
                out.emit(e);
            }
        } else {
            out.emit(json!({"ev": "reset", "transport": "udp-sim", "plan": serde_json::to_value(&plans[k]).unwrap()}));
            out.emit(json!({"ev": "panic", "msg": format!("the process running this simulation died: {why}")}));
            out.emit(json!({"ev": "run_end"}));
            panics += 1;
        }
    }
    let n = out.finish();
    json!({"events": n, "runs": count, "bytes_read": bytes, "panics": panics, "runs_still_busy_90s_after_the_client_finished": lingering})
}

/// real sockets over loopback: both transports, no faults
pub fn real_record(args: &[String]) -> Value {
    silence_panics();
    let seed: u64 = args[0].parse().unwrap();
    let count: usize = args[1].parse().unwrap();
    let mut out = TraceOut::new(&args[2]);
    let mut rng = StdRng::seed_from_u64(seed ^ 0xc21);
    REAL_T0.get_or_init(std::time::Instant::now);
    let mut bytes = 0u64;
    for k in 0..count {
        // one runtime per run: shutting it down drops every task of the run, so no straggler (a server task still
        // reading the end of a request) can log into the next run
        let rt = tokio::runtime::Builder::new_multi_thread().worker_threads(3).enable_all().build().unwrap();
        let mut p = plan(seed.wrapping_mul(1000) + k as u64, &mut rng, 2);
        p.mode = "clean".into();
        for s in &mut p.streams { s.request = s.request.min(300_000); s.response = s.response.min(300_000); }
        let tcp = k % 2 == 1;
        let slow = k % 4 == 3;
        p.slow_tcp = slow;
        if slow { for s in &mut p.streams { s.request = [65_536u64, 300_000, 600_000][rng.random_range(0..3)]; s.wchunk = s.wchunk.max(1000); } }
        // every other slow run: the relay closes the path after two thirds of the first request (a peer that vanishes
        // in the middle of a record); marked by start_us = MAX - 1 on that stream
        if slow && k % 8 == 7 {
            p.mode = "vanish".into();
            p.vanish_after_server_packets = Some(0);
            p.streams.truncate(1);
            p.streams[0].start_us = 0;
            p.streams[0].client_mode = "shutdown".into();
            p.streams[0].server_mode = "echo_len".into();
        }
        REAL_EV.lock().unwrap().clear();
        out.emit(json!({"ev": "reset", "transport": if tcp { "tcp" } else { "udp" }, "plan": serde_json::to_value(&p).unwrap()}));
        let streams = p.streams.clone();
        let cut = slow && p.mode == "vanish";
        let res = rt.block_on(async move {
            tokio::time::timeout(Duration::from_secs(60), async move {
                let server = if tcp { Server::tcp().build() } else { Server::udp().build() };
                let client = Client::builder().build();
                let srv = server.clone();
                let served: std::sync::Arc<std::sync::Mutex<Vec<tokio::task::JoinHandle<()>>>> = Default::default();
                let served2 = served.clone();
                let acceptor = tokio::spawn(async move {
                    while let Ok((stream, _)) = srv.accept().await {
                        let h = tokio::spawn(async move { server_stream(stream).await; });
                        served2.lock().unwrap().push(h);
                    }
                });
                let mut hs = Vec::new();
                for (k, sp) in streams.into_iter().enumerate() {
                    let client = client.clone();
                    let server = server.clone();
                    hs.push(tokio::spawn(async move { client_stream(&client, false, Some(&server), k as u64, sp, slow, cut).await; }));
                }
                for h in hs { let _ = h.await; }
                // let the server tasks finish reading the ends of the requests
                tokio::time::sleep(Duration::from_millis(50)).await;
                let hs: Vec<_> = std::mem::take(&mut *served.lock().unwrap());
                let deadline = tokio::time::Instant::now() + Duration::from_secs(if cut { 10 } else { 3 });
                for mut h in hs {
                    if tokio::time::timeout_at(deadline, &mut h).await.is_err() {
                        // after a TCP path was cut the server's reader must learn of it at once (the socket reports the close)
                        if cut { emit(json!({"ev": "stall", "what": "a server task is still busy 10 s after its TCP connection was closed"})); }
                        h.abort();
                        let _ = tokio::time::timeout(Duration::from_secs(2), h).await;
                    }
                }
                acceptor.abort();
            }).await
        });
        rt.shutdown_timeout(Duration::from_secs(5));
        if res.is_err() {
            REAL_EV.lock().unwrap().push(json!({"ev": "stall", "what": "run did not finish within 60 s"}));
        }
        let mut evs = std::mem::take(&mut *REAL_EV.lock().unwrap());
        evs.push(json!({"ev": "end", "t": now_us()}));
        for e in evs {
            if e["ev"] == "r" { bytes += e["len"].as_u64().unwrap(); }
            out.emit(e);
        }
        out.emit(json!({"ev": "run_end"}));
    }
    let n = out.finish();
    json!({"events": n, "runs": count, "bytes_read": bytes})
}

//! C20: s2n-quic-dc streams between the crate's testing Client and Server.
//!  dcstream-sim <seed> <count> <out>   : UDP transport inside the deterministic bach simulation, datagrams dropped by the
//!                                        network monitor (random rate, bursts, one direction), peers that vanish
//!  dcstream-real <seed> <count> <out>  : UDP and TCP transports over the loopback interface (no faults), operation orders
//! Every application call is recorded with its position in the byte stream; nothing is judged here (Trace_DcPipe does).
use crate::util::*;
use rand::{rngs::StdRng, Rng, SeedableRng};
use s2n_quic_dc::{
    stream::testing::{Client, Server},
    testing::{ext::*, sim, spawn},
};
use serde_json::{json, Value};
use std::{cell::RefCell, time::Duration};
use tokio::io::{AsyncReadExt, AsyncWriteExt};

thread_local! {
    static EV: RefCell<Vec<Value>> = const { RefCell::new(Vec::new()) };
}
static REAL_EV: std::sync::Mutex<Vec<Value>> = std::sync::Mutex::new(Vec::new());

fn now_us() -> u64 {
    if bach::is_active() { bach::time::Instant::now().elapsed_since_start().as_micros() as u64 } else { REAL_T0.get().map(|t| t.elapsed().as_micros() as u64).unwrap_or(0) }
}
static REAL_T0: std::sync::OnceLock<std::time::Instant> = std::sync::OnceLock::new();

fn emit(mut v: Value) {
    v.as_object_mut().unwrap().insert("t".into(), json!(now_us()));
    if bach::is_active() { EV.with(|e| e.borrow_mut().push(v)); } else { REAL_EV.lock().unwrap().push(v); }
}

fn pat(pipe: u64, off: u64) -> u8 {
    crate::util::pat(off.wrapping_add(pipe.wrapping_mul(0x9e37_79b9)))
}

#[derive(Clone, Debug, serde::Serialize)]
struct StreamPlan {
    request: u64,
    response: u64,
    wchunk: usize,
    rbuf: usize,
    /// the client: "shutdown" (write, shutdown, read to end) | "drop_after_write" (no shutdown, drop) | "read_first" (concurrent halves)
    client_mode: String,
    /// the server: "echo_len" (reads the request to its end, then responds) | "respond_early" (responds while reading) | "drop" (drops the stream after accept)
    server_mode: String,
    start_us: u64,
}

#[derive(Clone, Debug, serde::Serialize)]
struct Plan {
    seed: u64,
    mode: String, // "lossy" | "vanish" | "clean"
    drop_permille: u32,
    /// drop everything in [from, to) microseconds of one direction ("c2s" | "s2c" | "both")
    #[serde(skip_serializing_if = "Option::is_none")]
    outage: Option<(String, u64, u64)>,
    vanish_at_us: u64,
    client_mtu: u16,
    server_mtu: u16,
    streams: Vec<StreamPlan>,
}

fn plan(seed: u64, rng: &mut StdRng, k: usize) -> Plan {
    let sizes = [0u64, 1, 100, 1200, 1472, 5000, 65_536, 300_000, 1_500_000];
    let mode = ["lossy", "lossy", "clean", "vanish"][k % 4].to_string();
    let n = rng.random_range(1..4);
    let streams = (0..n).map(|i| StreamPlan {
        request: sizes[rng.random_range(0..sizes.len())],
        response: sizes[rng.random_range(0..sizes.len())],
        wchunk: [1usize, 100, 1000, 1472, 16_384, 200_000][rng.random_range(0..6)],
        rbuf: [1usize, 7, 100, 1500, 65_536][rng.random_range(0..5)],
        client_mode: ["shutdown", "shutdown", "read_first", "drop_after_write"][rng.random_range(0..4)].to_string(),
        server_mode: ["echo_len", "echo_len", "respond_early", "drop"][rng.random_range(0..if mode == "vanish" { 3 } else { 4 })].to_string(),
        start_us: i as u64 * [0u64, 1_000, 500_000][rng.random_range(0..3)],
    }).collect::<Vec<_>>();
    // one-byte chunks on megabyte transfers only cost time
    let streams = streams.into_iter().map(|mut s| { if s.request > 70_000 { s.wchunk = s.wchunk.max(1000); } if s.response > 70_000 || s.request > 70_000 { s.rbuf = s.rbuf.max(1500); } s }).collect();
    Plan {
        seed, mode: mode.clone(),
        drop_permille: if mode == "lossy" { [10u32, 50, 150][rng.random_range(0..3)] } else { 0 },
        outage: if mode == "lossy" && rng.random_bool(0.5) { let f = [500u64, 3_000, 50_000][rng.random_range(0..3)]; Some((["c2s", "s2c", "both"][rng.random_range(0..3)].to_string(), f, f + [2_000u64, 300_000, 4_000_000][rng.random_range(0..3)])) } else { None },
        vanish_at_us: if mode == "vanish" { [0u64, 700, 3_000, 200_000][rng.random_range(0..4)] } else { 0 },
        client_mtu: [1250u16, 1472, 1500, 9000, 32_000][rng.random_range(0..5)],
        server_mtu: [1250u16, 1472, 1500, 9000, 32_000][rng.random_range(0..5)],
        streams,
    }
}

async fn write_side<W: AsyncWriteExt + Unpin>(w: &mut W, pipe: u64, total: u64, chunk: usize, finish: bool) -> bool {
    let mut off = 0u64;
    while off < total {
        let n = chunk.min((total - off) as usize);
        let buf: Vec<u8> = (0..n as u64).map(|i| pat(pipe, off + i)).collect();
        emit(json!({"ev": "wstart", "pipe": pipe, "off": off, "len": n}));
        if let Err(e) = w.write_all(&buf).await {
            emit(json!({"ev": "werr", "pipe": pipe, "off": off, "kind": format!("{:?}", e.kind())}));
            return false;
        }
        off += n as u64;
        emit(json!({"ev": "w", "pipe": pipe, "off": off}));
    }
    if finish {
        emit(json!({"ev": "wfin_start", "pipe": pipe, "total": total}));
        if let Err(e) = w.shutdown().await {
            emit(json!({"ev": "werr", "pipe": pipe, "off": off, "kind": format!("{:?}", e.kind())}));
            return false;
        }
        emit(json!({"ev": "wfin", "pipe": pipe, "total": total}));
    }
    true
}

async fn read_side<R: AsyncReadExt + Unpin>(r: &mut R, pipe: u64, rbuf: usize) -> Option<u64> {
    let mut off = 0u64;
    let mut buf = vec![0u8; rbuf];
    loop {
        match r.read(&mut buf).await {
            Ok(0) => { emit(json!({"ev": "eos", "pipe": pipe, "total": off})); return Some(off); }
            Ok(n) => {
                let ok = buf[..n].iter().enumerate().all(|(i, b)| *b == pat(pipe, off + i as u64));
                emit(json!({"ev": "r", "pipe": pipe, "off": off, "len": n, "ok": ok}));
                off += n as u64;
            }
            Err(e) => { emit(json!({"ev": "rerr", "pipe": pipe, "off": off, "kind": format!("{:?}", e.kind())})); return None; }
        }
    }
}

async fn client_stream(client: &Client, addr_sim: bool, server: Option<&Server>, k: u64, sp: StreamPlan) {
    let (req, resp) = (2 * k, 2 * k + 1);
    emit(json!({"ev": "open", "k": k, "req": sp.request, "resp": sp.response, "client_mode": sp.client_mode, "server_mode": sp.server_mode}));
    let stream = if addr_sim { client.connect_sim("server:443").await } else { client.connect_to(server.unwrap()).await };
    let stream = match stream {
        Ok(s) => s,
        Err(e) => { emit(json!({"ev": "connect_err", "k": k, "kind": format!("{:?}", e.kind())})); return; }
    };
    // the first 16 bytes of every request tell the server what to do
    let (mut recv, mut send) = stream.into_split();
    let mut head = Vec::new();
    head.extend_from_slice(&k.to_be_bytes());
    head.extend_from_slice(&sp.response.to_be_bytes());
    head.push(match sp.server_mode.as_str() { "echo_len" => 0, "respond_early" => 1, _ => 2 });
    head.extend_from_slice(&(sp.rbuf as u32).to_be_bytes());
    head.extend_from_slice(&(sp.wchunk as u32).to_be_bytes());
    if send.write_all(&head).await.is_err() {
        emit(json!({"ev": "werr", "pipe": req, "off": 0, "kind": "header"}));
        return;
    }
    match sp.client_mode.as_str() {
        "read_first" => {
            let w = async { write_side(&mut send, req, sp.request, sp.wchunk, true).await };
            let r = async { read_side(&mut recv, resp, sp.rbuf).await };
            let _ = tokio::join!(w, r);
        }
        "drop_after_write" => {
            let _ = write_side(&mut send, req, sp.request, sp.wchunk, false).await;
            emit(json!({"ev": "dropped", "pipe": req}));
            emit(json!({"ev": "dropped", "pipe": resp}));
            drop(send);
            drop(recv);
        }
        _ => {
            if write_side(&mut send, req, sp.request, sp.wchunk, true).await {
                let _ = read_side(&mut recv, resp, sp.rbuf).await;
            } else {
                let _ = read_side(&mut recv, resp, sp.rbuf).await;
            }
        }
    }
    emit(json!({"ev": "client_done", "k": k}));
}

async fn server_stream<S: AsyncReadExt + AsyncWriteExt + Unpin>(mut stream: S) {
    let mut head = [0u8; 25];
    if stream.read_exact(&mut head).await.is_err() {
        emit(json!({"ev": "server_head_err"}));
        return;
    }
    let k = u64::from_be_bytes(head[0..8].try_into().unwrap());
    let response = u64::from_be_bytes(head[8..16].try_into().unwrap());
    let mode = head[16];
    let rbuf = u32::from_be_bytes(head[17..21].try_into().unwrap()) as usize;
    let wchunk = u32::from_be_bytes(head[21..25].try_into().unwrap()) as usize;
    let (req, resp) = (2 * k, 2 * k + 1);
    match mode {
        2 => { emit(json!({"ev": "dropped", "pipe": req})); emit(json!({"ev": "dropped", "pipe": resp})); drop(stream); }
        1 => {
            let (mut r, mut w) = tokio::io::split(stream);
            let a = async { read_side(&mut r, req, rbuf).await };
            let b = async { write_side(&mut w, resp, response, wchunk, true).await };
            let _ = tokio::join!(a, b);
        }
        _ => {
            let got = read_side(&mut stream, req, rbuf).await;
            if got.is_some() {
                let _ = write_side(&mut stream, resp, response, wchunk, true).await;
            } else {
                emit(json!({"ev": "dropped", "pipe": resp}));
            }
        }
    }
    emit(json!({"ev": "server_done", "k": k}));
}

fn run_sim(p: Plan) -> Vec<Value> {
    EV.with(|e| e.borrow_mut().clear());
    let p2 = p.clone();
    let r = std::panic::catch_unwind(std::panic::AssertUnwindSafe(move || {
        sim(move || {
            let p = p2;
            let mut rng = StdRng::seed_from_u64(p.seed ^ 0x51ed);
            let (permille, outage, vanish_at) = (p.drop_permille, p.outage.clone(), if p.mode == "vanish" { Some(p.vanish_at_us) } else { None });
            let mut server_ip = None;
            ::bach::net::monitor::on_packet_sent(move |packet| {
                let t = now_us();
                if server_ip.is_none() && packet.destination().port() == 443 { server_ip = Some(packet.destination().ip()); }
                let to_server = Some(packet.destination().ip()) == server_ip;
                if let Some(v) = vanish_at {
                    // the server host disappears: nothing reaches it and nothing leaves it any more
                    if t >= v { return ::bach::net::monitor::Command::Drop; }
                }
                if let Some((dir, from, to)) = &outage {
                    if t >= *from && t < *to && (dir == "both" || (dir == "c2s") == to_server) { return ::bach::net::monitor::Command::Drop; }
                }
                if permille > 0 && rng.random_range(0..1000) < permille { return ::bach::net::monitor::Command::Drop; }
                Default::default()
            });
            let streams = p.streams.clone();
            let cm = p.client_mtu;
            async move {
                let client = Client::builder().mtu(cm).build();
                let mut handles = Vec::new();
                for (k, sp) in streams.into_iter().enumerate() {
                    let client = client.clone();
                    handles.push(async move {
                        Duration::from_micros(sp.start_us).sleep().await;
                        client_stream(&client, true, None, k as u64, sp).await;
                    });
                }
                futures_join_all(handles).await;
                emit(json!({"ev": "end"}));
            }
            .group("client")
            .primary()
            .spawn();
            let sm = p.server_mtu;
            async move {
                let server = Server::udp().port(443).mtu(sm).build();
                while let Ok((stream, _addr)) = server.accept().await {
                    spawn(async move { server_stream(stream).await; });
                }
            }
            .group("server")
            .spawn();
        });
    }));
    let mut evs = EV.with(|e| std::mem::take(&mut *e.borrow_mut()));
    if let Err(e) = r {
        evs.push(json!({"ev": "panic", "msg": panic_msg(e)}));
    }
    evs
}

async fn futures_join_all<F: std::future::Future<Output = ()>>(fs: Vec<F>) {
    // the streams of a run are driven concurrently on the caller's task
    let mut fs: Vec<std::pin::Pin<Box<F>>> = fs.into_iter().map(Box::pin).collect();
    std::future::poll_fn(|cx| {
        fs.retain_mut(|f| f.as_mut().poll(cx).is_pending());
        if fs.is_empty() { std::task::Poll::Ready(()) } else { std::task::Poll::Pending }
    }).await
}

pub fn sim_record(args: &[String]) -> Value {
    silence_panics();
    let seed: u64 = args[0].parse().unwrap();
    let count: usize = args[1].parse().unwrap();
    let mut out = TraceOut::new(&args[2]);
    let mut rng = StdRng::seed_from_u64(seed ^ 0xc20);
    let (mut bytes, mut panics) = (0u64, 0u64);
    for k in 0..count {
        let p = plan(seed.wrapping_mul(1000) + k as u64, &mut rng, k);
        out.emit(json!({"ev": "reset", "transport": "udp-sim", "plan": serde_json::to_value(&p).unwrap()}));
        for e in run_sim(p) {
            if e["ev"] == "r" { bytes += e["len"].as_u64().unwrap(); }
            if e["ev"] == "panic" { panics += 1; }
            out.emit(e);
        }
    }
    let n = out.finish();
    json!({"events": n, "runs": count, "bytes_read": bytes, "panics": panics})
}

/// real sockets over loopback: both transports, no faults
pub fn real_record(args: &[String]) -> Value {
    silence_panics();
    let seed: u64 = args[0].parse().unwrap();
    let count: usize = args[1].parse().unwrap();
    let mut out = TraceOut::new(&args[2]);
    let mut rng = StdRng::seed_from_u64(seed ^ 0xc21);
    REAL_T0.get_or_init(std::time::Instant::now);
    let rt = tokio::runtime::Builder::new_multi_thread().worker_threads(3).enable_all().build().unwrap();
    let mut bytes = 0u64;
    for k in 0..count {
        let mut p = plan(seed.wrapping_mul(1000) + k as u64, &mut rng, 2);
        p.mode = "clean".into();
        for s in &mut p.streams { s.request = s.request.min(300_000); s.response = s.response.min(300_000); }
        let tcp = k % 2 == 1;
        REAL_EV.lock().unwrap().clear();
        out.emit(json!({"ev": "reset", "transport": if tcp { "tcp" } else { "udp" }, "plan": serde_json::to_value(&p).unwrap()}));
        let streams = p.streams.clone();
        let res = rt.block_on(async move {
            tokio::time::timeout(Duration::from_secs(60), async move {
                let server = if tcp { Server::tcp().build() } else { Server::udp().build() };
                let client = Client::builder().build();
                let srv = server.clone();
                let acceptor = tokio::spawn(async move {
                    while let Ok((stream, _)) = srv.accept().await {
                        tokio::spawn(async move { server_stream(stream).await; });
                    }
                });
                let mut hs = Vec::new();
                for (k, sp) in streams.into_iter().enumerate() {
                    let client = client.clone();
                    let server = server.clone();
                    hs.push(tokio::spawn(async move { client_stream(&client, false, Some(&server), k as u64, sp).await; }));
                }
                for h in hs { let _ = h.await; }
                // give the server tasks a moment to finish reading the ends of the requests
                tokio::time::sleep(Duration::from_millis(200)).await;
                acceptor.abort();
            }).await
        });
        if res.is_err() {
            REAL_EV.lock().unwrap().push(json!({"ev": "stall", "what": "run did not finish within 60 s"}));
        }
        let mut evs = std::mem::take(&mut *REAL_EV.lock().unwrap());
        evs.push(json!({"ev": "end", "t": now_us()}));
        for e in evs {
            if e["ev"] == "r" { bytes += e["len"].as_u64().unwrap(); }
            out.emit(e);
        }
    }
    let n = out.finish();
    json!({"events": n, "runs": count, "bytes_read": bytes})
}

//! C17 (item level): the real spsc channel between two OS threads, through its async API (a park/unpark executor), with
//! random batch sizes, yields and early drops.  Every push (before the call) and every pop is recorded with a global
//! sequence number; a task that never completes (lost wake-up) is a `stall`.
use crate::util::*;
use rand::{rngs::StdRng, Rng, SeedableRng};
use s2n_quic_core::sync::spsc;
use serde_json::{json, Value};
use std::{
    future::Future,
    sync::{atomic::{AtomicBool, AtomicU64, Ordering}, Arc, Mutex},
    task::{Context, Poll, Wake, Waker},
    time::{Duration, Instant},
};

struct Parker(std::thread::Thread, AtomicBool);
impl Wake for Parker {
    fn wake(self: Arc<Self>) {
        self.1.store(true, Ordering::SeqCst);
        self.0.unpark();
    }
}

/// drives one future on the current thread; false if it did not finish before the deadline
fn block_on<F: Future>(f: F, deadline: Instant) -> Option<F::Output> {
    let p = Arc::new(Parker(std::thread::current(), AtomicBool::new(false)));
    let waker = Waker::from(p.clone());
    let mut cx = Context::from_waker(&waker);
    let mut f = std::pin::pin!(f);
    loop {
        if let Poll::Ready(v) = f.as_mut().poll(&mut cx) {
            return Some(v);
        }
        while !p.1.swap(false, Ordering::SeqCst) {
            if Instant::now() > deadline {
                return None;
            }
            std::thread::park_timeout(Duration::from_millis(50));
        }
    }
}

pub fn record(args: &[String]) -> Value {
    silence_panics();
    let seed: u64 = args[0].parse().unwrap();
    let runs: usize = args[1].parse().unwrap();
    let mut out = TraceOut::new(&args[2]);
    let mut rng = StdRng::seed_from_u64(seed ^ 0x5b5c);
    let (mut items_total, mut stalls) = (0u64, 0u64);
    for _ in 0..runs {
        let cap = [1usize, 1, 2, 3, 8][rng.random_range(0..5)];
        let n: u64 = rng.random_range(1..200);
        let recv_drop_after: Option<u64> = if rng.random_bool(0.3) { Some(rng.random_range(0..n)) } else { None };
        let (sseed, rseed) = (rng.random::<u64>(), rng.random::<u64>());
        let log: Arc<Mutex<Vec<(u64, Value)>>> = Arc::new(Mutex::new(Vec::new()));
        let seq = Arc::new(AtomicU64::new(0));
        let (mut tx, mut rx) = spsc::channel::<u64>(cap);
        let deadline = Instant::now() + Duration::from_secs(20);
        let ev = |log: &Arc<Mutex<Vec<(u64, Value)>>>, seq: &Arc<AtomicU64>, v: Value| {
            let k = seq.fetch_add(1, Ordering::SeqCst);
            log.lock().unwrap().push((k, v));
        };
        let (l1, s1) = (log.clone(), seq.clone());
        let sender = std::thread::spawn(move || {
            let mut rng = StdRng::seed_from_u64(sseed);
            let mut next = 1u64;
            while next <= n {
                match block_on(tx.acquire(), deadline) {
                    None => { ev(&l1, &s1, json!({"ev": "stall", "side": "s"})); return; }
                    Some(Err(_)) => { ev(&l1, &s1, json!({"ev": "send_closed", "next": next})); break; }
                    Some(Ok(())) => {}
                }
                let mut slice = tx.slice();
                let batch = rng.random_range(1..4);
                for _ in 0..batch {
                    if next > n { break; }
                    ev(&l1, &s1, json!({"ev": "push_start", "v": next}));
                    match slice.push(next) {
                        Ok(()) => { next += 1; }
                        Err(spsc::PushError::Full(_)) => { ev(&l1, &s1, json!({"ev": "push_full", "v": next})); break; }
                        Err(spsc::PushError::Closed) => { ev(&l1, &s1, json!({"ev": "push_closed", "v": next})); break; }
                    }
                }
                drop(slice);
                if rng.random_bool(0.3) { std::thread::yield_now(); }
            }
            ev(&l1, &s1, json!({"ev": "drop_s"}));
            drop(tx);
        });
        let (l2, s2) = (log.clone(), seq.clone());
        let receiver = std::thread::spawn(move || {
            let mut rng = StdRng::seed_from_u64(rseed);
            let mut got = 0u64;
            loop {
                if recv_drop_after.map(|k| got >= k).unwrap_or(false) { break; }
                match block_on(rx.acquire(), deadline) {
                    None => { ev(&l2, &s2, json!({"ev": "stall", "side": "r"})); return; }
                    Some(Err(_)) => { ev(&l2, &s2, json!({"ev": "recv_closed", "got": got})); break; }
                    Some(Ok(())) => {}
                }
                let mut slice = rx.slice();
                let k = rng.random_range(1..4);
                for _ in 0..k {
                    match slice.pop() {
                        Some(v) => { got += 1; ev(&l2, &s2, json!({"ev": "pop", "v": v})); }
                        None => break,
                    }
                }
                drop(slice);
                if rng.random_bool(0.3) { std::thread::yield_now(); }
            }
            ev(&l2, &s2, json!({"ev": "drop_r"}));
            drop(rx);
        });
        let a = sender.join();
        let b = receiver.join();
        out.emit(json!({"ev": "reset", "cap": cap, "n": n}));
        let mut l = std::mem::take(&mut *log.lock().unwrap());
        l.sort_by_key(|x| x.0);
        for (_, v) in l {
            if v["ev"] == "stall" { stalls += 1; }
            if v["ev"] == "pop" { items_total += 1; }
            out.emit(v);
        }
        if a.is_err() || b.is_err() {
            out.emit(json!({"ev": "panic", "what": "spsc thread"}));
        }
        out.emit(json!({"ev": "end"}));
    }
    let nlines = out.finish();
    json!({"events": nlines, "runs": runs, "items_popped": items_total, "stalls": stalls})
}

/// worker-record <seed> <runs> <out>: the real sync::worker credit channel with one or two sender handles (the second a
/// clone of the first) on their own threads; handles are dropped at random points
pub fn worker_record(args: &[String]) -> Value {
    use s2n_quic_core::sync::worker;
    silence_panics();
    let seed: u64 = args[0].parse().unwrap();
    let runs: usize = args[1].parse().unwrap();
    let mut out = TraceOut::new(&args[2]);
    let mut rng = StdRng::seed_from_u64(seed ^ 0x770c);
    let mut stalls = 0u64;
    for _ in 0..runs {
        let handles = rng.random_range(1..3usize);
        let batches: Vec<u64> = (0..handles).map(|_| rng.random_range(0..20)).collect();
        let log: Arc<Mutex<Vec<(u64, Value)>>> = Arc::new(Mutex::new(Vec::new()));
        let seq = Arc::new(AtomicU64::new(0));
        let ev = |log: &Arc<Mutex<Vec<(u64, Value)>>>, seq: &Arc<AtomicU64>, v: Value| {
            let k = seq.fetch_add(1, Ordering::SeqCst);
            log.lock().unwrap().push((k, v));
        };
        let (tx, mut rx) = worker::channel();
        let deadline = Instant::now() + Duration::from_secs(10);
        let mut txs = vec![tx];
        if handles == 2 {
            ev(&log, &seq, json!({"ev": "clone"}));
            let c = txs[0].clone();
            txs.push(c);
        }
        let mut ths = Vec::new();
        for (h, tx) in txs.into_iter().enumerate() {
            let (l, s, n) = (log.clone(), seq.clone(), batches[h]);
            let delay = rng.random_range(0..3u64);
            ths.push(std::thread::spawn(move || {
                if delay > 0 { std::thread::sleep(Duration::from_millis(delay)); }
                for _ in 0..n {
                    ev(&l, &s, json!({"ev": "submit_start", "h": h, "n": 1}));
                    tx.submit(1);
                    if n % 3 == 0 { std::thread::yield_now(); }
                }
                ev(&l, &s, json!({"ev": "drop_handle", "h": h}));
                drop(tx);
                ev(&l, &s, json!({"ev": "dropped_handle", "h": h}));
            }));
        }
        let (l2, s2) = (log.clone(), seq.clone());
        let r = std::thread::spawn(move || {
            loop {
                match block_on(rx.acquire(), deadline) {
                    None => { ev(&l2, &s2, json!({"ev": "stall", "side": "r"})); return; }
                    Some(None) => { ev(&l2, &s2, json!({"ev": "closed"})); return; }
                    Some(Some(n)) => { ev(&l2, &s2, json!({"ev": "acquired", "n": n})); rx.finish(n); }
                }
            }
        });
        for t in ths { let _ = t.join(); }
        let _ = r.join();
        out.emit(json!({"ev": "reset", "handles": handles}));
        let mut l = std::mem::take(&mut *log.lock().unwrap());
        l.sort_by_key(|x| x.0);
        for (_, v) in l {
            if v["ev"] == "stall" { stalls += 1; }
            out.emit(v);
        }
        out.emit(json!({"ev": "end"}));
    }
    let n = out.finish();
    json!({"events": n, "runs": runs, "stalls": stalls})
}

//! Shared helpers: behaviour files, position-determined payload, result reporting.
use serde_json::Value;
use std::io::{BufRead, BufReader, Write};

/// position-determined payload byte
#[inline]
pub fn pat(p: u64) -> u8 {
    (p.wrapping_mul(0x9E37_79B9_7F4A_7C15) >> 56) as u8 ^ (p as u8).rotate_left(3)
}

pub fn fill(off: u64, n: usize) -> Vec<u8> {
    (0..n as u64).map(|i| pat(off.wrapping_add(i))).collect()
}

pub fn matches(off: u64, data: &[u8]) -> bool {
    data.iter().enumerate().all(|(i, b)| *b == pat(off.wrapping_add(i as u64)))
}

/// Reads TLC output: keeps only lines that are TLA+ strings holding JSON (`"[...]"`), or raw JSON lines.
pub fn read_behaviours(path: &str) -> Vec<Value> {
    let f = std::fs::File::open(path).unwrap_or_else(|e| panic!("open {path}: {e}"));
    let mut out = Vec::new();
    for line in BufReader::new(f).lines() {
        let line = line.unwrap();
        let line = line.trim();
        if line.starts_with("\"[") || line.starts_with("\"{") {
            let inner: String = serde_json::from_str(line).expect("tla string");
            out.push(serde_json::from_str(&inner).expect("inner json"));
        } else if line.starts_with('[') || line.starts_with('{') {
            if let Ok(v) = serde_json::from_str(line) {
                out.push(v);
            }
        }
    }
    out
}

pub static LAST_PANIC_AT: std::sync::Mutex<String> = std::sync::Mutex::new(String::new());

/// no panic noise on stderr; the location of the last panic is kept for the record
pub fn silence_panics() {
    std::panic::set_hook(Box::new(|info| {
        if std::env::var_os("VERIF_BT").is_some() { eprintln!("PANIC {info}\n{}", std::backtrace::Backtrace::force_capture()); }
        if let (Some(l), Ok(mut g)) = (info.location(), LAST_PANIC_AT.lock()) {
            *g = format!("{}:{}", l.file(), l.line());
        }
    }));
}

pub fn panic_msg(e: Box<dyn std::any::Any + Send>) -> String {
    let at = LAST_PANIC_AT.lock().map(|g| g.clone()).unwrap_or_default();
    let m = if let Some(s) = e.downcast_ref::<&str>() {
        s.to_string()
    } else if let Some(s) = e.downcast_ref::<String>() {
        s.clone()
    } else {
        "panic".into()
    };
    if at.is_empty() { m } else { format!("{m} at {at}") }
}

pub struct TraceOut {
    w: std::io::BufWriter<std::fs::File>,
    pub lines: u64,
}

impl TraceOut {
    pub fn new(path: &str) -> Self {
        Self { w: std::io::BufWriter::new(std::fs::File::create(path).unwrap()), lines: 0 }
    }
    pub fn emit(&mut self, v: Value) {
        serde_json::to_writer(&mut self.w, &v).unwrap();
        self.w.write_all(b"\n").unwrap();
        self.lines += 1;
    }
    pub fn finish(mut self) -> u64 {
        self.w.flush().unwrap();
        self.lines
    }
}

/// run `f` over items on all cores, collecting results in order of completion
pub fn par_map<T: Sync, R: Send>(items: &[T], threads: usize, f: impl Fn(usize, &T) -> R + Sync) -> Vec<R> {
    let next = std::sync::atomic::AtomicUsize::new(0);
    let out = std::sync::Mutex::new(Vec::new());
    std::thread::scope(|s| {
        for _ in 0..threads.max(1) {
            s.spawn(|| {
                let mut local = Vec::new();
                loop {
                    let i = next.fetch_add(1, std::sync::atomic::Ordering::Relaxed);
                    if i >= items.len() {
                        break;
                    }
                    local.push(f(i, &items[i]));
                }
                out.lock().unwrap().extend(local);
            });
        }
    });
    out.into_inner().unwrap()
}

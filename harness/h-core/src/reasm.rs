//! C16/C01: Reassembler — (a) replay of TLC-generated behaviours under affine embeddings,
//! (b) recording of long random histories for trace validation.
use crate::util::*;
use rand::{rngs::StdRng, Rng, SeedableRng};
use s2n_quic_core::{buffer::Reassembler, varint::VarInt};
use serde_json::{json, Value};

const MAXV: u64 = (1u64 << 62) - 1;
const UNIT_MAX: u64 = 7; // MaxOffset of the generator configuration
const INF_MARK: u64 = 9;

#[derive(Clone, Copy, Debug)]
pub struct Emb {
    pub s: u64,
    pub b: u64,
}

pub fn embeddings(tier: &str) -> Vec<Emb> {
    let mut v = vec![
        Emb { s: 1, b: 0 },
        Emb { s: 7, b: 0 },
        Emb { s: 2048, b: 0 },
        Emb { s: 4096, b: 0 },
        Emb { s: 4097, b: 0 },
        Emb { s: 1, b: 4094 },
        Emb { s: 16384, b: 32768 },
        Emb { s: 1, b: MAXV - 7 },
        Emb { s: 4096, b: MAXV - 7 * 4096 },
    ];
    if tier == "thorough" {
        v.extend([
            Emb { s: 1000, b: 0 },
            Emb { s: 65536, b: 131072 },
            Emb { s: 1, b: 65534 },
            Emb { s: 1, b: 262142 },
            Emb { s: 1, b: 1048574 },
            Emb { s: 7, b: 4096 - 14 },
            Emb { s: 1000, b: 1048576 - 2000 },
            Emb { s: 3, b: 8190 },
        ]);
    }
    v
}

fn obs(r: &Reassembler) -> (u64, u64, u64, i128, bool, bool, bool) {
    (
        r.len() as u64,
        r.consumed_len(),
        r.total_received_len(),
        r.final_size().map(|v| v as i128).unwrap_or(-1),
        r.is_writing_complete(),
        r.is_reading_complete(),
        r.is_empty(),
    )
}

fn err_name(e: &s2n_quic_core::buffer::Error) -> &'static str {
    use s2n_quic_core::buffer::Error::*;
    match e {
        OutOfRange => "oor",
        InvalidFin => "fin",
        ReaderError(_) => "reader",
    }
}

fn write(r: &mut Reassembler, o: u64, n: usize, fin: bool) -> &'static str {
    let Ok(off) = VarInt::new(o) else { return "oor" };
    let data = fill(o, n);
    let res = if fin { r.write_at_fin(off, &data) } else { r.write_at(off, &data) };
    match res {
        Ok(()) => "ok",
        Err(e) => err_name(&e),
    }
}

/// replays one behaviour under one embedding; Err(description) on the first disagreement
fn replay_one(beh: &Value, e: Emb) -> Result<usize, String> {
    let steps = beh.as_array().unwrap();
    let is_max = e.b + UNIT_MAX * e.s == MAXV;
    if !is_max && steps.iter().any(|s| s["res"] == "oor") {
        return Ok(0); // the unit bound only corresponds to 2^62-1 under the max embeddings
    }
    let mut r = Reassembler::new();
    let rebase = |r: &mut Reassembler| {
        if e.b > 0 {
            r.skip(VarInt::new(e.b).unwrap()).unwrap();
        }
    };
    rebase(&mut r);
    for (i, st) in steps.iter().enumerate() {
        let op = st["op"].as_str().unwrap();
        match op {
            "write" => {
                let o = e.b + e.s * st["o"].as_u64().unwrap();
                let n = (e.s * st["n"].as_u64().unwrap()) as usize;
                let before = obs(&r);
                let res = write(&mut r, o, n, st["fin"].as_bool().unwrap());
                if res != st["res"].as_str().unwrap() {
                    return Err(format!("step {i}: write({o},{n}) verdict {res}, expected {}", st["res"]));
                }
                if res != "ok" && obs(&r) != before {
                    return Err(format!("step {i}: rejected write changed the buffer"));
                }
            }
            "drain" => {
                let w = st["w"].as_u64().unwrap();
                let mut remaining: u128 = if w == INF_MARK { u128::MAX } else { (w * e.s) as u128 };
                let mut got: u64 = 0;
                while remaining > 0 {
                    let pos = r.consumed_len();
                    let wm = remaining.min(usize::MAX as u128) as usize;
                    let Some(chunk) = r.pop_watermarked(wm) else { break };
                    if chunk.is_empty() || chunk.len() > wm {
                        return Err(format!("step {i}: pop returned {} bytes for watermark {wm}", chunk.len()));
                    }
                    if !matches(pos, &chunk) {
                        return Err(format!("step {i}: chunk at {pos} len {} has wrong content", chunk.len()));
                    }
                    if r.consumed_len() != pos + chunk.len() as u64 {
                        return Err(format!("step {i}: consumed_len did not advance by the chunk length"));
                    }
                    got += chunk.len() as u64;
                    remaining -= chunk.len() as u128;
                }
                let exp = e.s * st["n"].as_u64().unwrap();
                if got != exp {
                    return Err(format!("step {i}: drain({w}) handed out {got} bytes, expected {exp}"));
                }
            }
            "skip" => {
                let n = e.s * st["n"].as_u64().unwrap();
                let before = obs(&r);
                let res = match VarInt::new(n) {
                    Ok(v) => match r.skip(v) {
                        Ok(()) => "ok",
                        Err(e) => err_name(&e),
                    },
                    Err(_) => "oor",
                };
                if res != st["res"].as_str().unwrap() {
                    return Err(format!("step {i}: skip({n}) verdict {res}, expected {}", st["res"]));
                }
                if res != "ok" && obs(&r) != before {
                    return Err(format!("step {i}: rejected skip changed the buffer"));
                }
            }
            "reset" => {
                r.reset();
                rebase(&mut r);
            }
            _ => return Err(format!("unknown op {op}")),
        }
        let o = &st["obs"];
        let a = obs(&r);
        let fin_exp: i128 = match o["final"].as_i64().unwrap() {
            -1 => -1,
            f => (e.b + e.s * f as u64) as i128,
        };
        let exp = (
            e.s * o["len"].as_u64().unwrap(),
            e.b + e.s * o["consumed"].as_u64().unwrap(),
            e.b + e.s * o["total"].as_u64().unwrap(),
            fin_exp,
            o["wc"].as_bool().unwrap(),
            o["rc"].as_bool().unwrap(),
            o["empty"].as_bool().unwrap(),
        );
        if a != exp {
            return Err(format!("step {i} ({op}): observers (len,consumed,total,final,wc,rc,empty) = {a:?}, expected {exp:?}"));
        }
    }
    Ok(steps.len())
}

pub fn replay(args: &[String]) -> Value {
    let file = &args[0];
    let tier = args.get(1).map(|s| s.as_str()).unwrap_or("quick");
    let behs = read_behaviours(file);
    let embs = embeddings(tier);
    silence_panics();
    let results = par_map(&behs, 16, |idx, b| {
        let mut steps = 0usize;
        let mut bad = Vec::new();
        for e in &embs {
            match std::panic::catch_unwind(|| replay_one(b, *e)) {
                Ok(Ok(n)) => steps += n,
                Ok(Err(m)) => bad.push(json!({"behaviour": idx, "emb": {"s": e.s, "b": e.b.to_string()}, "what": m, "steps": b})),
                Err(p) => bad.push(json!({"behaviour": idx, "emb": {"s": e.s, "b": e.b.to_string()}, "what": format!("panic: {}", panic_msg(p)), "steps": b})),
            }
        }
        (steps, bad)
    });
    let mut steps = 0;
    let mut bad = Vec::new();
    for (s, b) in results {
        steps += s;
        bad.extend(b);
    }
    let nbad = bad.len();
    bad.truncate(5);
    json!({"behaviours": behs.len(), "embeddings": embs.len(), "steps": steps, "mismatches": nbad, "first": bad,
           "sample": behs.first()})
}

/// long random histories, biased to slot/allocation boundaries; one ndjson event per call
pub fn record(args: &[String]) -> Value {
    let seed: u64 = args[0].parse().unwrap();
    let runs: usize = args[1].parse().unwrap();
    let ops: usize = args[2].parse().unwrap();
    let mut out = TraceOut::new(&args[3]);
    let mut rng = StdRng::seed_from_u64(seed);
    let bounds = [4096u64, 8192, 65536, 81920, 262144, 1 << 20];
    silence_panics();
    let mut panics = 0;
    for _run in 0..runs {
        out.emit(json!({"ev": "reset"}));
        let mut r = Reassembler::new();
        let focus = bounds[rng.random_range(0..bounds.len())];
        if rng.random_bool(0.5) && focus > 64 {
            // start close to the boundary so that the run crosses it
            let n = focus - rng.random_range(0..64u64).min(focus);
            let res = match r.skip(VarInt::new(n).unwrap()) { Ok(()) => "ok", Err(e) => err_name(&e) };
            emit_obs(&mut out, json!({"ev": "skip", "n": n, "res": res}), &r);
        }
        let mut events: Vec<Value> = Vec::new();
        let res = std::panic::catch_unwind(std::panic::AssertUnwindSafe(|| {
            for _ in 0..ops {
                let start = r.consumed_len();
                let total = r.total_received_len();
                let kind = rng.random_range(0..100);
                if kind < 62 {
                    let base = match rng.random_range(0..6) {
                        0 => start,
                        1 => total,
                        2 => focus,
                        3 => (start / 4096 + rng.random_range(0..4u64)) * 4096,
                        4 => start + rng.random_range(0..20000u64),
                        _ => total + rng.random_range(0..5000u64),
                    };
                    let o = (base + rng.random_range(0..9u64)).saturating_sub(rng.random_range(0..9u64));
                    let n = match rng.random_range(0..8) {
                        0 => 0,
                        1 => rng.random_range(1..4usize),
                        2 => rng.random_range(1..200usize),
                        3 => 4096 - rng.random_range(0..3usize),
                        4 => 4096 + rng.random_range(0..3usize),
                        5 => rng.random_range(1000..1500usize),
                        6 => rng.random_range(1..20000usize),
                        _ => rng.random_range(1..9000usize),
                    };
                    let fin = rng.random_range(0..100) < 4;
                    let res = write(&mut r, o, n, fin);
                    events.push(with_obs(json!({"ev": "write", "o": o, "n": n, "fin": fin, "res": res}), &r));
                } else if kind < 92 {
                    let w = match rng.random_range(0..6) {
                        0 => 0usize,
                        1 => 1,
                        2 => rng.random_range(1..100usize),
                        3 => 4096,
                        4 => rng.random_range(1..70000usize),
                        _ => usize::MAX,
                    };
                    let pos = r.consumed_len();
                    let chunk = r.pop_watermarked(w);
                    let (n, ok) = match &chunk {
                        Some(c) => (c.len(), matches(pos, c)),
                        None => (0, true),
                    };
                    let wlog = if w == usize::MAX { 2_000_000_000u64 } else { w as u64 };
                    events.push(with_obs(json!({"ev": "pop", "w": wlog, "n": n, "ok": ok}), &r));
                } else if kind < 99 {
                    let n = match rng.random_range(0..4) {
                        0 => 0,
                        1 => rng.random_range(1..10u64),
                        2 => rng.random_range(1..5000u64),
                        _ => r.len() as u64 + rng.random_range(0..3u64),
                    };
                    let res = match r.skip(VarInt::new(n).unwrap()) { Ok(()) => "ok", Err(e) => err_name(&e) };
                    events.push(with_obs(json!({"ev": "skip", "n": n, "res": res}), &r));
                } else {
                    r.reset();
                    events.push(with_obs(json!({"ev": "rreset"}), &r));
                }
            }
        }));
        for e in events.drain(..) {
            out.emit(e);
        }
        if let Err(p) = res {
            panics += 1;
            out.emit(json!({"ev": "panic", "msg": panic_msg(p)}));
        }
    }
    let lines = out.finish();
    json!({"runs": runs, "events": lines, "panics": panics})
}

fn with_obs(mut v: Value, r: &Reassembler) -> Value {
    let o = obs(r);
    let m = v.as_object_mut().unwrap();
    m.insert("len".into(), json!(o.0));
    m.insert("consumed".into(), json!(o.1));
    m.insert("total".into(), json!(o.2));
    m.insert("final".into(), json!(o.3 as i64));
    m.insert("wc".into(), json!(o.4));
    m.insert("rc".into(), json!(o.5));
    m.insert("empty".into(), json!(o.6));
    v
}

fn emit_obs(out: &mut TraceOut, v: Value, r: &Reassembler) {
    out.emit(with_obs(v, r));
}

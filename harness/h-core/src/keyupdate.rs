//! C15: replays KeyUpdate behaviours on two real `KeySet<GenKey>` objects.  `GenKey` is an
//! idealised AEAD: the tag names the key generation (and packet number), decryption succeeds iff
//! the generation of the key equals the one in the tag.  Everything else (Key Phase bit, header
//! protection, packet number truncation, slot selection, rotation, timers, limits) is the real code.
use crate::util::*;
use s2n_codec::{DecoderBufferMut, Encoder, EncoderBuffer};
use s2n_quic_core::{
    connection::id::ConnectionInfo,
    crypto::{
        application::{limited::Limits, KeySet},
        key::testing::HeaderKey,
        packet_protection, scatter, Key, OneRttKey,
    },
    inet::SocketAddress,
    packet::{
        encoding::{PacketEncoder, PacketEncodingError},
        number::{PacketNumber, PacketNumberSpace},
        short::Short,
        ProtectedPacket,
    },
    time::{Clock, NoopClock, Timestamp},
    varint::VarInt,
};
use serde_json::{json, Value};
use std::{collections::HashMap, sync::{Arc, Mutex}, time::Duration};

const TAG_LEN: usize = 16;

/// the real 1-RTT packet protection of s2n-quic-crypto, or none (idealised tag only)
pub enum Inner {
    Tag,
    Real(s2n_quic_crypto::one_rtt::OneRttKey),
}

pub struct GenKey {
    inner: Inner,
    pub gen: u64,
    conf: u64,
    integ: u64,
    /// packets protected per key generation, over all key objects of this endpoint
    ledger: Arc<Mutex<HashMap<u64, u64>>>,
}

fn tag(gen: u64, pn: u64) -> [u8; TAG_LEN] {
    let mut t = [0u8; TAG_LEN];
    t[..8].copy_from_slice(&gen.to_be_bytes());
    t[8..].copy_from_slice(&(pn ^ 0x5a5a_5a5a_5a5a_5a5a).to_be_bytes());
    t
}

impl Key for GenKey {
    fn decrypt(&self, pn: u64, header: &[u8], payload: &mut [u8]) -> Result<(), packet_protection::Error> {
        if let Inner::Real(k) = &self.inner {
            return k.decrypt(pn, header, payload);
        }
        if payload.len() < TAG_LEN {
            return Err(packet_protection::Error::DECRYPT_ERROR);
        }
        let t = &payload[payload.len() - TAG_LEN..];
        if t == tag(self.gen, pn) {
            Ok(())
        } else {
            Err(packet_protection::Error::DECRYPT_ERROR)
        }
    }
    fn encrypt(&mut self, pn: u64, header: &[u8], payload: &mut scatter::Buffer) -> Result<(), packet_protection::Error> {
        *self.ledger.lock().unwrap().entry(self.gen).or_insert(0) += 1;
        if let Inner::Real(k) = &mut self.inner {
            return k.encrypt(pn, header, payload);
        }
        let buf = payload.flatten();
        buf.write_slice(&tag(self.gen, pn));
        Ok(())
    }
    fn tag_len(&self) -> usize {
        match &self.inner {
            Inner::Tag => TAG_LEN,
            Inner::Real(k) => k.tag_len(),
        }
    }
    fn aead_confidentiality_limit(&self) -> u64 {
        self.conf
    }
    fn aead_integrity_limit(&self) -> u64 {
        self.integ
    }
    fn cipher_suite(&self) -> s2n_quic_core::crypto::tls::CipherSuite {
        s2n_quic_core::crypto::tls::CipherSuite::Unknown
    }
}
impl OneRttKey for GenKey {
    fn derive_next_key(&self) -> Self {
        let inner = match &self.inner {
            Inner::Tag => Inner::Tag,
            Inner::Real(k) => Inner::Real(k.derive_next_key()),
        };
        GenKey { inner, gen: self.gen + 1, conf: self.conf, integ: self.integ, ledger: self.ledger.clone() }
    }
}

struct Endpoint {
    ks: KeySet<GenKey>,
    ledger: Arc<Mutex<HashMap<u64, u64>>>,
    next_pn: u64,
    sent: HashMap<u64, (Vec<u8>, u64)>, // pn -> (wire bytes, generation that protected it)
    closed: bool,
    rotations: u64,
}

fn pnum(x: u64) -> PacketNumber {
    PacketNumberSpace::ApplicationData.new_packet_number(VarInt::new(x).unwrap())
}

struct Cfg {
    conf: u64,
    window: u64,
    integ: u64,
    suite: String,
}

fn real_key(suite: &str, client: bool) -> Inner {
    use s2n_quic_crypto::{aws_lc_aead as aead, hkdf, one_rtt::OneRttKey, SecretPair};
    let (alg, h) = match suite {
        "aes128" => (&aead::AES_128_GCM, hkdf::HKDF_SHA256),
        "aes256" => (&aead::AES_256_GCM, hkdf::HKDF_SHA384),
        "chacha" => (&aead::CHACHA20_POLY1305, hkdf::HKDF_SHA256),
        _ => return Inner::Tag,
    };
    let len = if suite == "aes256" { 48 } else { 32 };
    let secrets = SecretPair {
        server: hkdf::Prk::new_less_safe(h, &vec![0x11u8; len]),
        client: hkdf::Prk::new_less_safe(h, &vec![0x22u8; len]),
    };
    let (k, _hk) = if client { OneRttKey::new_client(alg, secrets) } else { OneRttKey::new_server(alg, secrets) }.expect("key");
    Inner::Real(k)
}

fn new_ep(c: &Cfg, client: bool) -> Endpoint {
    let ledger = Arc::new(Mutex::new(HashMap::new()));
    let mut limits = Limits::default();
    limits.key_update_window = c.window;
    let ks = KeySet::new(GenKey { inner: real_key(&c.suite, client), gen: 0, conf: c.conf, integ: c.integ, ledger: ledger.clone() }, limits);
    Endpoint { ks, ledger, next_pn: 0, sent: HashMap::new(), closed: false, rotations: 0 }
}

fn now() -> Timestamp {
    NoopClock.get_time()
}

const DCID: [u8; 8] = [9; 8];

fn encrypt(ep: &mut Endpoint) -> Result<(u64, u8, u64), &'static str> {
    let pn = ep.next_pn;
    let mut buf = vec![0u8; 200];
    let payload: &[u8] = &[0x01u8, 0, 0, 0, 0, 0, 0, 0, 0, 0, 0, 0, 0, 0, 0, 0, 0, 0, 0, 0]; // PING + padding
    let hk = HeaderKey::default();
    let basis = pnum(pn.saturating_sub(1));
    let mut used_bit = 0u8;
    let mut used_gen = 0u64;
    let res = ep.ks.encrypt_packet(EncoderBuffer::new(&mut buf), |buffer, key, phase| {
        used_bit = phase as u8;
        used_gen = key.gen;
        let packet = Short {
            spin_bit: Default::default(),
            key_phase: phase,
            destination_connection_id: &DCID[..],
            packet_number: pnum(pn),
            payload,
        };
        packet.encode_packet(key, &hk, basis, None, buffer)
    });
    match res {
        Ok((_p, rest)) => {
            let len = 200 - rest.remaining_capacity();
            buf.truncate(len);
            ep.sent.insert(pn, (buf, used_gen));
            ep.next_pn += 1;
            Ok((pn, used_bit, used_gen))
        }
        Err(PacketEncodingError::AeadLimitReached(_)) => Err("refused"),
        Err(_) => Err("encode_error"),
    }
}

/// returns (result, rotated-to generation)
fn deliver(ep: &mut Endpoint, mut bytes: Vec<u8>, pn_hint: u64) -> (&'static str, Option<u16>) {
    let addr = SocketAddress::default();
    let info = ConnectionInfo::new(&addr);
    let basis = pnum(pn_hint.saturating_sub(1));
    let Ok((packet, _rest)) = ProtectedPacket::decode(DecoderBufferMut::new(&mut bytes), &info, &DCID.len()) else {
        return ("decode_error", None);
    };
    let ProtectedPacket::Short(p) = packet else { return ("not_short", None) };
    let Ok(enc) = p.unprotect(&HeaderKey::default(), basis) else { return ("unprotect_error", None) };
    let pto = now() + Duration::from_secs(1);
    match ep.ks.decrypt_packet(enc, basis, pto) {
        Ok((_clear, gen)) => ("ok", gen),
        Err(e) => {
            let s = format!("{e:?}");
            if s.contains("AEAD_LIMIT_REACHED") { ("aead_limit", None) } else { ("fail", None) }
        }
    }
}

fn obs(ep: &mut Endpoint) -> Value {
    let phase = ep.ks.key_phase() as u8;
    let timer = ep.ks.key_update_in_progress();
    let aenc = ep.ks.active_key().encrypted_packets();
    let agen = ep.ks.active_key_mut().key_mut().gen;
    json!({"phase": phase, "timer": timer, "agen": agen, "aenc": aenc, "rot": ep.rotations, "closed": ep.closed})
}

fn replay_one(beh: &Value, c: &Cfg) -> Result<usize, String> {
    let mut eps: HashMap<&str, Endpoint> = HashMap::new();
    eps.insert("a", new_ep(c, true));
    eps.insert("b", new_ep(c, false));
    let steps = beh.as_array().unwrap();
    for (i, s) in steps.iter().enumerate() {
        let st = &s["step"];
        let e = st["ep"].as_str().unwrap();
        match st["op"].as_str().unwrap() {
            "encrypt" => {
                let ep = eps.get_mut(e).unwrap();
                match (encrypt(ep), st["res"].as_str().unwrap()) {
                    (Ok((pn, bit, gen)), "ok") => {
                        if pn != st["pn"].as_u64().unwrap() || bit as u64 != st["bit"].as_u64().unwrap() || gen != st["gen"].as_u64().unwrap() {
                            return Err(format!("step {i}: encrypt used pn {pn} phase {bit} generation {gen}, expected {st}"));
                        }
                    }
                    (Err("refused"), "refused") => {}
                    (got, exp) => return Err(format!("step {i}: encrypt gave {got:?}, expected {exp}")),
                }
            }
            "deliver" => {
                let bytes = if st["forged"].as_bool().unwrap() {
                    // a short packet with the requested key-phase bit and a garbage tag
                    let mut b = vec![0x40u8 | ((st["bit"].as_u64().unwrap() as u8) << 2)];
                    b.extend_from_slice(&DCID);
                    b.extend_from_slice(&[0u8; 40]);
                    b
                } else {
                    let src = st["src"].as_str().unwrap();
                    eps[src].sent.get(&st["pn"].as_u64().unwrap()).ok_or(format!("step {i}: packet never sent"))?.0.clone()
                };
                let ep = eps.get_mut(e).unwrap();
                let (res, gen) = deliver(ep, bytes, st["pn"].as_u64().unwrap());
                if res == "aead_limit" {
                    ep.closed = true;
                }
                if let Some(g) = gen {
                    ep.rotations = g as u64;
                }
                let exp = st["res"].as_str().unwrap();
                if res != exp {
                    return Err(format!("step {i}: delivering {st} gave {res}, expected {exp}"));
                }
                if gen.is_some() != st["rotated"].as_bool().unwrap() {
                    return Err(format!("step {i}: key phase rotation {:?}, expected rotated={} for {st}", gen, st["rotated"]));
                }
            }
            "timer" => {
                let ep = eps.get_mut(e).unwrap();
                ep.ks.on_timeout(now() + Duration::from_secs(5));
            }
            o => return Err(format!("unknown op {o}")),
        }
        for name in ["a", "b"] {
            let got = obs(eps.get_mut(name).unwrap());
            let exp = &s["st"][name];
            if exp["closed"].as_bool().unwrap() {
                continue; // a closed connection's key state is no longer observable/meaningful
            }
            if &got != exp {
                return Err(format!("step {i} ({}): endpoint {name} state {got}, expected {exp}", st["op"]));
            }
        }
    }
    // ledger: no generation protects more packets than the confidentiality limit
    for (name, ep) in eps.iter() {
        for (g, n) in ep.ledger.lock().unwrap().iter() {
            if *n > c.conf {
                return Err(format!("endpoint {name}: key generation {g} protected {n} packets (limit {})", c.conf));
            }
        }
    }
    Ok(steps.len())
}

pub fn replay(args: &[String]) -> Value {
    let behs = read_behaviours(&args[0]);
    let c = Cfg { conf: args[1].parse().unwrap(), window: args[2].parse().unwrap(), integ: args[3].parse().unwrap(),
                  suite: args.get(4).cloned().unwrap_or_else(|| "tag".into()) };
    silence_panics();
    let results = par_map(&behs, 12, |idx, b| match std::panic::catch_unwind(std::panic::AssertUnwindSafe(|| replay_one(b, &c))) {
        Ok(Ok(n)) => (n, None),
        Ok(Err(m)) => (0, Some(json!({"behaviour": idx, "what": m, "steps": b}))),
        Err(p) => (0, Some(json!({"behaviour": idx, "what": format!("panic: {}", panic_msg(p)), "steps": b}))),
    });
    let mut steps = 0;
    let mut bad = Vec::new();
    let mut updates = 0u64;
    for (s, b) in results {
        steps += s;
        bad.extend(b);
    }
    for b in &behs {
        if b.as_array().unwrap().iter().any(|s| s["step"]["rotated"] == true) {
            updates += 1;
        }
    }
    let n = bad.len();
    bad.truncate(5);
    json!({"behaviours": behs.len(), "steps": steps, "mismatches": n, "first": bad, "with_key_update": updates,
           "sample": behs.iter().find(|b| b.as_array().unwrap().iter().any(|s| s["step"]["rotated"] == true))})
}

//! C17 (item level, ring cursors): the real sync::cursor producer / consumer pair over shared indexes and a shared
//! descriptor array, driven by one thread in random call orders.  Every acquire / release is one event for Trace_Cursor
//! with the value the call returned, the cached lengths both sides then hold (length of producer_data / consumer_data)
//! and, for a consumer release, what the released descriptors contained.  Values are the running entry count as u32,
//! reported as i32 (so positions just below the 2^32 index wrap are small negative numbers).
//! One run per recording fast-forwards a 65536-entry ring to just below the index wrap (an `ff` event: batches of
//! produce-all / consume-all whose results are summarised) and then continues with recorded calls across the wrap.
use crate::util::*;
use rand::{rngs::StdRng, Rng, SeedableRng};
use s2n_quic_core::sync::cursor::{Builder, Cursor};
use serde_json::{json, Value};
use std::{ptr::NonNull, sync::atomic::AtomicU32};

struct Ring { p: Cursor<u32>, c: Cursor<u32>, _idx: Box<[AtomicU32; 2]>, _data: Box<[u32]>, size: u32 }

fn ring(size: u32) -> Ring {
    let mut idx = Box::new([AtomicU32::new(0), AtomicU32::new(0)]);
    let mut data = vec![u32::MAX; size as usize].into_boxed_slice();
    let b = |idx: &mut [AtomicU32; 2], data: &mut [u32]| Builder { producer: NonNull::from(&mut idx[0]), consumer: NonNull::from(&mut idx[1]), data: NonNull::new(data.as_mut_ptr()).unwrap(), size };
    let p = unsafe { b(&mut idx, &mut data).build_producer() };
    let c = unsafe { b(&mut idx, &mut data).build_consumer() };
    Ring { p, c, _idx: idx, _data: data, size }
}

fn lens(r: &mut Ring) -> (u32, u32) {
    let pl = { let (a, b) = unsafe { r.p.producer_data() }; (a.len() + b.len()) as u32 };
    let cl = { let (a, b) = unsafe { r.c.consumer_data() }; (a.len() + b.len()) as u32 };
    (pl, cl)
}

/// one recorded call; `pushed` / `popped` are the harness's own running counts (only used to fill in entry values)
fn step(r: &mut Ring, rng: &mut StdRng, pushed: &mut u64, popped: &mut u64) -> Value {
    let size = r.size;
    let wm = |rng: &mut StdRng| match rng.random_range(0..5) { 0 => 0, 1 => 1, 2 => size, 3 => u32::MAX, _ => rng.random_range(1..=size) };
    let mut ev = match rng.random_range(0..4) {
        0 => { let w = wm(rng); let ret = r.p.acquire_producer(w); json!({"ev": "pacq", "wm": w.min(size), "ret": ret}) }
        1 => {
            let (pl, _) = lens(r);
            let n = if pl == 0 { 0 } else { rng.random_range(0..=pl) };
            { let (a, b) = unsafe { r.p.producer_data() }; for (i, s) in a.iter_mut().chain(b.iter_mut()).take(n as usize).enumerate() { *s = (*pushed + i as u64) as u32; } }
            r.p.release_producer(n);
            *pushed += n as u64;
            json!({"ev": "prel", "n": n})
        }
        2 => { let w = wm(rng); let ret = r.c.acquire_consumer(w); json!({"ev": "cacq", "wm": w.min(size), "ret": ret}) }
        _ => {
            let (_, cl) = lens(r);
            let n = if cl == 0 { 0 } else { rng.random_range(0..=cl) };
            let (first, last, inorder) = {
                let (a, b) = unsafe { r.c.consumer_data() };
                let v: Vec<u32> = a.iter().chain(b.iter()).take(n as usize).copied().collect();
                (v.first().copied().unwrap_or(0), v.last().copied().unwrap_or(0), v.windows(2).all(|w| w[1] == w[0].wrapping_add(1)))
            };
            r.c.release_consumer(n);
            *popped += n as u64;
            json!({"ev": "crel", "n": n, "first": first as i32, "last": last as i32, "inorder": inorder})
        }
    };
    let (pl, cl) = lens(r);
    ev["plen"] = json!(pl);
    ev["clen"] = json!(cl);
    ev
}

/// cursor-record <seed> <runs> <out>
pub fn record(args: &[String]) -> Value {
    silence_panics();
    let seed: u64 = args[0].parse().unwrap();
    let runs: usize = args[1].parse().unwrap();
    let mut out = TraceOut::new(&args[2]);
    let mut rng = StdRng::seed_from_u64(seed ^ 0xc0750);
    let mut wraps = 0u64;
    for k in 0..runs {
        let big = k == 0;
        let size: u32 = if big { 1 << 16 } else { 1 << rng.random_range(0..5) };
        let res = std::panic::catch_unwind(std::panic::AssertUnwindSafe(|| {
            let mut evs = vec![];
            let mut r = ring(size);
            let (pl, cl) = lens(&mut r);
            evs.push(json!({"ev": "reset", "size": size, "plen": pl, "clen": cl}));
            let (mut pushed, mut popped) = (0u64, 0u64);
            if big {
                // fast-forward: ring-sized batches until just below the index wrap
                let batch = size - 3;
                let target = (1u64 << 32) - 2 * size as u64 - rng.random_range(0..1000u64);
                let (mut batches, mut ok) = (0u64, true);
                while pushed + (batch as u64) < target {
                    ok &= r.p.acquire_producer(batch) >= batch;
                    { let (a, b) = unsafe { r.p.producer_data() }; let n = a.len() + b.len(); if n >= batch as usize { let last = batch as usize - 1; if !a.is_empty() { a[0] = pushed as u32; } if last < a.len() { a[last] = (pushed + last as u64) as u32; } else { b[last - a.len()] = (pushed + last as u64) as u32; } } else { ok = false; } }
                    r.p.release_producer(batch);
                    pushed += batch as u64;
                    ok &= r.c.acquire_consumer(u32::MAX) == batch;
                    { let (a, b) = unsafe { r.c.consumer_data() }; ok &= a.len() + b.len() == batch as usize && a.first().copied() == Some(popped as u32) && b.last().or(a.last()).copied() == Some((popped + batch as u64 - 1) as u32); }
                    r.c.release_consumer(batch);
                    popped += batch as u64;
                    batches += 1;
                }
                let (pl, cl) = lens(&mut r);
                evs.push(json!({"ev": "ff", "batches": batches, "batch": batch, "ok": ok, "pos": (pushed as u32) as i32, "plen": pl, "clen": cl}));
            }
            let n = if big { 600 } else { rng.random_range(10..200) };
            for _ in 0..n { let e = step(&mut r, &mut rng, &mut pushed, &mut popped); evs.push(e); }
            (evs, big && pushed > (1u64 << 32))
        }));
        match res {
            Ok((evs, wrapped)) => { if wrapped { wraps += 1; } for e in evs { out.emit(e); } }
            Err(e) => { out.emit(json!({"ev": "reset", "size": size, "plen": size, "clen": 0})); out.emit(json!({"ev": "panic", "msg": panic_msg(e)})); }
        }
    }
    let n = out.finish();
    json!({"events": n, "runs": runs, "index_wraps_crossed": wraps})
}

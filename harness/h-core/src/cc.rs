//! C10: event histories (TLC-generated behaviours of comp/Congestion.tla, or long random ones) run on the real
//! CubicCongestionController and BbrCongestionController.  What the machine determines (in-flight counter, the
//! fast-retransmission flag, the window wherever the machine's step is deterministic) is compared on the spot; what
//! the controllers report after every call is recorded for Trace_Congestion.
use crate::util::*;
use rand::{rngs::StdRng, Rng, SeedableRng};
use s2n_quic_core::{
    event, path,
    packet::number::PacketNumberSpace,
    random,
    recovery::{bbr::BbrCongestionController, congestion_controller::PathPublisher, CongestionController, CubicCongestionController, RttEstimator},
    time::Timestamp,
};
use serde_json::{json, Value};
use std::{collections::BTreeMap, time::Duration};

#[derive(Clone, Debug)]
enum Op {
    Send { size: usize, app: Option<bool> },
    Ack { ids: Vec<u64> },
    Lost { id: u64, persistent: bool },
    Ecn,
    Mtu { m: u16 },
    Discard { id: u64 },
    Tick { us: u64 },
}

#[derive(Clone, Debug)]
struct Step {
    op: Op,
    /// machine state after the step (TLC behaviours only): cwnd, bif, req, under; `det`: the step's window is determined
    m: Option<(u64, u64, bool, bool)>,
    det: bool,
}

fn ts(us: u64) -> Timestamp {
    unsafe { Timestamp::from_duration(Duration::from_micros(us + 1_000_000)) }
}

fn parse(beh: &Value, tick_us: u64) -> (u16, Vec<Step>) {
    let arr = beh.as_array().unwrap();
    let mss = arr[0]["mss"].as_u64().unwrap() as u16;
    let mut steps = Vec::new();
    for e in &arr[1..] {
        let m = &e["m"];
        let ms = Some((m["cwnd"].as_u64().unwrap(), m["bif"].as_u64().unwrap(), m["req"].as_bool().unwrap(), m["under"].as_bool().unwrap()));
        let (op, det) = match e["op"].as_str().unwrap() {
            "send" => (Op::Send { size: e["size"].as_u64().unwrap() as usize, app: match e["app"].as_str().unwrap() { "yes" => Some(true), "no" => Some(false), _ => None } }, true),
            "ack" => (Op::Ack { ids: e["ids"].as_array().unwrap().iter().map(|x| x.as_u64().unwrap()).collect() }, e["det"].as_bool().unwrap()),
            "lost" => (Op::Lost { id: e["id"].as_u64().unwrap(), persistent: e["persistent"].as_bool().unwrap() }, true),
            "ecn" => (Op::Ecn, true),
            "mtu" => (Op::Mtu { m: e["mss"].as_u64().unwrap() as u16 }, true),
            "discard" => (Op::Discard { id: e["id"].as_u64().unwrap() }, true),
            "tick" => (Op::Tick { us: e["d"].as_u64().unwrap() * tick_us }, true),
            o => panic!("op {o}"),
        };
        steps.push(Step { op, m: ms, det });
    }
    (mss, steps)
}

fn random_history(rng: &mut StdRng) -> (u16, Vec<Step>) {
    // beyond 9000: s2n-quic-dc runs the same controllers with datagram sizes up to 32k (16384 is where 4 * mss leaves 16 bits)
    let mss_choices = [1200u16, 1201, 1350, 1472, 1500, 4000, 8999, 9000, 16_383, 16_384, 32_000];
    let mut mss = mss_choices[rng.random_range(0..mss_choices.len())];
    let n = rng.random_range(20..400);
    let base_rtt: u64 = [50u64, 1_000, 20_000, 100_000, 900_000][rng.random_range(0..5)];
    let mut steps = Vec::new();
    let mut out: Vec<u64> = Vec::new();
    let mut next = 0u64;
    let mut total_us = 0u64;
    // phases: bulk sending / app-limited trickle / loss bursts
    let mut phase = 0;
    for i in 0..n {
        if i % 40 == 0 { phase = rng.random_range(0..3); }
        let r = rng.random_range(0..100);
        let op = if out.is_empty() || r < [55, 35, 30][phase] {
            let size = match rng.random_range(0..6) { 0 => 1, 1 => rng.random_range(1..100), 2 => mss as usize - 1, _ => mss as usize };
            let app = match (phase, rng.random_range(0..10)) { (_, 0) => None, (1, _) => Some(true), (_, k) => Some(k < 3) };
            out.push(next); next += 1;
            Op::Send { size, app }
        } else if r < [80, 75, 50][phase] {
            // acknowledge a prefix, a single packet or an arbitrary subset
            let ids: Vec<u64> = match rng.random_range(0..3) {
                0 => { let k = rng.random_range(1..=out.len()); out[..k].to_vec() }
                1 => vec![out[rng.random_range(0..out.len())]],
                _ => { let v: Vec<u64> = out.iter().copied().filter(|_| rng.random_bool(0.4)).collect(); if v.is_empty() { vec![out[0]] } else { v } }
            };
            out.retain(|x| !ids.contains(x));
            Op::Ack { ids }
        } else if r < [86, 80, 85][phase] {
            let id = out.remove(rng.random_range(0..out.len()));
            Op::Lost { id, persistent: rng.random_bool(if phase == 2 { 0.15 } else { 0.03 }) }
        } else if r < 89 {
            Op::Ecn
        } else if r < 91 {
            mss = mss_choices[rng.random_range(0..mss_choices.len())];
            Op::Mtu { m: mss }
        } else if r < 93 {
            let id = out.remove(rng.random_range(0..out.len()));
            Op::Discard { id }
        } else {
            let us = match rng.random_range(0..5) { 0 => 1, 1 => base_rtt / 10 + 1, 2 => base_rtt, 3 => base_rtt * 3, _ => rng.random_range(1..2_000_000) };
            if total_us + us > 1_500_000_000 { continue; }
            total_us += us;
            Op::Tick { us }
        };
        steps.push(Step { op, m: None, det: false });
    }
    (mss, steps)
}

struct Outcome {
    mismatch: Option<String>,
    steps: u64,
    synced_steps: u64,
}

fn drive<C: CongestionController>(mut cc: C, kind: &str, mss0: u16, steps: &[Step], tr: &mut Vec<Value>, compare: bool) -> Outcome {
    let mut publisher = event::testing::Publisher::no_snapshot();
    let mut publisher = PathPublisher::new(&mut publisher, path::Id::test_id());
    let mut rng = random::testing::Generator(7);
    let mut rtt = RttEstimator::new(Duration::from_millis(333));
    let mut now = 0u64;
    let mut mss = mss0;
    let mut out: BTreeMap<u64, (usize, u64, C::PacketInfo)> = BTreeMap::new();
    let mut next = 0u64;
    let mut insync = compare;
    let mut delta: i64 = 0;
    let mut o = Outcome { mismatch: None, steps: 0, synced_steps: 0 };
    tr.push(json!({"ev": "reset", "kind": kind, "mss": mss, "cwnd": cc.congestion_window(), "bif": cc.bytes_in_flight(), "t": 0}));
    for (i, st) in steps.iter().enumerate() {
        let before = cc.congestion_window();
        let mut ev = match &st.op {
            Op::Send { size, app } => {
                let info = cc.on_packet_sent(ts(now), *size, *app, &rtt, &mut publisher);
                out.insert(next, (*size, now, info));
                next += 1;
                json!({"ev": "send", "size": size, "app": match app { Some(true) => "yes", Some(false) => "no", None => "none" }})
            }
            Op::Ack { ids } => {
                let mut bytes = 0usize;
                let mut newest: Option<(u64, u64, C::PacketInfo)> = None;
                for id in ids {
                    let (size, t, info) = out.remove(id).expect("ack of a packet in flight");
                    bytes += size;
                    if newest.map(|(nt, nid, _)| (t, *id) > (nt, nid)).unwrap_or(true) {
                        newest = Some((t, *id, info));
                    }
                }
                let (nt, _, info) = newest.unwrap();
                rtt.update_rtt(Duration::ZERO, Duration::from_micros((now - nt).max(1)), ts(now), true, PacketNumberSpace::ApplicationData);
                cc.on_rtt_update(ts(nt), ts(now), &rtt, &mut publisher);
                cc.on_ack(ts(nt), bytes, info, &rtt, &mut rng, ts(now), &mut publisher);
                json!({"ev": "ack", "bytes": bytes, "newest": nt})
            }
            Op::Lost { id, persistent } => {
                let (size, _t, info) = out.remove(id).expect("loss of a packet in flight");
                cc.on_packet_lost(size as u32, info, *persistent, true, &mut rng, ts(now), &mut publisher);
                json!({"ev": "lost", "bytes": size, "persistent": persistent})
            }
            Op::Ecn => {
                cc.on_explicit_congestion(1, ts(now), &mut publisher);
                json!({"ev": "ecn"})
            }
            Op::Mtu { m } => {
                cc.on_mtu_update(*m, &mut publisher);
                mss = *m;
                json!({"ev": "mtu"})
            }
            Op::Discard { id } => {
                let (size, _, _) = out.remove(id).expect("discard of a packet in flight");
                cc.on_packet_discarded(size, &mut publisher);
                json!({"ev": "discard", "bytes": size})
            }
            Op::Tick { us } => {
                now += us;
                json!({"ev": "tick"})
            }
        };
        let (cwnd, bif, req) = (cc.congestion_window(), cc.bytes_in_flight(), cc.requires_fast_retransmission());
        let e = ev.as_object_mut().unwrap();
        e.insert("t".into(), json!(now));
        e.insert("mss".into(), json!(mss));
        e.insert("cwnd".into(), json!(cwnd));
        e.insert("bif".into(), json!(bif));
        e.insert("req".into(), json!(req));
        e.insert("lim".into(), json!(cc.is_congestion_limited()));
        tr.push(ev);
        o.steps += 1;
        if let (true, Some((mc, mb, mreq, _))) = (compare, st.m) {
            if mb != bif as u64 && o.mismatch.is_none() {
                o.mismatch = Some(format!("step {i} {:?}: bytes in flight {bif}, machine {mb}", st.op));
            }
            // the window is a float inside the controller and reported truncated: a datagram-size change scales the hidden
            // fraction by up to 9000/1200
            let is_mtu = format!("{:?}", st.op).starts_with("Mtu");
            let tol: i64 = if is_mtu { 12 } else { 3 };
            // ... and what was hidden stays in the window afterwards: carry the offset of that step along
            let mc = (mc as i64 + delta).max(0) as u64;
            if is_mtu && (mc as i64 - cwnd as i64).abs() <= tol { delta += cwnd as i64 - mc as i64; }
            if insync {
                if st.det {
                    o.synced_steps += 1;
                    if (mc as i64 - cwnd as i64).abs() > tol && o.mismatch.is_none() {
                        o.mismatch = Some(format!("step {i} {:?}: window {before} -> {cwnd}, machine {mc}", st.op));
                    }
                    if mreq != req && o.mismatch.is_none() {
                        o.mismatch = Some(format!("step {i} {:?}: requires_fast_retransmission {req}, machine {mreq}", st.op));
                    }
                } else if (mc as i64 - cwnd as i64).abs() > tol {
                    insync = false;
                }
            }
        }
    }
    o
}

/// cc-run <behaviours-file | random:<count>:<seed>> <trace-out> [trace-every k-th history, default 1]
pub fn run(args: &[String]) -> Value {
    silence_panics();
    let src = &args[0];
    let histories: Vec<(u16, Vec<Step>, bool, u64)> = if let Some(spec) = src.strip_prefix("random:") {
        let mut it = spec.split(':');
        let count: u64 = it.next().unwrap().parse().unwrap();
        let seed: u64 = it.next().unwrap().parse().unwrap();
        (0..count).map(|k| {
            let mut rng = StdRng::seed_from_u64(seed.wrapping_mul(1_000_003).wrapping_add(k));
            let (m, s) = random_history(&mut rng);
            (m, s, false, 0)
        }).collect()
    } else {
        let behs = read_behaviours(src);
        // every behaviour under three time scales (1 tick = 1 us / 1 ms / 70 ms)
        behs.iter().enumerate().flat_map(|(k, b)| {
            let scales: &[u64] = if k % 10 == 0 { &[1, 1_000, 70_000] } else { &[[1u64, 1_000, 70_000][k % 3]] };
            scales.iter().map(|sc| { let (m, s) = parse(b, *sc); (m, s, true, *sc) }).collect::<Vec<_>>()
        }).collect()
    };
    let results = par_map(&histories, 12, |idx, (mss, steps, compare, scale)| {
        let mut lines: Vec<Value> = Vec::new();
        let mut mism: Vec<Value> = Vec::new();
        let mut steps_n = 0u64;
        let mut synced = 0u64;
        for kind in ["cubic", "bbr"] {
            let mut tr = Vec::new();
            let r = std::panic::catch_unwind(std::panic::AssertUnwindSafe(|| {
                if kind == "cubic" {
                    drive(CubicCongestionController::new(*mss, Default::default()), kind, *mss, steps, &mut tr, *compare)
                } else {
                    drive(BbrCongestionController::new(*mss, Default::default()), kind, *mss, steps, &mut tr, false)
                }
            }));
            match r {
                Ok(o) => {
                    steps_n += o.steps;
                    synced += o.synced_steps;
                    if let Some(m) = o.mismatch {
                        mism.push(json!({"history": idx, "kind": kind, "tick_us": scale, "what": m}));
                    }
                }
                Err(e) => {
                    tr.push(json!({"ev": "panic", "kind": kind, "msg": panic_msg(e)}));
                }
            }
            lines.extend(tr);
        }
        (idx, lines, mism, steps_n, synced)
    });
    let every: usize = args.get(2).map(|x| x.parse().unwrap()).unwrap_or(1);
    let mut results = results;
    results.sort_by_key(|r| r.0);
    let mut out = TraceOut::new(&args[1]);
    let mut mismatches = Vec::new();
    let (mut steps, mut synced, mut panics) = (0u64, 0u64, 0u64);
    for (idx, lines, mism, s, y) in results {
        let has_panic = lines.iter().any(|l| l["ev"] == "panic");
        if has_panic { panics += 1; }
        if idx % every == 0 || has_panic {
            for l in lines {
                out.emit(l);
            }
        }
        mismatches.extend(mism);
        steps += s;
        synced += y;
    }
    let n = out.finish();
    let nm = mismatches.len();
    mismatches.truncate(20);
    json!({"behaviours": histories.len(), "runs": histories.len().div_ceil(every) * 2, "events": n, "steps": steps,
           "steps_compared_with_machine": synced, "panics": panics, "mismatches": nm, "first": mismatches})
}

mod cc;
mod frames;
mod keyupdate;
mod ranges;
mod reasm;
mod spsc;
mod cursor;
mod tparams;
mod util;

fn main() {
    let args: Vec<String> = std::env::args().skip(1).collect();
    let cmd = args.first().map(|s| s.as_str()).unwrap_or("");
    let rest = &args[1.min(args.len())..];
    let out = match cmd {
        "frames-replay" => frames::replay(rest),
        "frames-record" => frames::record(rest),
        "packets-record" => frames::record_packets(rest),
        "spsc-record" => spsc::record(rest),
        "worker-record" => spsc::worker_record(rest),
        "cursor-record" => cursor::record(rest),
        "cc-run" => cc::run(rest),
        "reasm-replay" => reasm::replay(rest),
        "reasm-record" => reasm::record(rest),
        "ranges-replay" => ranges::replay(rest),
        "keyupdate-replay" => keyupdate::replay(rest),
        "tparams-replay" => tparams::replay(rest),
        "tparams-record" => tparams::record(rest),
        _ => {
            eprintln!("unknown command {cmd}");
            std::process::exit(2);
        }
    };
    println!("RESULT {}", out);
}

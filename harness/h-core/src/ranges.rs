//! C16: IntervalSet, ack::Ranges, packet::number::Map, SlidingWindow — replay of TLC-generated behaviours.
use crate::util::*;
use s2n_quic_core::{
    ack,
    interval_set::{IntervalSet, IntervalSetError},
    packet::number::{Map, PacketNumber, PacketNumberRange, PacketNumberSpace, SlidingWindow, SlidingWindowError},
    varint::VarInt,
};
use serde_json::{json, Value};

const MAXV: u64 = (1u64 << 62) - 1;

fn vi(x: u64) -> VarInt {
    VarInt::new(x).unwrap()
}
fn pn(x: u64) -> PacketNumber {
    PacketNumberSpace::ApplicationData.new_packet_number(vi(x))
}

#[derive(Clone, Copy)]
struct Emb {
    s: u64,
    b: u64,
}
impl Emb {
    fn lo(&self, x: u64) -> u64 {
        self.b + self.s * x
    }
    fn hi(&self, x: u64) -> u64 {
        self.b + self.s * (x + 1) - 1
    }
}

fn set_from(e: Emb, ivs: &Value) -> IntervalSet<VarInt> {
    let mut s = IntervalSet::new();
    for iv in ivs.as_array().unwrap() {
        s.insert(vi(e.lo(iv[0].as_u64().unwrap()))..=vi(e.hi(iv[1].as_u64().unwrap()))).unwrap();
    }
    s
}

fn check_set_obs<T: Copy, I: Iterator<Item = core::ops::RangeInclusive<T>>>(
    it: I, count: usize, n: usize, to: impl Fn(T) -> u64, e: Emb, obs: &Value, i: usize,
) -> Result<(), String> {
    let got: Vec<(u64, u64)> = it.map(|r| (to(*r.start()), to(*r.end()))).collect();
    let exp: Vec<(u64, u64)> = obs["ivs"].as_array().unwrap().iter()
        .map(|iv| (e.lo(iv[0].as_u64().unwrap()), e.hi(iv[1].as_u64().unwrap()))).collect();
    if got != exp {
        return Err(format!("step {i}: intervals {got:?}, expected {exp:?}"));
    }
    let ec = obs["count"].as_u64().unwrap() * e.s;
    if count as u64 != ec {
        return Err(format!("step {i}: count {count}, expected {ec}"));
    }
    if n as u64 != obs["n"].as_u64().unwrap() {
        return Err(format!("step {i}: interval_len {n}, expected {}", obs["n"]));
    }
    Ok(())
}

fn rangeset_one(beh: &Value, e: Emb, limited: Option<usize>) -> Result<usize, String> {
    let steps = beh.as_array().unwrap();
    let mut set: IntervalSet<VarInt> = IntervalSet::new();
    let mut ack = limited.map(ack::Ranges::new);
    for (i, st) in steps.iter().enumerate() {
        let op = st["op"].as_str().unwrap();
        let lo = st.get("lo").and_then(|v| v.as_u64()).map(|x| e.lo(x));
        let hi = st.get("hi").and_then(|v| v.as_u64()).map(|x| e.hi(x));
        let verdict = |r: Result<(), IntervalSetError>| match r {
            Ok(()) => "ok",
            Err(IntervalSetError::LimitExceeded) => "limit",
            Err(IntervalSetError::InvalidInterval) => "invalid",
        };
        let mut res: Option<&'static str> = None;
        match (op, ack.as_mut()) {
            ("insert", None) => res = Some(verdict(set.insert(vi(lo.unwrap())..=vi(hi.unwrap())))),
            ("remove", None) => res = Some(verdict(set.remove(vi(lo.unwrap())..=vi(hi.unwrap())))),
            ("remove", Some(a)) => res = Some(verdict(a.remove(pn(lo.unwrap())..=pn(hi.unwrap())))),
            ("ackinsert", Some(a)) => {
                res = Some(match a.insert_packet_number_range(PacketNumberRange::new(pn(lo.unwrap()), pn(hi.unwrap()))) {
                    Ok(()) => "ok",
                    Err(ack::ranges::Error::LowestRangeDropped { .. }) => "dropped",
                    Err(ack::ranges::Error::RangeInsertionFailed { .. }) => "failed",
                })
            }
            ("popmin", a) => {
                let got: Option<(u64, u64)> = match a {
                    None => set.pop_min().map(|iv| (iv.start_inclusive().as_u64(), iv.end_inclusive().as_u64())),
                    Some(a) => a.pop_min().map(|iv| (iv.start_inclusive().as_u64(), iv.end_inclusive().as_u64())),
                };
                let p = st["popped"].as_array().unwrap();
                let exp = if p.is_empty() { None } else { Some((e.lo(p[0].as_u64().unwrap()), e.hi(p[1].as_u64().unwrap()))) };
                if got != exp {
                    return Err(format!("step {i}: pop_min {got:?}, expected {exp:?}"));
                }
            }
            ("clear", None) => set.clear(),
            ("union", None) => set.union(&set_from(e, &st["other"])).map_err(|e| format!("{e:?}"))?,
            ("difference", None) => set.difference(&set_from(e, &st["other"])).map_err(|e| format!("{e:?}"))?,
            ("intersection", None) => set.intersection(&set_from(e, &st["other"])).map_err(|e| format!("{e:?}"))?,
            _ => return Err(format!("unknown op {op}")),
        }
        if let Some(r) = res {
            if r != st["res"].as_str().unwrap() {
                return Err(format!("step {i}: {op} verdict {r}, expected {}", st["res"]));
            }
        }
        match ack.as_ref() {
            None => {
                check_set_obs(set.inclusive_ranges(), set.count(), set.interval_len(), |v: VarInt| v.as_u64(), e, &st["obs"], i)?;
                // membership probes at the interval edges
                for iv in st["obs"]["ivs"].as_array().unwrap() {
                    let (a, b) = (e.lo(iv[0].as_u64().unwrap()), e.hi(iv[1].as_u64().unwrap()));
                    if !set.contains(&vi(a)) || !set.contains(&vi(b)) || (b < MAXV && set.contains(&vi(b + 1))) || (a > 0 && set.contains(&vi(a - 1))) {
                        return Err(format!("step {i}: contains() disagrees at the edges of [{a},{b}]"));
                    }
                }
                let (mn, mx) = (set.min_value().map(|v| v.as_u64()), set.max_value().map(|v| v.as_u64()));
                let ivs = st["obs"]["ivs"].as_array().unwrap();
                let emn = ivs.first().map(|iv| e.lo(iv[0].as_u64().unwrap()));
                let emx = ivs.last().map(|iv| e.hi(iv[1].as_u64().unwrap()));
                if (mn, mx) != (emn, emx) {
                    return Err(format!("step {i}: min/max {mn:?}/{mx:?}, expected {emn:?}/{emx:?}"));
                }
            }
            Some(a) => check_set_obs(a.inclusive_ranges(), a.count(), a.interval_len(), |v: PacketNumber| v.as_u64(), e, &st["obs"], i)?,
        }
    }
    Ok(steps.len())
}

fn pnmap_one(beh: &Value, e: Emb) -> Result<usize, String> {
    let steps = beh.as_array().unwrap();
    let mut m: Map<u64> = Map::default();
    let k = |x: u64| pn(e.b + e.s * x);
    for (i, st) in steps.iter().enumerate() {
        let op = st["op"].as_str().unwrap();
        match op {
            "insert" => m.insert(k(st["pn"].as_u64().unwrap()), st["v"].as_u64().unwrap()),
            "upsert" => m.insert_or_update(k(st["pn"].as_u64().unwrap()), st["v"].as_u64().unwrap(), |v| *v += 1),
            "remove" => {
                let got = m.remove(k(st["pn"].as_u64().unwrap())).map(|v| v as i64).unwrap_or(-1);
                if got != st["res"].as_i64().unwrap() {
                    return Err(format!("step {i}: remove returned {got}, expected {}", st["res"]));
                }
            }
            "rrange" => {
                let r = PacketNumberRange::new(k(st["lo"].as_u64().unwrap()), k(st["hi"].as_u64().unwrap()));
                let got: Vec<(u64, u64)> = m.remove_range(r).map(|(p, v)| (p.as_u64(), v)).collect();
                let exp: Vec<(u64, u64)> = st["res"].as_array().unwrap().iter()
                    .map(|x| (e.b + e.s * x[0].as_u64().unwrap(), x[1].as_u64().unwrap())).collect();
                if got != exp {
                    return Err(format!("step {i}: remove_range yielded {got:?}, expected {exp:?}"));
                }
            }
            "clear" => m.clear(),
            _ => return Err(format!("unknown op {op}")),
        }
        let exp: Vec<(u64, u64)> = st["obs"]["entries"].as_array().unwrap().iter()
            .map(|x| (e.b + e.s * x[0].as_u64().unwrap(), x[1].as_u64().unwrap())).collect();
        let got: Vec<(u64, u64)> = m.iter().map(|(p, v)| (p.as_u64(), *v)).collect();
        if got != exp {
            return Err(format!("step {i} ({op}): entries {got:?}, expected {exp:?}"));
        }
        if m.is_empty() != st["obs"]["empty"].as_bool().unwrap() {
            return Err(format!("step {i}: is_empty {}", m.is_empty()));
        }
        for (p, v) in &exp {
            if m.get(pn(*p)) != Some(v) {
                return Err(format!("step {i}: get({p}) != {v}"));
            }
        }
        if let (Some(f), Some(l)) = (exp.first(), exp.last()) {
            let r = m.get_range();
            if (r.start().as_u64(), r.end().as_u64()) != (f.0, l.0) {
                return Err(format!("step {i}: get_range {:?}..={:?}, expected {}..={}", r.start(), r.end(), f.0, l.0));
            }
            // absent keys next to the bounds
            if f.0 > 0 && m.get(pn(f.0 - 1)).is_some() || m.get(pn(l.0 + 1)).is_some() {
                return Err(format!("step {i}: get() finds a key outside the range"));
            }
        }
    }
    Ok(steps.len())
}

fn window_one(beh: &Value, b: u64) -> Result<usize, String> {
    let steps = beh.as_array().unwrap();
    let mut w = SlidingWindow::default();
    let name = |r: Result<(), SlidingWindowError>| match r {
        Ok(()) => "ok",
        Err(SlidingWindowError::Duplicate) => "dup",
        Err(SlidingWindowError::TooOld) => "old",
    };
    for (i, st) in steps.iter().enumerate() {
        let p = pn(b + st["pn"].as_u64().unwrap());
        let pre = name(w.check(p));
        let r = w.insert_with_evicted(p);
        let (res, ev): (&str, Vec<u64>) = match r {
            Ok(ev) => ("ok", ev.map(|x| x.as_u64()).collect()),
            Err(e) => (name(Err(e)), vec![]),
        };
        let exp = st["res"].as_str().unwrap();
        if res != exp || pre != exp {
            return Err(format!("step {i}: insert({p:?}) = {res} (check said {pre}), expected {exp}"));
        }
        if b == 0 || st["evicted"].as_array().unwrap().iter().all(|x| x.as_u64().unwrap() > 0) || true {
            let mut exp_ev: Vec<u64> = st["evicted"].as_array().unwrap().iter().map(|x| b + x.as_u64().unwrap()).collect();
            exp_ev.sort();
            let mut got = ev.clone();
            got.sort();
            // under a translation the numbers below the base exist in the code but not in the unit model
            got.retain(|x| *x >= b);
            if got != exp_ev {
                return Err(format!("step {i}: evicted {got:?}, expected {exp_ev:?}"));
            }
        }
        for (q, v) in st["probes"].as_object().unwrap() {
            let qn: u64 = q.parse().unwrap();
            let g = name(w.check(pn(b + qn)));
            if g != v.as_str().unwrap() {
                return Err(format!("step {i}: after insert, check({}) = {g}, expected {v}", b + qn));
            }
        }
    }
    Ok(steps.len())
}

fn run_all(behs: &[Value], f: impl Fn(&Value) -> Vec<(String, Result<usize, String>)> + Sync) -> Value {
    silence_panics();
    let results = par_map(behs, 16, |idx, b| {
        let mut steps = 0usize;
        let mut bad = Vec::new();
        match std::panic::catch_unwind(std::panic::AssertUnwindSafe(|| f(b))) {
            Ok(v) => {
                for (emb, r) in v {
                    match r {
                        Ok(n) => steps += n,
                        Err(m) => bad.push(json!({"behaviour": idx, "emb": emb, "what": m, "steps": b})),
                    }
                }
            }
            Err(p) => bad.push(json!({"behaviour": idx, "what": format!("panic: {}", panic_msg(p)), "steps": b})),
        }
        (steps, bad)
    });
    let mut steps = 0;
    let mut bad = Vec::new();
    for (s, b) in results {
        steps += s;
        bad.extend(b);
    }
    let n = bad.len();
    bad.truncate(5);
    json!({"behaviours": behs.len(), "steps": steps, "mismatches": n, "first": bad, "sample": behs.get(behs.len() / 2)})
}

pub fn replay(args: &[String]) -> Value {
    let kind = args[0].as_str();
    let behs = read_behaviours(&args[1]);
    match kind {
        "rangeset" | "ackranges" => {
            let maxv: u64 = args[2].parse().unwrap();
            let limit: Option<usize> = if kind == "ackranges" { Some(args[3].parse().unwrap()) } else { None };
            let embs: Vec<Emb> = [1u64, 2, 1000].iter().map(|s| Emb { s: *s, b: 0 })
                .chain([1u64, 3].iter().map(|s| Emb { s: *s, b: MAXV - (maxv + 1) * s + 1 }))
                .chain([Emb { s: 1, b: 77 }]).collect();
            run_all(&behs, |b| embs.iter().map(|e| (format!("s={} b={}", e.s, e.b), rangeset_one(b, *e, limited_or(limit)))).collect())
        }
        "pnmap" => {
            let maxv: u64 = args[2].parse().unwrap();
            let embs = [Emb { s: 1, b: 0 }, Emb { s: 2, b: 5 }, Emb { s: 5, b: 1000 }, Emb { s: 1, b: MAXV - maxv - 1 }];
            run_all(&behs, |b| embs.iter().map(|e| (format!("s={} b={}", e.s, e.b), pnmap_one(b, *e))).collect())
        }
        "window" => {
            let maxv: u64 = args[2].parse().unwrap();
            let bases = [0u64, 1, 127, 1 << 31, MAXV - maxv];
            run_all(&behs, |b| bases.iter().map(|x| (format!("b={x}"), window_one(b, *x))).collect())
        }
        _ => panic!("unknown kind"),
    }
}

fn limited_or(l: Option<usize>) -> Option<usize> {
    l
}

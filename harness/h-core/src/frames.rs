//! C05: frames and variable-length integers.
//!  frames-replay <gen-file>          : TLC-generated frames (reference encoder's bytes) -> real decoder must yield the same
//!                                      fields, real encoder must reproduce the bytes and announce their length
//!  frames-record <seed> <count> <out>: random / grammar-generated / mutated byte strings -> real decoder; verdict and fields
//!                                      are recorded for the reference parser (Trace_Wire); encoders are round-tripped
use crate::util::*;
use rand::{rngs::StdRng, Rng, SeedableRng};
use s2n_codec::{DecoderBufferMut, Encoder, EncoderBuffer, EncoderValue};
use s2n_quic_core::{frame::{self, FrameMut}, varint::VarInt};
use serde_json::{json, Value};

fn big(v: u64) -> Value {
    json!(v.to_be_bytes().to_vec())
}

/// (ty, big, nat, consumed) of the first frame in `input`, or None if the decoder rejects it
pub fn decode_one(input: &[u8]) -> Option<(String, Vec<Value>, Vec<u64>, usize, Vec<u8>)> {
    let mut copy = input.to_vec();
    let total = copy.len();
    let base = copy.as_ptr() as usize;
    let buffer = DecoderBufferMut::new(&mut copy);
    let (frame, rest) = buffer.decode::<FrameMut>().ok()?;
    let consumed = total - rest.len();
    let mut b: Vec<Value> = vec![];
    let mut n: Vec<u64> = vec![];
    let off_of = |s: &[u8]| -> u64 { if s.is_empty() { consumed as u64 + 1 } else { (s.as_ptr() as usize - base) as u64 + 1 } };
    let ty = match &frame {
        FrameMut::Padding(f) => { n.push(f.length as u64); "padding" }
        FrameMut::Ping(_) => "ping",
        FrameMut::Ack(f) => {
            b.push(big(*f.ack_delay));
            let mut count = 0;
            for r in f.ack_ranges() {
                b.push(big(**r.start()));
                b.push(big(**r.end()));
                count += 1;
            }
            n.push(count);
            if let Some(e) = &f.ecn_counts {
                b.push(big(*e.ect_0_count)); b.push(big(*e.ect_1_count)); b.push(big(*e.ce_count));
                n.push(1);
            } else {
                n.push(0);
            }
            "ack"
        }
        FrameMut::ResetStream(f) => { b.extend([big(*f.stream_id), big(*f.application_error_code), big(*f.final_size)]); "reset_stream" }
        FrameMut::StopSending(f) => { b.extend([big(*f.stream_id), big(*f.application_error_code)]); "stop_sending" }
        FrameMut::Crypto(f) => { let d = f.data.as_less_safe_slice(); b.push(big(*f.offset)); n.extend([off_of(d), d.len() as u64]); "crypto" }
        FrameMut::NewToken(f) => { n.extend([off_of(f.token), f.token.len() as u64]); "new_token" }
        FrameMut::Stream(f) => {
            let d = f.data.as_less_safe_slice();
            b.extend([big(*f.stream_id), big(*f.offset)]);
            n.extend([f.is_fin as u64, f.is_last_frame as u64, off_of(d), d.len() as u64]);
            "stream"
        }
        FrameMut::MaxData(f) => { b.push(big(*f.maximum_data)); "max_data" }
        FrameMut::MaxStreamData(f) => { b.extend([big(*f.stream_id), big(*f.maximum_stream_data)]); "max_stream_data" }
        FrameMut::MaxStreams(f) => { b.push(big(*f.maximum_streams)); n.push(if f.stream_type.is_bidirectional() { 0 } else { 1 }); "max_streams" }
        FrameMut::DataBlocked(f) => { b.push(big(*f.data_limit)); "data_blocked" }
        FrameMut::StreamDataBlocked(f) => { b.extend([big(*f.stream_id), big(*f.stream_data_limit)]); "stream_data_blocked" }
        FrameMut::StreamsBlocked(f) => { b.push(big(*f.stream_limit)); n.push(if f.stream_type.is_bidirectional() { 0 } else { 1 }); "streams_blocked" }
        FrameMut::NewConnectionId(f) => {
            b.extend([big(*f.sequence_number), big(*f.retire_prior_to)]);
            n.push(f.connection_id.len() as u64);
            n.extend(f.connection_id.iter().map(|x| *x as u64));
            n.extend(f.stateless_reset_token.iter().map(|x| *x as u64));
            "new_connection_id"
        }
        FrameMut::RetireConnectionId(f) => { b.push(big(*f.sequence_number)); "retire_connection_id" }
        FrameMut::PathChallenge(f) => { n.extend(f.data.iter().map(|x| *x as u64)); "path_challenge" }
        FrameMut::PathResponse(f) => { n.extend(f.data.iter().map(|x| *x as u64)); "path_response" }
        FrameMut::ConnectionClose(f) => {
            b.push(big(*f.error_code));
            if let Some(t) = f.frame_type { b.push(big(*t)); }
            let d: &[u8] = f.reason.unwrap_or(&[]);
            n.extend([if f.frame_type.is_some() { 0 } else { 1 }, off_of(d), d.len() as u64]);
            "connection_close"
        }
        FrameMut::HandshakeDone(_) => "handshake_done",
        FrameMut::Datagram(f) => { let d = f.data.as_less_safe_slice(); n.extend([f.is_last_frame as u64, off_of(d), d.len() as u64]); "datagram" }
        FrameMut::DcStatelessResetTokens(f) => {
            // the token slice is private and the iterator consumes the frame: the count follows from the announced size
            // (4-byte type, count as a 1- or 2-byte integer, 16 bytes per token)
            let s = f.encoding_size() - 4;
            n.push(if (s - 1) % 16 == 0 && (s - 1) / 16 < 64 { (s - 1) / 16 } else { (s - 2) / 16 } as u64);
            "dc_stateless_reset_tokens"
        }
        FrameMut::MtuProbingComplete(f) => { n.push(f.mtu as u64); "mtu_probing_complete" }
    };
    // the encoder announces its size, fills exactly that and the image decodes to the same frame
    let size = frame.encoding_size();
    let mut out = vec![0u8; size + 8];
    let mut enc = EncoderBuffer::new(&mut out);
    enc.encode(&frame);
    let written = enc.len();
    out.truncate(written);
    if written != size {
        out = vec![0xee; 1]; // marker: announced size differs (reported by the caller)
    }
    Some((ty.to_string(), b, n, consumed, out))
}

fn norm(v: &Value) -> Value {
    // TLC prints empty sequences as [] and the harness too; numbers compare as numbers
    v.clone()
}

pub fn replay(args: &[String]) -> Value {
    silence_panics();
    let items = read_behaviours(&args[0]);
    let mut mism: Vec<Value> = vec![];
    let mut steps = 0u64;
    for it in &items {
        let f = &it["f"];
        let bytes: Vec<u8> = it["bytes"].as_array().unwrap().iter().map(|x| x.as_u64().unwrap() as u8).collect();
        let r = std::panic::catch_unwind(|| decode_one(&bytes));
        steps += 1;
        let what = match r {
            Err(e) => Some(format!("decoder panicked: {}", panic_msg(e))),
            Ok(None) => Some("decoder rejects a frame the reference encoder produced".to_string()),
            Ok(Some((ty, b, n, consumed, re))) => {
                let back = &it["back"];
                let exp_nat: Vec<u64> = back["nat"].as_array().unwrap().iter().map(|x| x.as_u64().unwrap()).collect();
                if back["ok"] != json!(true) {
                    Some("reference parser rejects the reference encoder's image".into())
                } else if ty != f["ty"].as_str().unwrap() || json!(b) != norm(&back["big"]) || n != exp_nat || consumed != bytes.len() || back["len"].as_u64() != Some(consumed as u64) {
                    Some(format!("decoded {ty} big={} nat={n:?} len={consumed}, reference {}", json!(b), back))
                } else if re != bytes {
                    Some(format!("re-encoded image {re:?} differs from the canonical image (announced size / shortest form)"))
                } else {
                    None
                }
            }
        };
        if let Some(w) = what {
            mism.push(json!({"what": w, "bytes": bytes, "frame": f}));
        }
    }
    let nm = mism.len();
    mism.truncate(10);
    json!({"behaviours": items.len(), "steps": steps, "mismatches": nm, "first": mism})
}

fn rand_varint(rng: &mut StdRng) -> u64 {
    let edges = [0u64, 1, 63, 64, 16383, 16384, (1 << 30) - 1, 1 << 30, 1 << 60, (1 << 60) + 1, (1 << 62) - 1];
    match rng.random_range(0..4) {
        0 => edges[rng.random_range(0..edges.len())],
        1 => rng.random_range(0..100),
        2 => rng.random_range(0..1u64 << 62),
        _ => edges[rng.random_range(0..edges.len())].saturating_sub(rng.random_range(0..3)),
    }
}

fn vi(buf: &mut Vec<u8>, v: u64, rng: &mut StdRng, minimal: bool) {
    // any legal width (RFC 9000 16 allows longer encodings for ordinary fields)
    let min = if v < 64 { 1 } else if v < 16384 { 2 } else if v < 1 << 30 { 4 } else { 8 };
    let w = if minimal || rng.random_bool(0.85) { min } else { [1usize, 2, 4, 8].into_iter().filter(|w| *w >= min).nth(rng.random_range(0..3)).unwrap_or(8) };
    let code = match w { 1 => 0u8, 2 => 0x40, 4 => 0x80, _ => 0xc0 };
    let be = v.to_be_bytes();
    let start = buf.len();
    buf.extend_from_slice(&be[8 - w..]);
    buf[start] |= code;
}

/// an own (harness-side) frame grammar, independent of the crate's encoders
fn grammar_frame(rng: &mut StdRng) -> Vec<u8> {
    let mut b = vec![];
    let data_len = [0usize, 1, 5, 63, 64, 100][rng.random_range(0..6)];
    let t = [0u8, 1, 2, 3, 4, 5, 6, 7, 8, 9, 10, 11, 12, 13, 14, 15, 16, 17, 18, 19, 20, 21, 22, 23, 24, 25, 26, 27, 28, 29, 30, 48, 49, 0xdc, 0xdd][rng.random_range(0..35)];
    match t {
        0 => { b.extend(std::iter::repeat(0).take(rng.random_range(1..20))); }
        1 | 30 => b.push(t),
        2 | 3 => {
            b.push(t);
            let largest = rand_varint(rng);
            vi(&mut b, largest, rng, false);
            vi(&mut b, rand_varint(rng), rng, false);
            // the count that is WRITTEN may be anything (2^62-1 included); the ranges that follow stay few
            let count = rng.random_range(0..4u64);
            let written = if rng.random_bool(0.12) { rand_varint(rng) } else { count };
            vi(&mut b, written, rng, false);
            let mut cur = largest;
            let first = if rng.random_bool(0.8) { rng.random_range(0..=cur.min(20)) } else { rand_varint(rng) };
            vi(&mut b, first, rng, false);
            cur = cur.saturating_sub(first);
            for _ in 0..count {
                let gap = if rng.random_bool(0.8) { rng.random_range(0..5) } else { rand_varint(rng) };
                let len = if rng.random_bool(0.8) { rng.random_range(0..5) } else { rand_varint(rng) };
                vi(&mut b, gap, rng, false);
                vi(&mut b, len, rng, false);
                cur = cur.saturating_sub(gap + 2).saturating_sub(len);
            }
            if t == 3 { for _ in 0..3 { vi(&mut b, rand_varint(rng), rng, false); } }
        }
        4 => { b.push(t); for _ in 0..3 { vi(&mut b, rand_varint(rng), rng, false); } }
        5 | 17 | 21 => { b.push(t); for _ in 0..2 { vi(&mut b, rand_varint(rng), rng, false); } }
        16 | 18 | 19 | 20 | 22 | 23 | 25 => { b.push(t); vi(&mut b, rand_varint(rng), rng, false); }
        6 => { b.push(t); vi(&mut b, rand_varint(rng), rng, false); vi(&mut b, data_len as u64, rng, false); b.extend((0..data_len).map(|i| i as u8)); }
        7 => { b.push(t); vi(&mut b, data_len as u64, rng, false); b.extend((0..data_len).map(|i| i as u8)); }
        8..=15 => {
            b.push(t);
            vi(&mut b, rand_varint(rng), rng, false);
            if t & 4 != 0 { vi(&mut b, rand_varint(rng), rng, false); }
            if t & 2 != 0 { vi(&mut b, data_len as u64, rng, false); }
            b.extend((0..data_len).map(|i| i as u8 ^ 0x5a));
        }
        24 => {
            b.push(t);
            let seq = rand_varint(rng);
            vi(&mut b, seq, rng, false);
            vi(&mut b, if rng.random_bool(0.7) { rng.random_range(0..=seq) } else { rand_varint(rng) }, rng, false);
            let n = [0u8, 1, 8, 20, 21, 255][rng.random_range(0..6)];
            b.push(n);
            b.extend((0..n).map(|i| i ^ 0x33));
            b.extend(0..16u8);
        }
        26 | 27 => { b.push(t); b.extend(0..8u8); }
        28 | 29 => {
            b.push(t);
            vi(&mut b, rand_varint(rng), rng, false);
            if t == 28 { vi(&mut b, rand_varint(rng), rng, false); }
            vi(&mut b, data_len as u64, rng, false);
            b.extend((0..data_len).map(|i| b'a' + (i % 26) as u8));
        }
        48 => { b.push(t); b.extend((0..data_len).map(|i| i as u8)); }
        49 => { b.push(t); vi(&mut b, data_len as u64, rng, false); b.extend((0..data_len).map(|i| i as u8)); }
        0xdc => {
            // extension frame types, any width that can hold them
            let w4 = rng.random_bool(0.7);
            if w4 { b.extend([0x80 | 0x00, 0xdc, 0x00, 0x00]); } else { b.extend([0xc0, 0, 0, 0, 0, 0xdc, 0, 0]); }
            let count = [0u64, 1, 2, 3, 4092, 4093][rng.random_range(0..6)];
            vi(&mut b, count, rng, false);
            let have = if rng.random_bool(0.8) { count.min(5) } else { count.min(5).saturating_sub(1) };
            b.extend((0..have * 16).map(|i| i as u8));
        }
        _ => { b.extend([0x80, 0xdc, 0x00, 0x02]); b.extend([rng.random::<u8>(), rng.random::<u8>()]); }
    }
    b
}

fn mutate(rng: &mut StdRng, mut b: Vec<u8>) -> Vec<u8> {
    match rng.random_range(0..6) {
        0 if !b.is_empty() => { let i = rng.random_range(0..b.len()); b[i] ^= 1 << rng.random_range(0..8); }
        1 if !b.is_empty() => { let i = rng.random_range(0..b.len()); b[i] = rng.random(); }
        2 if !b.is_empty() => { let n = rng.random_range(0..b.len()); b.truncate(n); }
        3 => { let n = rng.random_range(1..6); b.extend((0..n).map(|_| rng.random::<u8>())); }
        4 if b.len() > 1 => { let i = rng.random_range(0..b.len()); b.remove(i); }
        _ => { let i = rng.random_range(0..=b.len()); b.insert(i, [0u8, 0x3f, 0x40, 0x7f, 0x80, 0xbf, 0xc0, 0xff][rng.random_range(0..8)]); }
    }
    b
}

pub fn frame_case(input: &[u8]) -> Value {
    let r = std::panic::catch_unwind(|| decode_one(input));
    match r {
        Err(e) => json!({"ev": "panic", "what": "frame decode", "b": input, "msg": panic_msg(e)}),
        Ok(None) => json!({"ev": "frame", "b": input, "ok": false}),
        Ok(Some((ty, b, n, len, re))) => {
            // an image that does not decode back to the same frame, or a wrong announced size, is a round-trip failure
            let rt = match decode_one(&re) {
                Some((ty2, b2, n2, len2, _)) => ty2 == ty && b2 == b && len2 == re.len() && (n2 == n || ty == "padding" || n2.len() == n.len()),
                None => false,
            };
            json!({"ev": "frame", "b": input, "ok": true, "ty": ty, "big": b, "nat": n, "len": len, "rt": rt})
        }
    }
}

pub fn record(args: &[String]) -> Value {
    silence_panics();
    let seed: u64 = args[0].parse().unwrap();
    let count: usize = args[1].parse().unwrap();
    let mut out = TraceOut::new(&args[2]);
    let mut rng = StdRng::seed_from_u64(seed ^ 0xf4a3e5);
    let (mut ok, mut bad) = (0u64, 0u64);
    for k in 0..count {
        let input: Vec<u8> = match k % 4 {
            0 => { let n = rng.random_range(0..40); let mut v: Vec<u8> = (0..n).map(|_| rng.random()).collect(); if n > 0 && rng.random_bool(0.7) { v[0] = rng.random_range(0..0x32); } v }
            1 => grammar_frame(&mut rng),
            2 => { let f = grammar_frame(&mut rng); mutate(&mut rng, f) }
            _ => { let f = grammar_frame(&mut rng); let f = mutate(&mut rng, f); mutate(&mut rng, f) }
        };
        let input = if input.len() > 400 { input[..400].to_vec() } else { input };
        let c = frame_case(&input);
        if c["ok"] == json!(true) { ok += 1 } else { bad += 1 }
        out.emit(c);
        // Stream::try_fit on a value that is fitted twice (a writer retrying with another capacity), then encoded with a PING
        // behind it: if the frame does not fill the capacity it must carry its length, or the PING is swallowed as data
        if k % 7 == 0 {
            let len = [0usize, 1, 30, 100][rng.random_range(0..4)];
            let data: Vec<u8> = (0..len).map(|i| i as u8).collect();
            let (c1, c2) = ([10usize, 20, 50, 1200][rng.random_range(0..4)], [60usize, 200, 1200][rng.random_range(0..3)]);
            let mut f = frame::Stream { stream_id: VarInt::from_u8(4), offset: VarInt::from_u8(rng.random_range(0..2)), is_last_frame: false, is_fin: false, data: &data[..] };
            let _ = f.try_fit(c1);
            if let Ok(n) = f.try_fit(c2) {
                let f2 = frame::Stream { stream_id: f.stream_id, offset: f.offset, is_last_frame: f.is_last_frame, is_fin: false, data: &data[..n] };
                let mut buf = vec![0u8; c2 + 8];
                let mut e = EncoderBuffer::new(&mut buf);
                e.encode(&f2);
                let used = e.len();
                let room = used < c2;
                if room { e.encode(&frame::Ping); }
                let total = e.len();
                buf.truncate(total);
                out.emit(json!({"ev": "fitseq", "b": buf, "room": room, "data": n}));
            }
        }
        // variable-length integers on their own
        if k % 5 == 0 {
            let v = rand_varint(&mut rng);
            let vv = VarInt::new(v).unwrap();
            let mut buf = [0u8; 8];
            let mut e = EncoderBuffer::new(&mut buf);
            e.encode(&vv);
            let n = e.len();
            out.emit(json!({"ev": "varint_enc", "v": v.to_be_bytes().to_vec(), "b": buf[..n].to_vec(), "size": vv.encoding_size()}));
            let m: usize = rng.random_range(0..10);
            let bytes: Vec<u8> = (0..m).map(|_| rng.random()).collect();
            let d = s2n_codec::DecoderBuffer::new(&bytes).decode::<VarInt>();
            match d {
                Ok((x, rest)) => out.emit(json!({"ev": "varint_dec", "b": bytes, "ok": true, "v": x.as_u64().to_be_bytes().to_vec(), "len": m - rest.len()})),
                Err(_) => out.emit(json!({"ev": "varint_dec", "b": bytes, "ok": false})),
            }
        }
    }
    let n = out.finish();
    json!({"events": n, "runs": count, "accepted_by_decoder": ok, "rejected_by_decoder": bad})
}

#[allow(dead_code)]
fn _unused(_: frame::Ping) {}

// ------------------------------------------------------------------------------------------------ packets
use s2n_quic_core::{connection::id::ConnectionInfo, inet::SocketAddress, packet::{number::PacketNumberSpace, ProtectedPacket}};

fn bv(b: &[u8]) -> Value {
    json!(b.iter().map(|x| *x as u64).collect::<Vec<_>>())
}

pub fn packet_case(input: &[u8], dcidlen: usize) -> Value {
    let r = std::panic::catch_unwind(|| {
        let mut copy = input.to_vec();
        let total = copy.len();
        let addr = SocketAddress::default();
        let info = ConnectionInfo::new(&addr);
        let buffer = DecoderBufferMut::new(&mut copy);
        let (packet, rest) = ProtectedPacket::decode(buffer, &info, &dcidlen).ok()?;
        let len = total - rest.len();
        let ver = |v: u32| bv(&v.to_be_bytes());
        let (ty, f) = match &packet {
            ProtectedPacket::Short(p) => ("short", vec![bv(p.destination_connection_id())]),
            ProtectedPacket::VersionNegotiation(p) => ("version_negotiation", vec![bv(p.destination_connection_id), bv(p.source_connection_id), json!([p.supported_versions.len() / 4])]),
            ProtectedPacket::Initial(p) => ("initial", vec![ver(p.version), bv(p.destination_connection_id()), bv(p.source_connection_id()), bv(p.token())]),
            ProtectedPacket::ZeroRtt(p) => ("zero_rtt", vec![ver(p.version), bv(p.destination_connection_id()), bv(p.source_connection_id())]),
            ProtectedPacket::Handshake(p) => ("handshake", vec![ver(p.version), bv(p.destination_connection_id()), bv(p.source_connection_id())]),
            ProtectedPacket::Retry(p) => ("retry", vec![ver(p.version), bv(p.destination_connection_id), bv(p.source_connection_id), bv(p.retry_token), bv(&p.retry_integrity_tag[..])]),
        };
        Some((ty.to_string(), f, len))
    });
    match r {
        Err(e) => json!({"ev": "panic", "what": "packet decode", "b": input, "msg": panic_msg(e)}),
        Ok(None) => json!({"ev": "packet", "b": input, "dcidlen": dcidlen, "ok": false}),
        Ok(Some((ty, f, len))) => json!({"ev": "packet", "b": input, "dcidlen": dcidlen, "ok": true, "ty": ty, "f": f, "len": len}),
    }
}

fn grammar_packet(rng: &mut StdRng, dcidlen: usize) -> Vec<u8> {
    let mut b = vec![];
    let cid = |rng: &mut StdRng, b: &mut Vec<u8>| {
        let n = [0u8, 1, 8, 16, 20, 21, 255][rng.random_range(0..7)];
        let have = if rng.random_bool(0.9) { n as usize } else { (n as usize).saturating_sub(1) };
        b.push(n);
        b.extend((0..have).map(|i| i as u8 ^ 0xa5));
    };
    let kind = rng.random_range(0..8);
    match kind {
        0 => { b.push(0x40 | rng.random_range(0..0x40u8)); b.extend((0..dcidlen + rng.random_range(0..30usize)).map(|i| i as u8)); }
        1 => { b.push(rng.random_range(0..0x40u8)); b.extend((0..30).map(|i| i as u8)); }
        2 => {
            // version negotiation (any first byte with the long form bit)
            b.push(0x80 | rng.random_range(0..0x80u8));
            b.extend([0, 0, 0, 0]);
            cid(rng, &mut b); cid(rng, &mut b);
            let n = [0usize, 3, 4, 8, 9][rng.random_range(0..5)];
            b.extend((0..n).map(|i| i as u8 + 1));
        }
        3 | 4 | 5 => {
            let ty = [0xc0u8, 0xd0, 0xe0][kind - 3];
            b.push(ty | rng.random_range(0..16u8));
            b.extend(if rng.random_bool(0.8) { [0u8, 0, 0, 1] } else { [0xfa, 0xce, 0xb0, 0x0c] });
            cid(rng, &mut b); cid(rng, &mut b);
            if ty == 0xc0 {
                let t = [0usize, 1, 20, 70][rng.random_range(0..4)];
                vi(&mut b, t as u64, rng, false);
                b.extend((0..t).map(|i| i as u8));
            }
            let pl = [0usize, 1, 4, 20, 100][rng.random_range(0..5)];
            let declared = if rng.random_bool(0.8) { pl as u64 } else { rand_varint(rng) };
            vi(&mut b, declared, rng, false);
            b.extend((0..pl).map(|i| i as u8));
            // sometimes a second (coalesced) packet follows
            if rng.random_bool(0.3) { b.extend([0x41, 1, 2, 3, 4, 5, 6, 7, 8, 9, 10, 11, 12, 13, 14, 15, 16, 17, 18, 19, 20, 21, 22, 23, 24, 25]); }
        }
        6 => {
            b.push(0xf0 | rng.random_range(0..16u8));
            b.extend([0u8, 0, 0, 1]);
            cid(rng, &mut b); cid(rng, &mut b);
            let n = [0usize, 15, 16, 17, 40][rng.random_range(0..5)];
            b.extend((0..n).map(|i| i as u8));
        }
        _ => { let n = rng.random_range(0..60); b.extend((0..n).map(|_| rng.random::<u8>())); }
    }
    b
}

/// packets-record <seed> <count> <out>: packet headers and packet-number truncation / expansion
pub fn record_packets(args: &[String]) -> Value {
    silence_panics();
    let seed: u64 = args[0].parse().unwrap();
    let count: usize = args[1].parse().unwrap();
    let mut out = TraceOut::new(&args[2]);
    let mut rng = StdRng::seed_from_u64(seed ^ 0x9ac4e7);
    let space = PacketNumberSpace::ApplicationData;
    let pn = |x: u64| space.new_packet_number(VarInt::new(x).unwrap());
    let (mut ok, mut bad) = (0u64, 0u64);
    for k in 0..count {
        let dcidlen = [0usize, 4, 8, 16, 20, 21][rng.random_range(0..6)];
        let mut input = grammar_packet(&mut rng, dcidlen);
        if k % 3 != 0 { input = mutate(&mut rng, input); }
        if input.len() > 400 { input.truncate(400); }
        let c = packet_case(&input, dcidlen);
        if c["ok"] == json!(true) { ok += 1 } else { bad += 1 }
        out.emit(c);
        // packet numbers: the sender's length choice and the receiver's expansion.  Values sit near 0, in the middle
        // (translated by a multiple of 2^32, which is a multiple of every window) and right below 2^62.
        let bytes = rng.random_range(1..4usize);
        let win = 1u64 << (8 * bytes);
        let (base, low, top): (u64, bool, i64) = match rng.random_range(0..3) {
            0 => (0, true, -1),
            1 => ((rng.random_range(1..1u64 << 28)) << 32, false, -1),
            _ => ((1 << 62) - (1 << 30), false, 1 << 30),
        };
        let largest_small = if low && rng.random_bool(0.5) { rng.random_range(0..win) } else { rng.random_range(0..(1u64 << 30) - 1) };
        let trunc = match rng.random_range(0..4) { 0 => 0, 1 => win - 1, 2 => (largest_small + 1) % win, _ => rng.random_range(0..win) };
        // build a truncated number of exactly `bytes` bytes through the public decoder of the length type
        let len = pn(win / 2 - 1).truncate(pn(0)).unwrap().len();
        if len.bytesize() == bytes {
            let be = trunc.to_be_bytes();
            if let Ok((t, _)) = len.decode_truncated_packet_number(s2n_codec::DecoderBuffer::new(&be[8 - bytes..])) {
                let r = std::panic::catch_unwind(|| t.expand(pn(base + largest_small)).as_u64());
                match r {
                    Ok(got) => out.emit(json!({"ev": "pn_dec", "largest": largest_small, "trunc": trunc, "bits": 8 * bytes, "low": low, "top": top,
                                               "got": (got as i128 - base as i128) as i64})),
                    Err(e) => out.emit(json!({"ev": "panic", "what": "pn expand", "msg": panic_msg(e)})),
                }
            }
        }
        // sender side
        let la = rng.random_range(0..(1u64 << 30));
        let dist = match rng.random_range(0..6) { 0 => 1, 1 => 127, 2 => 128, 3 => 32767, 4 => 32768, _ => rng.random_range(1..(1u64 << 24)) };
        let full = la + dist;
        if base + full >= 1 << 62 { continue; }
        if let Some(t) = pn(base + full).truncate(pn(base + la)) {
            let back = t.expand(pn(base + full - 1)).as_u64();
            out.emit(json!({"ev": "pn_enc", "pn": full, "largest": la, "len": t.len().bytesize(), "back": back == base + full}));
        }
    }
    let n = out.finish();
    json!({"events": n, "runs": count, "accepted_by_decoder": ok, "rejected_by_decoder": bad})
}

//! C07: s2n-quic against quiche (an independent RFC 9000/9001 implementation), both roles, over real UDP sockets on the
//! loopback interface with a lossy / reordering relay in between.  Every application read and write on both sides is
//! recorded with its stream position; nothing is judged here (Trace_Interop does).
#[path = "../../h-core/src/util.rs"]
mod util;

use rand::{rngs::StdRng, Rng, SeedableRng};
use s2n_quic_core::crypto::tls::testing::certificates;
use serde_json::{json, Value};
use std::{
    collections::HashMap,
    net::{SocketAddr, UdpSocket},
    sync::{atomic::{AtomicBool, Ordering}, Arc, Mutex},
    time::{Duration, Instant},
};
use util::*;

static LOG: Mutex<Vec<Value>> = Mutex::new(Vec::new());
static T0: std::sync::OnceLock<Instant> = std::sync::OnceLock::new();

fn emit(mut v: Value) {
    let t = T0.get().map(|t| t.elapsed().as_micros() as u64).unwrap_or(0);
    v.as_object_mut().unwrap().insert("t".into(), json!(t));
    LOG.lock().unwrap().push(v);
}

fn pat(pipe: u64, off: u64) -> u8 {
    util::pat(off.wrapping_add(pipe.wrapping_mul(0x9e37_79b9)))
}

#[derive(Clone, Debug, serde::Serialize)]
struct Plan {
    seed: u64,
    /// "s2n_server" (quiche is the client) | "s2n_client" (quiche is the server)
    role: String,
    streams: Vec<(u64, u64)>, // (request bytes, response bytes) per client-initiated bidirectional stream
    drop_permille: u32,
    reorder_permille: u32,
    delay_ms: u64,
    quiche_max_data: u64,
    quiche_max_stream_data: u64,
    quiche_max_streams: u64,
    quiche_udp_payload: usize,
    s2n_data_window: u64,
    s2n_stream_window: u64,
    s2n_max_streams: u64,
    s2n_max_mtu: u16,
    /// length of the connection ids the independent implementation uses (RFC 9000: 0..=20; 0 is not used here)
    quiche_cid_len: usize,
    /// the max_udp_payload_size transport parameter the independent implementation advertises (>= 1200)
    quiche_recv_udp_payload: usize,
    /// it issues a spare connection id (NEW_CONNECTION_ID) after the handshake
    quiche_issue_cid: bool,
}

fn plan(seed: u64, k: usize) -> Plan {
    let mut rng = StdRng::seed_from_u64(seed ^ 0x1a7e20);
    let sizes = [0u64, 1, 100, 1199, 1200, 5000, 65_536, 200_000];
    let n = rng.random_range(1..4);
    let p = Plan {
        seed,
        role: if k % 2 == 0 { "s2n_server".into() } else { "s2n_client".into() },
        streams: (0..n).map(|_| (sizes[rng.random_range(0..sizes.len())], sizes[rng.random_range(0..sizes.len())])).collect(),
        drop_permille: [0u32, 0, 20, 80][rng.random_range(0..4)],
        reorder_permille: [0u32, 50, 200][rng.random_range(0..3)],
        delay_ms: [0u64, 2, 10][rng.random_range(0..3)],
        quiche_max_data: [2_000u64, 50_000, 10_000_000][rng.random_range(0..3)],
        quiche_max_stream_data: [1_000u64, 20_000, 1_000_000][rng.random_range(0..3)],
        quiche_max_streams: [1u64, 3, 100][rng.random_range(0..3)],
        quiche_udp_payload: [1200usize, 1350, 1452][rng.random_range(0..3)],
        s2n_data_window: [2_000u64, 50_000, 10_000_000][rng.random_range(0..3)],
        s2n_stream_window: [1_000u64, 20_000, 1_000_000][rng.random_range(0..3)],
        s2n_max_streams: [1u64, 3, 100][rng.random_range(0..3)],
        s2n_max_mtu: [1228u16, 1350, 1500][rng.random_range(0..3)],
        quiche_cid_len: [8usize, 16, 20, 20, 4][rng.random_range(0..5)],
        quiche_recv_udp_payload: [1200usize, 1200, 1350, 65527][rng.random_range(0..4)],
        quiche_issue_cid: rng.random_bool(0.6),
    };
    // quiche 0.29 answers a REPEATED RETIRE_CONNECTION_ID for an id it has already dropped with OutOfIdentifiers once a single
    // source id is left (cid.rs `remove` checks the length before the sequence number); s2n-quic retires the handshake id when
    // the spare one arrives and, like any sender, repeats the frame after a (spurious) loss.  The spare id is therefore only
    // issued on a network that neither drops nor reorders.
    let p = Plan { quiche_issue_cid: p.quiche_issue_cid && p.drop_permille == 0 && p.reorder_permille == 0, ..p };
    p
}

// ------------------------------------------------------------------------------------------------ relay
/// forwards datagrams between the client and `server`, dropping / delaying some of them
fn relay(server: SocketAddr, p: &Plan, stop: Arc<AtomicBool>) -> SocketAddr {
    let front = UdpSocket::bind("127.0.0.1:0").unwrap();
    let back = UdpSocket::bind("127.0.0.1:0").unwrap();
    front.set_read_timeout(Some(Duration::from_millis(20))).unwrap();
    back.set_read_timeout(Some(Duration::from_millis(20))).unwrap();
    let addr = front.local_addr().unwrap();
    let client: Arc<Mutex<Option<SocketAddr>>> = Arc::new(Mutex::new(None));
    let (drop_p, reorder_p, delay) = (p.drop_permille, p.reorder_permille, p.delay_ms);
    for dir in 0..2 {
        let (rx, tx) = if dir == 0 { (front.try_clone().unwrap(), back.try_clone().unwrap()) } else { (back.try_clone().unwrap(), front.try_clone().unwrap()) };
        let client = client.clone();
        let stop = stop.clone();
        let mut rng = StdRng::seed_from_u64(p.seed ^ (0xe1a1 + dir as u64));
        std::thread::spawn(move || {
            let mut buf = [0u8; 65536];
            let mut held: Vec<(Instant, Vec<u8>, SocketAddr)> = Vec::new();
            let mut count = 0u64;
            while !stop.load(Ordering::SeqCst) {
                let now = Instant::now();
                let (due, rest): (Vec<_>, Vec<_>) = held.drain(..).partition(|x| x.0 <= now);
                held = rest;
                for (_, d, to) in due { let _ = tx.send_to(&d, to); }
                let Ok((n, from)) = rx.recv_from(&mut buf) else { continue };
                let to = if dir == 0 { *client.lock().unwrap() = Some(from); server } else { match *client.lock().unwrap() { Some(c) => c, None => continue } };
                count += 1;
                // the first flights always pass: the handshake itself under loss is exercised by the later packets
                let r: u32 = rng.random_range(0..1000);
                if count > 2 && r < drop_p { continue; }
                let extra = if count > 2 && r < drop_p + reorder_p { rng.random_range(5..40) } else { 0 };
                held.push((now + Duration::from_millis(delay + extra), buf[..n].to_vec(), to));
            }
        });
    }
    addr
}

// ------------------------------------------------------------------------------------------------ quiche side
struct QStream { to_send: u64, sent: u64, fin_sent: bool, recvd: u64, rx_done: bool, started: bool }

fn quiche_config(p: &Plan, server: bool, dir: &str) -> quiche::Config {
    let mut c = quiche::Config::new(quiche::PROTOCOL_VERSION).unwrap();
    c.set_application_protos(&[b"interop"]).unwrap();
    c.verify_peer(false);
    if server {
        let (cf, kf) = (format!("{dir}/interop-cert.pem"), format!("{dir}/interop-key.pem"));
        std::fs::write(&cf, certificates::CERT_PEM).unwrap();
        std::fs::write(&kf, certificates::KEY_PEM).unwrap();
        c.load_cert_chain_from_pem_file(&cf).unwrap();
        c.load_priv_key_from_pem_file(&kf).unwrap();
    }
    c.set_max_idle_timeout(20_000);
    c.set_max_recv_udp_payload_size(p.quiche_recv_udp_payload);
    c.set_active_connection_id_limit(4);
    c.set_max_send_udp_payload_size(p.quiche_udp_payload);
    c.set_initial_max_data(p.quiche_max_data);
    c.set_initial_max_stream_data_bidi_local(p.quiche_max_stream_data);
    c.set_initial_max_stream_data_bidi_remote(p.quiche_max_stream_data);
    c.set_initial_max_stream_data_uni(p.quiche_max_stream_data);
    c.set_initial_max_streams_bidi(p.quiche_max_streams);
    c.set_initial_max_streams_uni(3);
    c
}

/// drives one quiche connection until it is closed or the deadline passes.  As a client it opens the planned streams
/// (when stream credit allows), as a server it answers every request with the planned response.
fn quiche_run(p: &Plan, server: bool, socket: UdpSocket, peer: Option<SocketAddr>, dir: &str, deadline: Instant) {
    let mut cfg = quiche_config(p, server, dir);
    let local = socket.local_addr().unwrap();
    let mut buf = vec![0u8; 65536];
    let mut out = vec![0u8; 1500];
    let scid_bytes: [u8; 20] = std::array::from_fn(|i| (i as u8) ^ (p.seed as u8) ^ if server { 0x80 } else { 0 });
    let scid = quiche::ConnectionId::from_ref(&scid_bytes[..p.quiche_cid_len]);
    let mut spare_issued = false;
    let (mut conn, mut peer) = if server {
        // wait for the first datagram
        socket.set_read_timeout(Some(Duration::from_millis(50))).unwrap();
        let (n, from) = loop {
            if Instant::now() > deadline { emit(json!({"ev": "stall", "what": "quiche server saw no packet"})); return; }
            if let Ok(x) = socket.recv_from(&mut buf) { break x; }
        };
        let mut c = quiche::accept(&scid, None, local, from, &mut cfg).unwrap();
        let _ = c.recv(&mut buf[..n], quiche::RecvInfo { from, to: local });
        (c, from)
    } else {
        let peer = peer.unwrap();
        (quiche::connect(Some("localhost"), &scid, local, peer, &mut cfg).unwrap(), peer)
    };
    let me = if server { "quiche_server" } else { "quiche_client" };
    let mut streams: HashMap<u64, QStream> = HashMap::new();
    let mut opened = 0usize;
    let mut established = false;
    let mut all_done_at: Option<Instant> = None;
    loop {
        // send
        loop {
            match conn.send(&mut out) {
                Ok((n, info)) => { let _ = socket.send_to(&out[..n], info.to); }
                Err(quiche::Error::Done) => break,
                Err(e) => { emit(json!({"ev": "quiche_send_error", "side": me, "err": format!("{e:?}")})); break; }
            }
        }
        if conn.is_closed() { break; }
        if Instant::now() > deadline { emit(json!({"ev": "stall", "what": format!("{me} did not finish")})); break; }
        // receive (bounded by quiche's own timer)
        let to = conn.timeout().unwrap_or(Duration::from_millis(20)).min(Duration::from_millis(20)).max(Duration::from_millis(1));
        socket.set_read_timeout(Some(to)).unwrap();
        match socket.recv_from(&mut buf) {
            Ok((n, from)) => {
                peer = from;
                match conn.recv(&mut buf[..n], quiche::RecvInfo { from, to: local }) {
                    Ok(_) | Err(quiche::Error::Done) => {}
                    Err(e) => { emit(json!({"ev": "quiche_recv_error", "side": me, "err": format!("{e:?}")})); }
                }
            }
            Err(_) => conn.on_timeout(),
        }
        let _ = peer;
        if conn.is_established() && p.quiche_issue_cid && !spare_issued && conn.scids_left() > 0 {
            // a spare connection id of the same length, issued with NEW_CONNECTION_ID
            spare_issued = true;
            let spare: [u8; 20] = std::array::from_fn(|i| (i as u8).wrapping_mul(3) ^ 0x5c ^ (p.seed as u8) ^ if server { 0x80 } else { 0 });
            let r = conn.new_scid(&quiche::ConnectionId::from_ref(&spare[..p.quiche_cid_len]), 0x1234_5678_9abc_def0_u128 ^ p.seed as u128, false);
            emit(json!({"ev": "quiche_new_scid", "side": me, "len": p.quiche_cid_len, "ok": r.is_ok()}));
        }
        if conn.is_established() && !established {
            established = true;
            emit(json!({"ev": "hs", "side": me, "ok": true}));
        }
        if !established { continue; }
        // client: open streams as credit allows
        if !server {
            while opened < p.streams.len() && conn.peer_streams_left_bidi() > 0 {
                let id = (opened as u64) * 4;
                let (req, _) = p.streams[opened];
                streams.insert(id, QStream { to_send: req, sent: 0, fin_sent: false, recvd: 0, rx_done: false, started: true });
                emit(json!({"ev": "open", "k": opened, "req": req, "resp": p.streams[opened].1, "client_mode": "shutdown", "server_mode": "echo_len"}));
                opened += 1;
                // create the stream now so that the next look at the stream credit counts it
                if req > 0 { let _ = conn.stream_send(id, b"", false); }
                if req == 0 {
                    emit(json!({"ev": "wfin_start", "pipe": 2 * (id / 4), "total": 0}));
                    match conn.stream_send(id, b"", true) { Ok(_) => { streams.get_mut(&id).unwrap().fin_sent = true; emit(json!({"ev": "wfin", "pipe": 2 * (id / 4), "total": 0})); } Err(_) => {} }
                }
            }
        }
        // read
        let readable: Vec<u64> = conn.readable().collect();
        for id in readable {
            let k = id / 4;
            let pipe = if server { 2 * k } else { 2 * k + 1 };
            let st = streams.entry(id).or_insert(QStream { to_send: 0, sent: 0, fin_sent: false, recvd: 0, rx_done: false, started: false });
            loop {
                match conn.stream_recv(id, &mut buf) {
                    Ok((n, fin)) => {
                        if n > 0 {
                            let ok = buf[..n].iter().enumerate().all(|(i, b)| *b == pat(pipe, st.recvd + i as u64));
                            emit(json!({"ev": "r", "pipe": pipe, "off": st.recvd, "len": n, "ok": ok}));
                            st.recvd += n as u64;
                        }
                        if fin {
                            st.rx_done = true;
                            emit(json!({"ev": "eos", "pipe": pipe, "total": st.recvd}));
                            if server {
                                // the response may start
                                st.to_send = p.streams.get(k as usize).map(|s| s.1).unwrap_or(0);
                                st.started = true;
                            }
                            break;
                        }
                    }
                    Err(quiche::Error::Done) => break,
                    Err(e) => { emit(json!({"ev": "rerr", "pipe": pipe, "off": st.recvd, "kind": format!("{e:?}")})); st.rx_done = true; break; }
                }
            }
        }
        // write
        for (id, st) in streams.iter_mut() {
            if !st.started || st.fin_sent { continue; }
            let k = id / 4;
            let pipe = if server { 2 * k + 1 } else { 2 * k };
            while st.sent < st.to_send {
                let n = ((st.to_send - st.sent) as usize).min(16_384);
                let chunk: Vec<u8> = (0..n as u64).map(|i| pat(pipe, st.sent + i)).collect();
                match conn.stream_send(*id, &chunk, false) {
                    Ok(0) | Err(quiche::Error::Done) => break,
                    Ok(w) => {
                        // quiche accepted w bytes at this offset
                        emit(json!({"ev": "wstart", "pipe": pipe, "off": st.sent, "len": w}));
                        st.sent += w as u64;
                        emit(json!({"ev": "w", "pipe": pipe, "off": st.sent}));
                    }
                    Err(e) => { emit(json!({"ev": "werr", "pipe": pipe, "off": st.sent, "kind": format!("{e:?}")})); st.fin_sent = true; break; }
                }
            }
            if st.sent == st.to_send && !st.fin_sent {
                emit(json!({"ev": "wfin_start", "pipe": pipe, "total": st.to_send}));
                match conn.stream_send(*id, b"", true) {
                    Ok(_) => { st.fin_sent = true; emit(json!({"ev": "wfin", "pipe": pipe, "total": st.to_send})); }
                    Err(quiche::Error::Done) => {}
                    Err(e) => { emit(json!({"ev": "werr", "pipe": pipe, "off": st.sent, "kind": format!("{e:?}")})); st.fin_sent = true; }
                }
            }
        }
        // the client closes when every exchange is complete
        if !server && opened == p.streams.len() && streams.values().all(|s| s.fin_sent && s.rx_done) {
            for k in 0..p.streams.len() { if all_done_at.is_none() { emit(json!({"ev": "client_done", "k": k})); } }
            if all_done_at.is_none() { all_done_at = Some(Instant::now()); }
            if all_done_at.unwrap().elapsed() > Duration::from_millis(100) {
                let _ = conn.close(true, 0, b"done");
            }
        }
    }
    let kind = |e: Option<&quiche::ConnectionError>| -> (&'static str, u64) { match e { None => ("none", 0), Some(e) if e.is_app => ("app", e.error_code), Some(e) => ("transport", e.error_code) } };
    let (pk, pc) = kind(conn.peer_error());
    let (lk, lc) = kind(conn.local_error());
    emit(json!({"ev": "closed", "side": me, "established": established, "timed_out": conn.is_timed_out(),
                "peer_error": pk, "peer_code": pc, "local_error": lk, "local_code": lc}));
}

// ------------------------------------------------------------------------------------------------ s2n-quic side
fn s2n_limits(p: &Plan) -> s2n_quic::provider::limits::Limits {
    s2n_quic::provider::limits::Limits::new()
        .with_data_window(p.s2n_data_window).unwrap()
        .with_bidirectional_local_data_window(p.s2n_stream_window).unwrap()
        .with_bidirectional_remote_data_window(p.s2n_stream_window).unwrap()
        .with_max_open_remote_bidirectional_streams(p.s2n_max_streams).unwrap()
        .with_max_idle_timeout(Duration::from_secs(20)).unwrap()
}

fn describe(e: &s2n_quic::connection::Error) -> Value {
    use s2n_quic::connection::Error as E;
    match e {
        E::Closed { .. } => json!({"kind": "closed", "code": 0, "local": false}),
        E::Transport { code, initiator, .. } => json!({"kind": "transport", "code": code.as_u64(), "local": initiator.is_local(), "dbg": format!("{e:?}").chars().take(200).collect::<String>()}),
        E::Application { error, initiator, .. } => json!({"kind": "application", "code": u64::from(*error), "local": initiator.is_local()}),
        E::IdleTimerExpired { .. } => json!({"kind": "idle", "code": 0, "local": true}),
        other => json!({"kind": "other", "code": 0, "local": true, "dbg": format!("{other:?}").chars().take(80).collect::<String>()}),
    }
}

async fn s2n_write(send: &mut s2n_quic::stream::SendStream, pipe: u64, total: u64) {
    let mut off = 0u64;
    while off < total {
        let n = ((total - off) as usize).min(16_384);
        let chunk: Vec<u8> = (0..n as u64).map(|i| pat(pipe, off + i)).collect();
        emit(json!({"ev": "wstart", "pipe": pipe, "off": off, "len": n}));
        if let Err(e) = send.send(bytes::Bytes::from(chunk)).await {
            emit(json!({"ev": "werr", "pipe": pipe, "off": off, "kind": format!("{e:?}").chars().take(60).collect::<String>()}));
            return;
        }
        off += n as u64;
        emit(json!({"ev": "w", "pipe": pipe, "off": off}));
    }
    emit(json!({"ev": "wfin_start", "pipe": pipe, "total": total}));
    match send.close().await {
        Ok(()) => emit(json!({"ev": "wfin", "pipe": pipe, "total": total})),
        Err(e) => emit(json!({"ev": "werr", "pipe": pipe, "off": off, "kind": format!("{e:?}").chars().take(60).collect::<String>()})),
    }
}

async fn s2n_read(recv: &mut s2n_quic::stream::ReceiveStream, pipe: u64) -> bool {
    let mut off = 0u64;
    loop {
        match recv.receive().await {
            Ok(Some(chunk)) => {
                let ok = chunk.iter().enumerate().all(|(i, b)| *b == pat(pipe, off + i as u64));
                emit(json!({"ev": "r", "pipe": pipe, "off": off, "len": chunk.len(), "ok": ok}));
                off += chunk.len() as u64;
            }
            Ok(None) => { emit(json!({"ev": "eos", "pipe": pipe, "total": off})); return true; }
            Err(e) => { emit(json!({"ev": "rerr", "pipe": pipe, "off": off, "kind": format!("{e:?}").chars().take(60).collect::<String>()})); return false; }
        }
    }
}

async fn s2n_server(p: Plan, ready: tokio::sync::oneshot::Sender<SocketAddr>) {
    let tls = s2n_quic::provider::tls::default::Server::builder()
        .with_application_protocols(["interop"].iter()).unwrap()
        .with_certificate(certificates::CERT_PEM, certificates::KEY_PEM).unwrap()
        .build().unwrap();
    let io = s2n_quic::provider::io::Default::builder().with_receive_address("127.0.0.1:0".parse().unwrap()).unwrap().with_max_mtu(p.s2n_max_mtu).unwrap().build().unwrap();
    let mut server = s2n_quic::Server::builder().with_tls(tls).unwrap().with_io(io).unwrap().with_limits(s2n_limits(&p)).unwrap().start().unwrap();
    let _ = ready.send(server.local_addr().unwrap());
    let Some(mut conn) = server.accept().await else { return };
    emit(json!({"ev": "hs", "side": "s2n_server", "ok": true}));
    loop {
        match conn.accept_bidirectional_stream().await {
            Ok(Some(stream)) => {
                let k = u64::from(stream.id()) / 4;
                let resp = p.streams.get(k as usize).map(|s| s.1).unwrap_or(0);
                tokio::spawn(async move {
                    let (mut recv, mut send) = stream.split();
                    if s2n_read(&mut recv, 2 * k).await { s2n_write(&mut send, 2 * k + 1, resp).await; }
                });
            }
            Ok(None) => { emit(json!({"ev": "closed", "side": "s2n_server", "error": {"kind": "closed", "code": 0, "local": false}})); break; }
            Err(e) => { emit(json!({"ev": "closed", "side": "s2n_server", "error": describe(&e)})); break; }
        }
    }
}

async fn s2n_client(p: Plan, server_addr: SocketAddr) {
    let tls = s2n_quic::provider::tls::default::Client::builder()
        .with_application_protocols(["interop"].iter()).unwrap()
        .with_certificate(certificates::CERT_PEM).unwrap()
        .build().unwrap();
    let io = s2n_quic::provider::io::Default::builder().with_receive_address("127.0.0.1:0".parse().unwrap()).unwrap().with_max_mtu(p.s2n_max_mtu).unwrap().build().unwrap();
    let client = s2n_quic::Client::builder().with_tls(tls).unwrap().with_io(io).unwrap().with_limits(s2n_limits(&p)).unwrap().start().unwrap();
    let connect = s2n_quic::client::Connect::new(server_addr).with_server_name("localhost");
    let mut conn = match client.connect(connect).await {
        Ok(c) => c,
        Err(e) => { emit(json!({"ev": "hs", "side": "s2n_client", "ok": false})); emit(json!({"ev": "closed", "side": "s2n_client", "error": describe(&e)})); return; }
    };
    emit(json!({"ev": "hs", "side": "s2n_client", "ok": true}));
    let mut tasks = Vec::new();
    for (k, (req, resp)) in p.streams.iter().copied().enumerate() {
        let k = k as u64;
        emit(json!({"ev": "open", "k": k, "req": req, "resp": resp, "client_mode": "shutdown", "server_mode": "echo_len"}));
        match conn.open_bidirectional_stream().await {
            Ok(stream) => tasks.push(tokio::spawn(async move {
                let (mut recv, mut send) = stream.split();
                s2n_write(&mut send, 2 * k, req).await;
                s2n_read(&mut recv, 2 * k + 1).await;
                emit(json!({"ev": "client_done", "k": k}));
            })),
            Err(e) => { emit(json!({"ev": "closed", "side": "s2n_client", "error": describe(&e)})); return; }
        }
    }
    for t in tasks { let _ = t.await; }
    tokio::time::sleep(Duration::from_millis(100)).await;
    conn.close(0u32.into());
    emit(json!({"ev": "closed", "side": "s2n_client", "error": {"kind": "application", "code": 0, "local": true}}));
    tokio::time::sleep(Duration::from_millis(200)).await;
}

fn run_one(p: &Plan, dir: &str) {
    let stop = Arc::new(AtomicBool::new(false));
    let deadline = Instant::now() + Duration::from_secs(40);
    let rt = tokio::runtime::Builder::new_multi_thread().worker_threads(2).enable_all().build().unwrap();
    if p.role == "s2n_server" {
        let (tx, rx) = tokio::sync::oneshot::channel();
        let p2 = p.clone();
        let server = rt.spawn(async move { let _ = tokio::time::timeout(Duration::from_secs(42), s2n_server(p2, tx)).await; });
        let addr = rt.block_on(async { rx.await.unwrap() });
        let front = relay(addr, p, stop.clone());
        let sock = UdpSocket::bind("127.0.0.1:0").unwrap();
        quiche_run(p, false, sock, Some(front), dir, deadline);
        rt.block_on(async { let _ = tokio::time::timeout(Duration::from_secs(3), server).await; });
    } else {
        let sock = UdpSocket::bind("127.0.0.1:0").unwrap();
        let addr = sock.local_addr().unwrap();
        let front = relay(addr, p, stop.clone());
        let (p2, d2) = (p.clone(), dir.to_string());
        let q = std::thread::spawn(move || quiche_run(&p2, true, sock, None, &d2, deadline));
        let p3 = p.clone();
        rt.block_on(async move { let _ = tokio::time::timeout(Duration::from_secs(42), s2n_client(p3, front)).await; });
        let _ = q.join();
    }
    stop.store(true, Ordering::SeqCst);
    rt.shutdown_timeout(Duration::from_millis(200));
}

fn main() {
    let args: Vec<String> = std::env::args().skip(1).collect();
    if args.first().map(|s| s.as_str()) != Some("interop") || args.len() < 5 {
        eprintln!("usage: h-interop interop <seed> <count> <out.ndjson> <scratch-dir>");
        std::process::exit(2);
    }
    silence_panics();
    let seed: u64 = args[1].parse().unwrap();
    let count: usize = args[2].parse().unwrap();
    let mut out = TraceOut::new(&args[3]);
    T0.get_or_init(Instant::now);
    let mut bytes = 0u64;
    for k in 0..count {
        let p = plan(seed.wrapping_mul(1000) + k as u64, k);
        LOG.lock().unwrap().clear();
        out.emit(json!({"ev": "reset", "plan": serde_json::to_value(&p).unwrap()}));
        let r = std::panic::catch_unwind(std::panic::AssertUnwindSafe(|| run_one(&p, &args[4])));
        let mut evs = std::mem::take(&mut *LOG.lock().unwrap());
        if let Err(e) = r { evs.push(json!({"ev": "panic", "msg": panic_msg(e)})); }
        evs.push(json!({"ev": "end"}));
        for e in evs {
            if e["ev"] == "r" { bytes += e["len"].as_u64().unwrap(); }
            out.emit(e);
        }
    }
    let n = out.finish();
    println!("RESULT {}", json!({"events": n, "runs": count, "bytes_read": bytes}));
}
